#![no_main]
//! C04 — coverage-guided: byte 0 selects the decode target, the rest is the input. The oracle is the
//! same function the property-based tier uses (no panic, clean error or a value that re-encodes and
//! decodes to itself, node/allocation budgets).
use libfuzzer_sys::fuzz_target;

fuzz_target!(|data: &[u8]| {
    if data.is_empty() {
        return;
    }
    if let Err(e) = vcheck::checks::c04::fuzz_one(data[0], &data[1..]) {
        panic!("C04 violation: {e}");
    }
});
