#![no_main]
//! C15 — coverage-guided: bytes 0..2 select role, endpoint state and frame size; the rest is sent to the
//! endpoint verbatim as the attack. The oracle is c15::run_case (see the rule text of C15).
use libfuzzer_sys::fuzz_target;

fuzz_target!(|data: &[u8]| {
    if data.len() < 3 {
        return;
    }
    if let Err(e) = vcheck::checks::c15::fuzz_one(data) {
        panic!("C15 violation: {e}");
    }
});
