use serde_amqp::lazy::LazyValue;
fn main() {
    for hex in ["40", "a10568656c6c6f", "c0050243405201", "005375a00161", "5201"] {
        let b = vcheck::refcodec::unhex(hex);
        let s: Result<LazyValue, _> = serde_amqp::from_slice(&b);
        let r: Result<LazyValue, _> = serde_amqp::from_reader(&b[..]);
        println!("{hex}: slice={:?} reader={:?}", s.map(|v| vcheck::refcodec::hex(v.as_slice())), r.map(|v| vcheck::refcodec::hex(v.as_slice())).map_err(|e| e.to_string()));
    }
}
