use fe2o3_amqp_types::performatives::*;
use fe2o3_amqp_types::messaging::*;
use fe2o3_amqp_types::definitions::*;
use serde_amqp::{to_value, from_value, to_vec, serialized_size, Value};
fn main() {
    let o = Open { container_id: "".into(), hostname: None, max_frame_size: MaxFrameSize(u32::MAX), channel_max: ChannelMax(65535), idle_time_out: None, outgoing_locales: None, incoming_locales: None, offered_capabilities: None, desired_capabilities: None, properties: None };
    let v = to_value(&o).unwrap();
    println!("{:?}", v);
    println!("{:?}", from_value::<Open>(v));
    let o = Open { container_id: "x".into(), hostname: Some("h".into()), max_frame_size: MaxFrameSize(100), channel_max: ChannelMax(5), idle_time_out: Some(1), outgoing_locales: None, incoming_locales: None, offered_capabilities: None, desired_capabilities: None, properties: Some(Default::default()) };
    let v = to_value(&o).unwrap();
    println!("{:?}", v);
    println!("{:?}", from_value::<Open>(v));
    let e = End { error: None };
    let v = to_value(&e).unwrap();
    println!("{:?} -> {:?}", v, from_value::<End>(v.clone()));
    let d = Detach { handle: Handle(1), closed: true, error: None };
    let v = to_value(&d).unwrap();
    println!("{:?} -> {:?}", v, from_value::<Detach>(v.clone()));
    let h = Header::default();
    println!("hdr to_vec={:?} size={:?}", to_vec(&h), serialized_size(&h));
    let h = Header{durable:true, ..Default::default()};
    println!("hdr to_vec={:?} size={:?}", to_vec(&h), serialized_size(&h));
    let a = Accepted{};
    println!("acc to_vec={:?} size={:?}", to_vec(&a), serialized_size(&a));
    let _ = Value::Null;
}
