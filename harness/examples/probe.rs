use fe2o3_amqp_types::messaging::{Body, Message, message::__private::{Deserializable, Serializable}};
use serde_amqp::Value;
fn main() {
    for hex in ["5375", "53755375", "53755377", "005375a00161", "5375a00161", "53775375", "5372", "53705375"] {
        let b = vcheck::refcodec::unhex(hex);
        let r: Result<Deserializable<Message<Body<Value>>>, _> = serde_amqp::from_slice(&b);
        match r {
            Ok(m) => {
                let e = serde_amqp::to_vec(&Serializable(&m.0)).map(|v| vcheck::refcodec::hex(&v));
                println!("{hex}: Ok body={:?} reenc={:?}", m.0.body, e);
            }
            Err(e) => println!("{hex}: Err {e}"),
        }
    }
}
