//! Reference SCRAM (RFC 5802) for the scripted SASL clients and servers of C19 — independent of
//! the implementation under test (own PBKDF2 on top of HMAC).
use base64::Engine;
use hmac::{Hmac, KeyInit, Mac};
use sha1::Sha1;
use sha2::{Digest, Sha256, Sha512};

#[derive(Clone, Copy, Debug, PartialEq, Eq)]
pub enum Ver {
    Sha1,
    Sha256,
    Sha512,
}

impl Ver {
    pub fn mechanism(&self) -> &'static str {
        match self {
            Ver::Sha1 => "SCRAM-SHA-1",
            Ver::Sha256 => "SCRAM-SHA-256",
            Ver::Sha512 => "SCRAM-SHA-512",
        }
    }
    pub fn h(&self, data: &[u8]) -> Vec<u8> {
        match self {
            Ver::Sha1 => Sha1::digest(data).to_vec(),
            Ver::Sha256 => Sha256::digest(data).to_vec(),
            Ver::Sha512 => Sha512::digest(data).to_vec(),
        }
    }
    pub fn hmac(&self, key: &[u8], data: &[u8]) -> Vec<u8> {
        match self {
            Ver::Sha1 => {
                let mut m = <Hmac<Sha1> as KeyInit>::new_from_slice(key).expect("hmac key");
                m.update(data);
                m.finalize().into_bytes().to_vec()
            }
            Ver::Sha256 => {
                let mut m = <Hmac<Sha256> as KeyInit>::new_from_slice(key).expect("hmac key");
                m.update(data);
                m.finalize().into_bytes().to_vec()
            }
            Ver::Sha512 => {
                let mut m = <Hmac<Sha512> as KeyInit>::new_from_slice(key).expect("hmac key");
                m.update(data);
                m.finalize().into_bytes().to_vec()
            }
        }
    }
    /// Hi(str, salt, i) of RFC 5802 (PBKDF2 with one block)
    pub fn hi(&self, password: &[u8], salt: &[u8], iters: u32) -> Vec<u8> {
        let mut s = salt.to_vec();
        s.extend_from_slice(&1u32.to_be_bytes());
        let mut u = self.hmac(password, &s);
        let mut out = u.clone();
        for _ in 1..iters.max(1) {
            u = self.hmac(password, &u);
            for (o, x) in out.iter_mut().zip(u.iter()) {
                *o ^= x;
            }
        }
        out
    }
}

pub fn b64(b: &[u8]) -> String {
    base64::engine::general_purpose::STANDARD.encode(b)
}
pub fn unb64(s: &str) -> Option<Vec<u8>> {
    base64::engine::general_purpose::STANDARD.decode(s).ok()
}

pub struct Keys {
    pub proof: Vec<u8>,
    pub server_signature: Vec<u8>,
}

/// client proof and server signature for an exchange
pub fn compute(ver: Ver, password: &str, salt: &[u8], iters: u32, auth_message: &str) -> Keys {
    let salted = ver.hi(password.as_bytes(), salt, iters);
    let client_key = ver.hmac(&salted, b"Client Key");
    let stored_key = ver.h(&client_key);
    let client_sig = ver.hmac(&stored_key, auth_message.as_bytes());
    let proof: Vec<u8> = client_key.iter().zip(client_sig.iter()).map(|(a, b)| a ^ b).collect();
    let server_key = ver.hmac(&salted, b"Server Key");
    let server_signature = ver.hmac(&server_key, auth_message.as_bytes());
    Keys { proof, server_signature }
}

/// parse "r=..,s=..,i=.." (server-first)
pub fn parse_server_first(s: &str) -> Option<(String, Vec<u8>, u32)> {
    let mut nonce = None;
    let mut salt = None;
    let mut iters = None;
    for p in s.split(',') {
        if let Some(v) = p.strip_prefix("r=") {
            nonce = Some(v.to_string());
        } else if let Some(v) = p.strip_prefix("s=") {
            salt = unb64(v);
        } else if let Some(v) = p.strip_prefix("i=") {
            iters = v.parse().ok();
        }
    }
    Some((nonce?, salt?, iters?))
}

#[cfg(test)]
mod tests {
    use super::*;
    #[test]
    fn rfc5802_vector() {
        // RFC 5802 section 5 (SCRAM-SHA-1)
        let auth = "n=user,r=fyko+d2lbbFgONRv9qkxdawL,r=fyko+d2lbbFgONRv9qkxdawL3rfcNHYJY1ZVvWVs7j,s=QSXCR+Q6sek8bf92,i=4096,c=biws,r=fyko+d2lbbFgONRv9qkxdawL3rfcNHYJY1ZVvWVs7j";
        let k = compute(Ver::Sha1, "pencil", &unb64("QSXCR+Q6sek8bf92").unwrap(), 4096, auth);
        assert_eq!(b64(&k.proof), "v0X8v3Bz2T0CJGbJQyF0X+HI4Ts=");
        assert_eq!(b64(&k.server_signature), "rmF9pqV8S7suAoZWja4dJRkFsKQ=");
    }
}
