//! Counting global allocator: tracks bytes allocated on the *current thread* while a
//! measurement window is open, and aborts the process (after a marker line on stderr)
//! when a single request exceeds the hard limit.
use std::alloc::{GlobalAlloc, Layout, System};
use std::cell::Cell;

pub struct Counting;

thread_local! {
    static ACTIVE: Cell<bool> = const { Cell::new(false) };
    static CUR: Cell<usize> = const { Cell::new(0) };
    static PEAK: Cell<usize> = const { Cell::new(0) };
    static MAXREQ: Cell<usize> = const { Cell::new(0) };
}

pub const HARD_LIMIT: usize = 256 << 20;

extern "C" {
    fn write(fd: i32, buf: *const u8, n: usize) -> isize;
}

unsafe impl GlobalAlloc for Counting {
    unsafe fn alloc(&self, layout: Layout) -> *mut u8 {
        note(layout.size());
        System.alloc(layout)
    }
    unsafe fn alloc_zeroed(&self, layout: Layout) -> *mut u8 {
        note(layout.size());
        System.alloc_zeroed(layout)
    }
    unsafe fn dealloc(&self, ptr: *mut u8, layout: Layout) {
        let _ = ACTIVE.try_with(|a| {
            if a.get() {
                let _ = CUR.try_with(|c| c.set(c.get().saturating_sub(layout.size())));
            }
        });
        System.dealloc(ptr, layout)
    }
    unsafe fn realloc(&self, ptr: *mut u8, layout: Layout, new_size: usize) -> *mut u8 {
        if new_size > layout.size() {
            note(new_size - layout.size());
        }
        System.realloc(ptr, layout, new_size)
    }
}

fn note(size: usize) {
    let _ = ACTIVE.try_with(|a| {
        if a.get() {
            if size > HARD_LIMIT {
                let msg = b"ALLOC-BUDGET: single allocation request above 256 MiB during decode\n";
                unsafe {
                    write(2, msg.as_ptr(), msg.len());
                }
                std::process::abort();
            }
            let _ = CUR.try_with(|c| {
                let n = c.get() + size;
                c.set(n);
                let _ = PEAK.try_with(|p| {
                    if n > p.get() {
                        p.set(n)
                    }
                });
            });
            let _ = MAXREQ.try_with(|m| {
                if size > m.get() {
                    m.set(size)
                }
            });
        }
    });
}

pub struct Window;

/// open a measurement window on this thread
pub fn begin() -> Window {
    CUR.with(|c| c.set(0));
    PEAK.with(|c| c.set(0));
    MAXREQ.with(|c| c.set(0));
    ACTIVE.with(|a| a.set(true));
    Window
}

impl Window {
    /// (peak bytes live, largest single request)
    pub fn end(self) -> (usize, usize) {
        ACTIVE.with(|a| a.set(false));
        (PEAK.with(|p| p.get()), MAXREQ.with(|m| m.get()))
    }
}

impl Drop for Window {
    fn drop(&mut self) {
        ACTIVE.with(|a| a.set(false));
    }
}
