//! Structural conversion between the reference value model and serde_amqp::Value.
use crate::refcodec::RValue;
use ordered_float::OrderedFloat;
use serde_amqp::{
    described::Described,
    descriptor::Descriptor,
    primitives::{Array, Dec128, Dec32, Dec64, OrderedMap, Symbol, Timestamp, Uuid},
    Value,
};
use serde_bytes::ByteBuf;

pub fn to_value(r: &RValue) -> Value {
    match r {
        RValue::Null => Value::Null,
        RValue::Bool(b) => Value::Bool(*b),
        RValue::Ubyte(x) => Value::Ubyte(*x),
        RValue::Ushort(x) => Value::Ushort(*x),
        RValue::Uint(x) => Value::Uint(*x),
        RValue::Ulong(x) => Value::Ulong(*x),
        RValue::Byte(x) => Value::Byte(*x),
        RValue::Short(x) => Value::Short(*x),
        RValue::Int(x) => Value::Int(*x),
        RValue::Long(x) => Value::Long(*x),
        RValue::Float(b) => Value::Float(OrderedFloat(f32::from_bits(*b))),
        RValue::Double(b) => Value::Double(OrderedFloat(f64::from_bits(*b))),
        RValue::Dec32(b) => Value::Decimal32(Dec32::from(*b)),
        RValue::Dec64(b) => Value::Decimal64(Dec64::from(*b)),
        RValue::Dec128(b) => Value::Decimal128(Dec128::from(*b)),
        RValue::Char(c) => Value::Char(char::from_u32(*c).expect("valid char in model")),
        RValue::Timestamp(t) => Value::Timestamp(Timestamp::from_milliseconds(*t)),
        RValue::Uuid(u) => Value::Uuid(Uuid::from(*u)),
        RValue::Binary(b) => Value::Binary(ByteBuf::from(b.clone())),
        RValue::Str(s) => Value::String(s.clone()),
        RValue::Sym(s) => Value::Symbol(Symbol::new(s.clone())),
        RValue::List(v) => Value::List(v.iter().map(to_value).collect()),
        RValue::Map(v) => {
            let mut m = OrderedMap::new();
            for (k, x) in v {
                m.insert(to_value(k), to_value(x));
            }
            Value::Map(m)
        }
        RValue::Array(v) => Value::Array(Array(v.iter().map(to_value).collect())),
        RValue::Described(d, v) => {
            let descriptor = match &**d {
                RValue::Ulong(c) => Descriptor::Code(*c),
                RValue::Sym(s) => Descriptor::Name(Symbol::new(s.clone())),
                other => panic!("model descriptor must be ulong or symbol, got {:?}", other),
            };
            Value::Described(Box::new(Described {
                descriptor,
                value: to_value(v),
            }))
        }
    }
}

pub fn from_value(v: &Value) -> RValue {
    match v {
        Value::Null => RValue::Null,
        Value::Bool(b) => RValue::Bool(*b),
        Value::Ubyte(x) => RValue::Ubyte(*x),
        Value::Ushort(x) => RValue::Ushort(*x),
        Value::Uint(x) => RValue::Uint(*x),
        Value::Ulong(x) => RValue::Ulong(*x),
        Value::Byte(x) => RValue::Byte(*x),
        Value::Short(x) => RValue::Short(*x),
        Value::Int(x) => RValue::Int(*x),
        Value::Long(x) => RValue::Long(*x),
        Value::Float(f) => RValue::Float(f.0.to_bits()),
        Value::Double(f) => RValue::Double(f.0.to_bits()),
        Value::Decimal32(d) => RValue::Dec32(*d.as_inner()),
        Value::Decimal64(d) => RValue::Dec64(*d.as_inner()),
        Value::Decimal128(d) => RValue::Dec128(*d.as_inner()),
        Value::Char(c) => RValue::Char(*c as u32),
        Value::Timestamp(t) => RValue::Timestamp(t.milliseconds()),
        Value::Uuid(u) => RValue::Uuid(*u.as_inner()),
        Value::Binary(b) => RValue::Binary(b.to_vec()),
        Value::String(s) => RValue::Str(s.clone()),
        Value::Symbol(s) => RValue::Sym(s.0.clone()),
        Value::List(v) => RValue::List(v.iter().map(from_value).collect()),
        Value::Map(m) => RValue::Map(m.iter().map(|(k, x)| (from_value(k), from_value(x))).collect()),
        Value::Array(a) => RValue::Array(a.0.iter().map(from_value).collect()),
        Value::Described(d) => {
            let desc = match &d.descriptor {
                Descriptor::Code(c) => RValue::Ulong(*c),
                Descriptor::Name(s) => RValue::Sym(s.0.clone()),
            };
            RValue::described(desc, from_value(&d.value))
        }
    }
}
