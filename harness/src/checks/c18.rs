//! C18 — transactions on the listener side are atomic and isolated until discharge.
//!
//! Variant "duo": a real controller (client: Controller / Transaction / Sender) against a real
//! transactional resource (listener session with a ControlLinkAcceptor); generated histories, model
//! of what the receiving application may see, checked after every step.
//! Variant "resource": a scripted controller (frame level) against the real resource — unknown /
//! finished ids, posts after discharge, control link detached without discharge.
//! Variant "controller": the real controller against a scripted coordinator — txn-id and fail flag
//! on the wire, outcomes reported.
use crate::driver::{guarded, panic_signature, pt_run, Obs, PropMeta, Report, ShardCtx, MAX_SHRINK_ITERS};
use crate::duo::{self, DuoCfg};
use crate::peer::{as_bool, as_uint, Peer};
use crate::refcodec::RValue;
use crate::rframe::{self, RFrame};
use crate::simnet::{self, CaseEnd, PipeCfg};
use fe2o3_amqp::acceptor::{ConnectionAcceptor, LinkAcceptor, LinkEndpoint, ListenerSessionHandle, SessionAcceptor};
use fe2o3_amqp::link::delivery::Sendable;
use fe2o3_amqp::transaction::coordinator::ControlLinkAcceptor;
use fe2o3_amqp::transaction::{Controller, Transaction, TransactionDischarge, TransactionPosting};
use fe2o3_amqp::types::messaging::{Body, Data, Message, Outcome};
use fe2o3_amqp::types::primitives::Value;
use fe2o3_amqp::{Connection, Sender, Session};
use proptest::collection::vec;
use proptest::prelude::*;
use serde::{Deserialize, Serialize};
use serde_amqp::primitives::Binary;
use serde_json::Value as Json;
use std::collections::BTreeMap;
use std::time::Duration;

pub fn meta() -> PropMeta {
    PropMeta {
        id: "C18",
        level: "exploration",
        rule: "(duo) a real controller (Controller, up to 4 concurrent Transaction values, 3 sending links) and a real transactional listener session run a generated history of declare, transactional post (unsettled / pre-settled, one or several frames), non-transactional send, commit, rollback, drop of an undischarged transaction, controller link closed or session ended with transactions live. A model holds, per transaction, the posts in order; after every step the deliveries the listener application received since the previous step are compared with the model: a non-transactional send is delivered at once; a post is withheld; a commit delivers exactly that transaction's posts, per link in posting order; rollback, drop, controller-link close and session end deliver nothing, ever; post/commit/rollback report success. (resource) a scripted controller drives the real resource at frame level: declares (ids must be fresh), discharges of live, never-declared and already-discharged ids (accepted once, otherwise rejected with amqp:transaction:unknown-id and nothing delivered), posts naming live, finished and bogus ids (live: withheld and answered with a transactional-state disposition; otherwise refused with the transaction error and never delivered), control link detached with live transactions (nothing delivered afterwards). (controller) the real controller against a scripted coordinator: declare is an unsettled transfer whose body is a declare; post carries transactional-state with exactly the declared id; commit / rollback send discharge with that id and fail=false / true; the coordinator's accepted / rejected outcome is what the call returns. Non-trivial: at least one post was made under a transaction that was then discharged, dropped or orphaned (duo/resource), or a discharge was observed (controller) — distinct by hash of the case.",
        assumptions: &["transactional retirement and acquisition are exercised only as far as the resource implements them (acquisition is unimplemented upstream)", "engine buffers >= 32 and a wide pipe while the engine deadlock findings are open"],
        nontrivial_floor: 0.3,
        run,
        replay,
        crashy: true,
    }
}

// ---------------------------------------------------------------------------
// duo variant

#[derive(Clone, Debug, Serialize, Deserialize, Hash)]
pub enum Op {
    Declare,
    Post { t: u8, link: u8, size: u16, settled: bool },
    Plain { link: u8, size: u16 },
    Commit(u8),
    Rollback(u8),
    DropTxn(u8),
    /// the listener application sends a message to the client's receiving link; the client takes it and holds it
    ListenerSend { size: u16 },
    /// the client retires a held delivery under transaction t: 0 accept, 1 reject, 2 release
    Retire { t: u8, pick: u8, how: u8 },
    /// the client accepts a held delivery outside any transaction
    PlainAccept { pick: u8 },
}

#[derive(Clone, Debug, Serialize, Deserialize, Hash)]
pub enum Finale {
    /// discharge nothing; close the controller link with transactions live (they are forgotten, not dropped)
    CloseController,
    /// end the client session with transactions live
    EndSession,
    /// drop the client connection handle objects without any teardown call
    Nothing,
}

#[derive(Clone, Debug, Serialize, Deserialize, Hash)]
pub struct Case {
    pub ops: Vec<Op>,
    pub finale: Finale,
    pub mfs: u32,
    pub tokio_seed: u64,
}

fn size() -> BoxedStrategy<u16> {
    prop_oneof![4 => 0u16..40, 2 => 400u16..700, 1 => 1500u16..3000].boxed()
}

pub fn case_strategy() -> BoxedStrategy<Case> {
    let op = prop_oneof![
        3 => Just(Op::Declare),
        8 => (any::<u8>(), 0u8..3, size(), prop::bool::weighted(0.25)).prop_map(|(t, link, size, settled)| Op::Post { t, link, size, settled }),
        3 => (0u8..3, size()).prop_map(|(link, size)| Op::Plain { link, size }),
        3 => any::<u8>().prop_map(Op::Commit),
        2 => any::<u8>().prop_map(Op::Rollback),
        1 => any::<u8>().prop_map(Op::DropTxn),
        3 => size().prop_map(|size| Op::ListenerSend { size }),
        4 => (any::<u8>(), any::<u8>(), 0u8..3).prop_map(|(t, pick, how)| Op::Retire { t, pick, how }),
        1 => any::<u8>().prop_map(|pick| Op::PlainAccept { pick }),
    ];
    (vec(op, 1..24), prop_oneof![Just(Finale::CloseController), Just(Finale::EndSession), Just(Finale::Nothing)], prop_oneof![Just(512u32), Just(4096)], any::<u64>())
        .prop_map(|(mut ops, finale, mfs, tokio_seed)| {
            ops.insert(0, Op::Declare);
            Case { ops, finale, mfs, tokio_seed }
        })
        .boxed()
}

type Msg = Message<Body<Value>>;

fn make_msg(idx: u32, size: u16) -> Msg {
    let mut v = idx.to_le_bytes().to_vec();
    v.extend((0..size as u32).map(|i| (i.wrapping_mul(17).wrapping_add(idx) % 251) as u8));
    Message::builder().data(Binary::from(v)).build().map_body(|d: Data| Body::Data(vec![d].into()))
}

fn idx_of(m: &Msg) -> Option<(u32, usize)> {
    match &m.body {
        Body::Data(d) => {
            let all: Vec<u8> = d.iter().flat_map(|x| x.0.to_vec()).collect();
            if all.len() < 4 {
                return None;
            }
            Some((u32::from_le_bytes([all[0], all[1], all[2], all[3]]), all.len() - 4))
        }
        _ => None,
    }
}

/// the listener application: accepts links, receives and accepts every delivery, reports (link name, idx, len)
type SendCmd = (u32, u16);

async fn listener_app(
    mut ls: ListenerSessionHandle,
    tx: tokio::sync::mpsc::UnboundedSender<(String, Result<(u32, usize), String>)>,
    send_rx: tokio::sync::mpsc::UnboundedReceiver<SendCmd>,
    outcome_tx: tokio::sync::mpsc::UnboundedSender<(u32, String)>,
) {
    let la = LinkAcceptor::builder().build();
    let mut send_rx = Some(send_rx);
    while let Ok(le) = la.accept(&mut ls).await {
        if let LinkEndpoint::Sender(mut s) = le {
            // the link on which the listener application sends: outcomes are reported as they resolve
            if let Some(mut rx) = send_rx.take() {
                let outcome_tx = outcome_tx.clone();
                tokio::spawn(async move {
                    while let Some((idx, size)) = rx.recv().await {
                        match s.send_batchable(make_msg(idx, size)).await {
                            Ok(fut) => {
                                let otx = outcome_tx.clone();
                                tokio::spawn(async move {
                                    let o = fut.await;
                                    let _ = otx.send((idx, match o { Ok(o) => format!("{o:?}"), Err(e) => format!("Err({e:?})") }));
                                });
                            }
                            Err(e) => {
                                let _ = outcome_tx.send((idx, format!("SendErr({e:?})")));
                            }
                        }
                    }
                    std::future::pending::<()>().await;
                });
            }
            continue;
        }
        if let LinkEndpoint::Receiver(mut r) = le {
            let tx = tx.clone();
            tokio::spawn(async move {
                let name = r.name().to_string();
                loop {
                    match r.recv::<Body<Value>>().await {
                        Ok(d) => {
                            let _ = r.accept(&d).await;
                            let _ = tx.send((name.clone(), idx_of(d.message()).ok_or_else(|| "delivery without the expected body".to_string())));
                        }
                        Err(e) => {
                            let s = format!("{e:?}");
                            if !(s.contains("Remote") || s.contains("SessionStopped") || s.contains("IllegalState")) {
                                let _ = tx.send((name.clone(), Err(format!("recv error: {s}"))));
                            }
                            break;
                        }
                    }
                }
            });
        }
    }
}

#[derive(Default, Debug)]
pub struct Info {
    pub discharged_with_posts: bool,
    pub orphaned_with_posts: bool,
    pub multi_frame_post: bool,
    pub concurrent: bool,
    pub retired: bool,
}

const T: Duration = Duration::from_secs(120);

pub async fn run_duo(c: &Case) -> Result<Info, String> {
    let mut info = Info::default();
    let dcfg = DuoCfg { max_frame_size: [c.mfs, c.mfs], conn_buf: [64, 64], sess_buf: [64, 64], pipe: PipeCfg { cap: 1 << 22, ..PipeCfg::default() }, tokio_seed: c.tokio_seed, ..DuoCfg::default() };
    let mut d = duo::connect(&dcfg).await?;
    let sacc = SessionAcceptor::builder().control_link_acceptor(ControlLinkAcceptor::default()).buffer_size(64).build();
    let (cs, ls) = tokio::join!(Session::builder().buffer_size(64).begin(&mut d.client), sacc.accept(&mut d.listener));
    let mut cs = cs.map_err(|e| format!("HARNESS: begin: {e:?}"))?;
    let ls = ls.map_err(|e| format!("HARNESS: session accept: {e:?}"))?;
    let (tx, mut rx) = tokio::sync::mpsc::unbounded_channel();
    let (send_tx, send_rx) = tokio::sync::mpsc::unbounded_channel::<SendCmd>();
    let (outcome_tx, mut outcome_rx) = tokio::sync::mpsc::unbounded_channel::<(u32, String)>();
    let lapp = tokio::spawn(listener_app(ls, tx, send_rx, outcome_tx));
    let mut senders: Vec<Sender> = Vec::new();
    for k in 0..3 {
        senders.push(Sender::attach(&mut cs, format!("s{k}"), "q").await.map_err(|e| format!("HARNESS: sender attach: {e:?}"))?);
    }
    // the client's receiving link (the listener application sends on it); deliveries are disposed of explicitly
    let mut rcv = fe2o3_amqp::Receiver::builder().name("r0").source("q").auto_accept(false).attach(&mut cs).await.map_err(|e| format!("HARNESS: receiver attach: {e:?}"))?;
    let mut held: Vec<(u32, fe2o3_amqp::link::delivery::Delivery<Body<Value>>)> = Vec::new();
    // retirements per live transaction (parallel to `txns`): message indices whose outcome is due at commit
    let mut retired: Vec<Vec<u32>> = Vec::new();
    let mut outcome_never: Vec<u32> = Vec::new();
    let mut outcome_seen: Vec<u32> = Vec::new();
    let mut listener_idx: u32 = 1_000_000;
    let controller = Controller::attach(&mut cs, "ctrl").await.map_err(|e| format!("controller attach failed: {e:?}"))?;
    // model
    let mut txns: Vec<(Transaction<'_>, Vec<(u8, u32, usize)>)> = Vec::new();
    let mut next_idx: u32 = 0;
    let mut never: Vec<u32> = Vec::new(); // indices that must never be delivered
    let mut delivered_all: Vec<u32> = Vec::new();
    macro_rules! expect_step {
        ($step:expr, $what:expr, $expected:expr) => {{
            simnet::settle().await;
            let expected: Vec<(u8, u32, usize)> = $expected;
            let mut got: Vec<(String, u32, usize)> = Vec::new();
            while let Ok((name, r)) = rx.try_recv() {
                let (i, l) = r.map_err(|e| format!("step {} ({}): the receiving application on link {name}: {e}", $step, $what))?;
                got.push((name, i, l));
            }
            for g in &got {
                if never.contains(&g.1) {
                    return Err(format!("step {} ({}): message #{} was delivered to the application although its transaction was rolled back / abandoned", $step, $what, g.1));
                }
                if delivered_all.contains(&g.1) {
                    return Err(format!("step {} ({}): message #{} was delivered twice", $step, $what, g.1));
                }
                delivered_all.push(g.1);
            }
            // per link, in order
            let mut exp_by: BTreeMap<String, Vec<(u32, usize)>> = BTreeMap::new();
            for e in &expected {
                exp_by.entry(format!("s{}", e.0)).or_default().push((e.1, e.2));
            }
            let mut got_by: BTreeMap<String, Vec<(u32, usize)>> = BTreeMap::new();
            for g in &got {
                got_by.entry(g.0.clone()).or_default().push((g.1, g.2));
            }
            if exp_by != got_by {
                return Err(format!("step {} ({}): the application received {:?} (link -> [(message, body length)]) but the model allows exactly {:?}", $step, $what, got_by, exp_by));
            }
        }};
    }
    macro_rules! expect_outcomes {
        ($step:expr, $what:expr, $expected:expr) => {{
            let mut expected: Vec<u32> = $expected;
            expected.sort();
            let mut got: Vec<u32> = Vec::new();
            while let Ok((i, o)) = outcome_rx.try_recv() {
                if outcome_never.contains(&i) {
                    return Err(format!("step {} ({}): the listener's send of message #{} resolved ({}) although its retirement was rolled back / abandoned", $step, $what, i, o));
                }
                if outcome_seen.contains(&i) {
                    return Err(format!("step {} ({}): the listener's send of message #{} resolved twice", $step, $what, i));
                }
                if o.starts_with("SendErr") {
                    return Err(format!("step {} ({}): the listener's send of message #{} failed: {}", $step, $what, i, o));
                }
                outcome_seen.push(i);
                got.push(i);
            }
            got.sort();
            if got != expected {
                return Err(format!("step {} ({}): the listener's sends that resolved in this step are {:?}, the model allows exactly {:?} (a retirement under a transaction takes effect at commit, never before and never after a rollback)", $step, $what, got, expected));
            }
        }};
    }
    for (step, op) in c.ops.iter().enumerate() {
        match op {
            Op::Declare => {
                if txns.len() >= 4 {
                    continue;
                }
                let t = tokio::time::timeout(T, Transaction::declare(&controller, None)).await.map_err(|_| format!("step {step}: declare did not complete"))?.map_err(|e| format!("step {step}: declare failed: {e:?}"))?;
                use fe2o3_amqp::transaction::TransactionBase;
                let id = t.txn_id().clone();
                if txns.iter().any(|(o, _)| o.txn_id() == &id) {
                    return Err(format!("step {step}: declare returned transaction id {:?} which a live transaction already has", id));
                }
                txns.push((t, vec![]));
                retired.push(vec![]);
                if txns.len() > 1 {
                    info.concurrent = true;
                }
                expect_step!(step, "declare", vec![]);
            }
            Op::Post { t, link, size, settled } => {
                if txns.is_empty() {
                    continue;
                }
                let k = (*t as usize * txns.len()) >> 8;
                let idx = next_idx;
                next_idx += 1;
                let sendable: Sendable<Body<Value>> = Sendable::builder().message(make_msg(idx, *size)).settled(if *settled { Some(true) } else { None }).build();
                let (txn, posts) = &mut txns[k];
                let o = tokio::time::timeout(T, txn.post(&mut senders[*link as usize], sendable)).await.map_err(|_| format!("step {step}: post of #{idx} did not complete"))?.map_err(|e| format!("step {step}: post of #{idx} failed: {e:?}"))?;
                if !matches!(o, Outcome::Accepted(_)) {
                    return Err(format!("step {step}: post of #{idx} reported outcome {o:?}"));
                }
                posts.push((*link, idx, *size as usize));
                if *size as u32 + 100 > c.mfs {
                    info.multi_frame_post = true;
                }
                expect_step!(step, format!("post #{idx} under transaction {k}"), vec![]);
            }
            Op::Plain { link, size } => {
                let idx = next_idx;
                next_idx += 1;
                let o = tokio::time::timeout(T, senders[*link as usize].send(make_msg(idx, *size))).await.map_err(|_| format!("step {step}: send of #{idx} did not complete"))?.map_err(|e| format!("step {step}: non-transactional send of #{idx} failed: {e:?}"))?;
                if !matches!(o, Outcome::Accepted(_)) {
                    return Err(format!("step {step}: send of #{idx} reported outcome {o:?}"));
                }
                expect_step!(step, format!("non-transactional send #{idx}"), vec![(*link, idx, *size as usize)]);
            }
            Op::Commit(t) => {
                if txns.is_empty() {
                    continue;
                }
                let k = (*t as usize * txns.len()) >> 8;
                let (txn, posts) = txns.remove(k);
                let ret = retired.remove(k);
                tokio::time::timeout(T, txn.commit()).await.map_err(|_| format!("step {step}: commit did not complete"))?.map_err(|e| format!("step {step}: commit failed: {e:?}"))?;
                if !posts.is_empty() || !ret.is_empty() {
                    info.discharged_with_posts = true;
                }
                expect_step!(step, format!("commit of transaction {k}"), posts.clone());
                expect_outcomes!(step, format!("commit of transaction {k}"), ret.clone());
            }
            Op::Rollback(t) => {
                if txns.is_empty() {
                    continue;
                }
                let k = (*t as usize * txns.len()) >> 8;
                let (txn, posts) = txns.remove(k);
                let ret = retired.remove(k);
                tokio::time::timeout(T, txn.rollback()).await.map_err(|_| format!("step {step}: rollback did not complete"))?.map_err(|e| format!("step {step}: rollback failed: {e:?}"))?;
                never.extend(posts.iter().map(|p| p.1));
                outcome_never.extend(ret.iter().copied());
                if !posts.is_empty() || !ret.is_empty() {
                    info.discharged_with_posts = true;
                }
                expect_step!(step, format!("rollback of transaction {k}"), vec![]);
                expect_outcomes!(step, format!("rollback of transaction {k}"), vec![]);
            }
            Op::DropTxn(t) => {
                if txns.is_empty() {
                    continue;
                }
                let k = (*t as usize * txns.len()) >> 8;
                let (txn, posts) = txns.remove(k);
                let ret = retired.remove(k);
                outcome_never.extend(ret.iter().copied());
                drop(txn);
                never.extend(posts.iter().map(|p| p.1));
                if !posts.is_empty() {
                    info.orphaned_with_posts = true;
                }
                expect_step!(step, format!("drop of undischarged transaction {k}"), vec![]);
            }
            Op::ListenerSend { size } => {
                let idx = listener_idx;
                listener_idx += 1;
                send_tx.send((idx, *size)).map_err(|_| "HARNESS: listener sender gone".to_string())?;
                let d = tokio::time::timeout(T, rcv.recv::<Body<Value>>()).await.map_err(|_| format!("step {step}: the message sent by the listener did not arrive"))?.map_err(|e| format!("step {step}: recv failed: {e:?}"))?;
                if idx_of(d.message()).map(|x| x.0) != Some(idx) {
                    return Err(format!("step {step}: received {:?}, the listener sent #{idx}", idx_of(d.message())));
                }
                held.push((idx, d));
                expect_step!(step, "listener send", vec![]);
                expect_outcomes!(step, "listener send (held by the client)", vec![]);
            }
            Op::Retire { t, pick, how } => {
                if txns.is_empty() || held.is_empty() {
                    continue;
                }
                use fe2o3_amqp::transaction::TransactionRetirement;
                let k = (*t as usize * txns.len()) >> 8;
                let (idx, d) = held.remove((*pick as usize * held.len()) >> 8);
                let txn = &txns[k].0;
                let r = match how % 3 {
                    0 => tokio::time::timeout(T, txn.accept(&mut rcv, &d)).await,
                    1 => tokio::time::timeout(T, txn.reject(&mut rcv, &d, None)).await,
                    _ => tokio::time::timeout(T, txn.release(&mut rcv, &d)).await,
                };
                r.map_err(|_| format!("step {step}: the transactional retirement did not complete"))?.map_err(|e| format!("step {step}: the transactional retirement failed: {e:?}"))?;
                retired[k].push(idx);
                info.retired = true;
                expect_step!(step, "retirement under a transaction", vec![]);
                expect_outcomes!(step, format!("retirement of #{idx} under transaction {k}"), vec![]);
            }
            Op::PlainAccept { pick } => {
                if held.is_empty() {
                    continue;
                }
                let (idx, d) = held.remove((*pick as usize * held.len()) >> 8);
                tokio::time::timeout(T, rcv.accept(&d)).await.map_err(|_| format!("step {step}: accept did not complete"))?.map_err(|e| format!("step {step}: accept failed: {e:?}"))?;
                expect_step!(step, "non-transactional accept", vec![]);
                expect_outcomes!(step, format!("non-transactional accept of #{idx}"), vec![idx]);
            }
        }
    }
    // finale with the remaining transactions live
    let live_posts: Vec<u32> = txns.iter().flat_map(|(_, p)| p.iter().map(|x| x.1)).collect();
    if !live_posts.is_empty() {
        info.orphaned_with_posts = true;
    }
    never.extend(live_posts);
    for r in retired.drain(..) {
        outcome_never.extend(r);
    }
    for (t, _) in txns.into_iter() {
        // the application walks away from them without discharging (no rollback-on-drop either)
        std::mem::forget(t);
    }
    match c.finale {
        Finale::CloseController => {
            tokio::time::timeout(T, controller.close()).await.map_err(|_| "finale: closing the controller link did not complete".to_string())?.map_err(|e| format!("finale: closing the controller link failed: {e:?}"))?;
            expect_step!("finale", "controller link closed with transactions live", vec![]);
            expect_outcomes!("finale", "controller link closed with transactions live", vec![]);
            // the data links still work, non-transactionally
            let idx = next_idx;
            let o = tokio::time::timeout(T, senders[0].send(make_msg(idx, 5))).await.map_err(|_| "finale: send after closing the controller did not complete".to_string())?.map_err(|e| format!("finale: send after closing the controller failed: {e:?}"))?;
            if !matches!(o, Outcome::Accepted(_)) {
                return Err(format!("finale: send reported {o:?}"));
            }
            expect_step!("finale", "non-transactional send after the controller link closed", vec![(0, idx, 5)]);
        }
        Finale::EndSession => {
            drop(controller);
            let _ = tokio::time::timeout(T, cs.end()).await.map_err(|_| "finale: session end did not complete".to_string())?;
            expect_step!("finale", "session ended with transactions live", vec![]);
        }
        Finale::Nothing => {
            drop(controller);
            expect_step!("finale", "controller dropped", vec![]);
        }
    }
    drop(senders);
    drop(held);
    drop(rcv);
    drop(cs);
    drop(d);
    let _ = tokio::time::timeout(T, lapp).await;
    // anything delivered late?
    while let Ok((name, r)) = rx.try_recv() {
        if let Ok((i, _)) = r {
            return Err(format!("after teardown: message #{i} was delivered on link {name} although nothing was due"));
        }
    }
    Ok(info)
}

// ---------------------------------------------------------------------------
// resource variant: scripted controller against the real transactional listener session

#[derive(Clone, Debug, Serialize, Deserialize, Hash)]
pub enum Which {
    Live(u8),
    Finished(u8),
    Bogus(Vec<u8>),
}

#[derive(Clone, Debug, Serialize, Deserialize, Hash)]
pub enum OpR {
    Declare,
    Discharge {
        which: Which,
        fail: bool,
        /// commit by leaving the fail field unset (a legal encoding of fail=false that e.g. AmqpNetLite uses)
        #[serde(default)]
        omit_fail: bool,
    },
    Post { which: Which, size: u16, settled: bool },
    Plain { size: u16 },
    DetachControl,
    AttachControl,
}

#[derive(Clone, Debug, Serialize, Deserialize, Hash)]
pub struct CaseR {
    pub ops: Vec<OpR>,
    pub tokio_seed: u64,
    pub choices: Vec<u8>,
    /// C07 on a transactional listener session: the session's incoming-window is small, so it re-advertises its
    /// window every few frames, and every flow it writes must report next-incoming-id = the peer's initial
    /// next-outgoing-id + the transfer frames the peer has sent (0 = off)
    #[serde(default)]
    pub window_probe: u32,
}

fn which() -> BoxedStrategy<Which> {
    prop_oneof![
        6 => any::<u8>().prop_map(Which::Live),
        2 => any::<u8>().prop_map(Which::Finished),
        1 => prop_oneof![Just(vec![]), Just(vec![0u8]), Just(vec![0u8; 16]), vec(any::<u8>(), 1..20)].prop_map(Which::Bogus),
    ]
    .boxed()
}

pub fn case_r_strategy() -> BoxedStrategy<CaseR> {
    let op = prop_oneof![
        3 => Just(OpR::Declare),
        4 => (which(), any::<bool>(), prop::bool::weighted(0.4)).prop_map(|(which, fail, omit_fail)| OpR::Discharge { which, fail, omit_fail: omit_fail && !fail }),
        8 => (which(), size(), prop::bool::weighted(0.25)).prop_map(|(which, size, settled)| OpR::Post { which, size, settled }),
        2 => size().prop_map(|size| OpR::Plain { size }),
        1 => Just(OpR::DetachControl),
        1 => Just(OpR::AttachControl),
    ];
    (vec(op, 1..24), any::<u64>(), vec(any::<u8>(), 0..5))
        .prop_map(|(mut ops, tokio_seed, choices)| {
            ops.insert(0, OpR::Declare);
            CaseR { ops, tokio_seed, choices, window_probe: 0 }
        })
        .boxed()
}

fn amqp_value_msg(v: RValue) -> Vec<u8> {
    crate::refcodec::encode_compact(&RValue::described(RValue::Ulong(0x77), v))
}

fn data_msg(idx: u32, size: u16) -> Vec<u8> {
    use fe2o3_amqp::types::messaging::message::__private::Serializable;
    serde_amqp::to_vec(&Serializable(make_msg(idx, size))).expect("encode")
}

fn error_condition(v: &RValue) -> Option<String> {
    // error composite: described(0x1d, [condition, ...])
    if let RValue::Described(_, l) = v {
        if let RValue::List(f) = &**l {
            if let Some(RValue::Sym(s)) = f.first() {
                return Some(s.clone());
            }
        }
    }
    None
}

fn described_parts(v: &RValue) -> Option<(u64, Vec<RValue>)> {
    if let RValue::Described(d, l) = v {
        let code = match &**d {
            RValue::Ulong(c) => *c,
            _ => return None,
        };
        let fields = match &**l {
            RValue::List(f) => f.clone(),
            _ => vec![],
        };
        return Some((code, fields));
    }
    None
}

#[derive(Default, Debug)]
pub struct InfoR {
    pub discharged_with_posts: bool,
    pub orphaned_with_posts: bool,
    pub refused_post: bool,
    pub refused_discharge: bool,
}

pub async fn run_resource(c: &CaseR) -> Result<InfoR, String> {
    let mut info = InfoR::default();
    let (a, b, ctl) = simnet::pipe(PipeCfg { cap: 1 << 22, ..PipeCfg::default() });
    let mut flows_seen = 0usize;
    let mut peer = Peer::new(b, c.choices.clone());
    let acc = ConnectionAcceptor::builder().container_id("verif-resource").max_frame_size(4096).buffer_size(64).build();
    let (conn, po) = tokio::join!(acc.accept(a), peer.client_open(Some(4096), None, None));
    po.map_err(|e| format!("HARNESS: {e}"))?;
    let mut conn = conn.map_err(|e| format!("HARNESS: accept: {e:?}"))?;
    let sacc = if c.window_probe > 0 {
        SessionAcceptor::builder().control_link_acceptor(ControlLinkAcceptor::default()).buffer_size(64).incoming_window(c.window_probe).build()
    } else {
        SessionAcceptor::builder().control_link_acceptor(ControlLinkAcceptor::default()).buffer_size(64).build()
    };
    let my_ch = 2u16;
    let (ls, pb) = tokio::join!(sacc.accept(&mut conn), peer.initiate_begin(my_ch, 0, 100_000, 100_000));
    pb.map_err(|e| format!("HARNESS: {e}"))?;
    let ls = ls.map_err(|e| format!("HARNESS: session accept: {e:?}"))?;
    let (tx, mut rx) = tokio::sync::mpsc::unbounded_channel();
    let (_unused_send_tx, unused_send_rx) = tokio::sync::mpsc::unbounded_channel::<SendCmd>();
    let (unused_outcome_tx, _unused_outcome_rx) = tokio::sync::mpsc::unbounded_channel::<(u32, String)>();
    let lapp = tokio::spawn(listener_app(ls, tx, unused_send_rx, unused_outcome_tx));
    // data link (peer sends), control link
    const DH: u32 = 1;
    let mut ch_handle: u32 = 2;
    peer.send_frame(my_ch, &Peer::attach_body("s0", DH, false, None, None, Some(0), None, false), &[]).await.map_err(|e| format!("HARNESS: {e}"))?;
    peer.wait_for("attach").await.map_err(|e| format!("HARNESS: data link attach not answered: {e}"))?;
    peer.send_frame(my_ch, &Peer::attach_body("ctrl", ch_handle, false, None, None, Some(0), None, true), &[]).await.map_err(|e| format!("HARNESS: {e}"))?;
    peer.wait_for("attach").await.map_err(|e| format!("the control link attach was not answered: {e}"))?;
    let _ = peer.new_frames().await;
    let mut control_attached = true;
    let mut ctrl_name_n = 0;
    let mut did: u32 = 0;
    let mut next_idx: u32 = 0;
    let mut live: Vec<(Vec<u8>, Vec<(u32, usize)>)> = Vec::new();
    let mut finished: Vec<Vec<u8>> = Vec::new();
    let mut all_ids: Vec<Vec<u8>> = Vec::new();
    let mut never: Vec<u32> = Vec::new();
    let mut delivered_all: Vec<u32> = Vec::new();
    macro_rules! deliveries {
        ($step:expr, $what:expr, $expected:expr) => {{
            let expected: Vec<(u32, usize)> = $expected;
            let mut got: Vec<(u32, usize)> = Vec::new();
            while let Ok((name, r)) = rx.try_recv() {
                let (i, l) = r.map_err(|e| format!("step {} ({}): the receiving application on link {name}: {e}", $step, $what))?;
                got.push((i, l));
            }
            for g in &got {
                if never.contains(&g.0) {
                    return Err(format!("step {} ({}): message #{} was delivered to the application although it must never be (rolled back, abandoned, or posted under a transaction id that is not live)", $step, $what, g.0));
                }
                if delivered_all.contains(&g.0) {
                    return Err(format!("step {} ({}): message #{} was delivered twice", $step, $what, g.0));
                }
                delivered_all.push(g.0);
            }
            if got != expected {
                return Err(format!("step {} ({}): the application received {:?} ((message, body length)) but the model allows exactly {:?}", $step, $what, got, expected));
            }
        }};
    }
    let pick = |w: &Which, live: &Vec<(Vec<u8>, Vec<(u32, usize)>)>, finished: &Vec<Vec<u8>>, all: &Vec<Vec<u8>>| -> Option<(Vec<u8>, Option<usize>)> {
        match w {
            Which::Live(k) => {
                if live.is_empty() {
                    None
                } else {
                    let i = (*k as usize * live.len()) >> 8;
                    Some((live[i].0.clone(), Some(i)))
                }
            }
            Which::Finished(k) => {
                if finished.is_empty() {
                    None
                } else {
                    Some((finished[(*k as usize * finished.len()) >> 8].clone(), None))
                }
            }
            Which::Bogus(b) => {
                if all.contains(b) {
                    None
                } else {
                    Some((b.clone(), None))
                }
            }
        }
    };
    let mut session_over = false;
    if c.window_probe > 0 {
        // flows written during the attach phase (no transfer sent yet) are not part of the history
        if let Ok((items, _)) = rframe::parse_stream(&ctl.bytes(0)) {
            flows_seen = rframe::frames_of(&items).iter().filter(|f| f.ftype == 0 && f.name() == "flow").count();
        }
    }
    for (step, op) in c.ops.iter().enumerate() {
        if session_over {
            break;
        }
        match op {
            OpR::Declare => {
                if !control_attached || live.len() >= 4 {
                    continue;
                }
                let payload = amqp_value_msg(rframe::perf(&crate::spec::DECLARE, vec![]));
                peer.send_frame(my_ch, &Peer::transfer_body(ch_handle, Some(did), Some(&did.to_be_bytes()), Some(0), Some(false), false, None, false), &payload).await.map_err(|e| format!("HARNESS: {e}"))?;
                let my_did = did;
                did += 1;
                let fs = peer.new_frames().await;
                let d = fs.iter().find(|f| f.name() == "disposition" && as_uint(&f.field(1)) == Some(my_did)).ok_or_else(|| format!("step {step}: the declare was not answered with a disposition (frames: {:?})", fs.iter().map(|f| f.name()).collect::<Vec<_>>()))?;
                let (code, fields) = described_parts(&d.field(4)).ok_or_else(|| format!("step {step}: the declare's disposition carries no state"))?;
                if code != 0x33 {
                    return Err(format!("step {step}: the declare was answered with state {code:#x} instead of declared"));
                }
                let id = match fields.first() {
                    Some(RValue::Binary(b)) => b.clone(),
                    _ => return Err(format!("step {step}: declared without a txn-id")),
                };
                if all_ids.contains(&id) {
                    return Err(format!("step {step}: declare returned transaction id {:02x?} which was handed out before", id));
                }
                all_ids.push(id.clone());
                live.push((id, vec![]));
                deliveries!(step, "declare", vec![]);
            }
            OpR::Discharge { which, fail, omit_fail } => {
                if !control_attached {
                    continue;
                }
                let (id, live_i) = match pick(which, &live, &finished, &all_ids) {
                    Some(x) => x,
                    None => continue,
                };
                let payload = amqp_value_msg(rframe::perf(&crate::spec::DISCHARGE, if *omit_fail && !*fail { vec![RValue::Binary(id.clone())] } else { vec![RValue::Binary(id.clone()), RValue::Bool(*fail)] }));
                peer.send_frame(my_ch, &Peer::transfer_body(ch_handle, Some(did), Some(&did.to_be_bytes()), Some(0), Some(false), false, None, false), &payload).await.map_err(|e| format!("HARNESS: {e}"))?;
                let my_did = did;
                did += 1;
                let fs = peer.new_frames().await;
                let d = fs.iter().find(|f| f.name() == "disposition" && as_uint(&f.field(1)) == Some(my_did)).ok_or_else(|| format!("step {step}: the discharge was not answered with a disposition (frames: {:?})", fs.iter().map(|f| f.name()).collect::<Vec<_>>()))?;
                let (code, fields) = described_parts(&d.field(4)).ok_or_else(|| format!("step {step}: the discharge's disposition carries no state"))?;
                match live_i {
                    Some(i) => {
                        if code != 0x24 {
                            return Err(format!("step {step}: discharge (fail={fail}) of the live transaction {:02x?} was answered with state {code:#x} instead of accepted", id));
                        }
                        let (_, posts) = live.remove(i);
                        finished.push(id.clone());
                        if !posts.is_empty() {
                            info.discharged_with_posts = true;
                        }
                        if *fail {
                            never.extend(posts.iter().map(|p| p.0));
                            deliveries!(step, "rollback", vec![]);
                        } else {
                            deliveries!(step, "commit", posts.clone());
                        }
                    }
                    None => {
                        info.refused_discharge = true;
                        if code != 0x25 {
                            return Err(format!("step {step}: discharge of the unknown / finished transaction id {:02x?} was answered with state {code:#x} instead of rejected", id));
                        }
                        let cond = fields.first().and_then(error_condition).unwrap_or_default();
                        if cond != "amqp:transaction:unknown-id" {
                            return Err(format!("step {step}: discharge of the unknown / finished id {:02x?} was rejected with condition {cond:?} instead of amqp:transaction:unknown-id", id));
                        }
                        deliveries!(step, "refused discharge", vec![]);
                    }
                }
            }
            OpR::Post { which, size, settled } => {
                let (id, live_i) = match pick(which, &live, &finished, &all_ids) {
                    Some(x) => x,
                    None => continue,
                };
                let idx = next_idx;
                next_idx += 1;
                let state = rframe::perf(&crate::spec::TXN_STATE, vec![RValue::Binary(id.clone())]);
                let mut body = Peer::transfer_body(DH, Some(did), Some(&did.to_be_bytes()), Some(0), Some(*settled), false, None, false);
                // state is field 7 of transfer
                if let RValue::Described(_, l) = &mut body {
                    if let RValue::List(f) = &mut **l {
                        while f.len() < 8 {
                            f.push(RValue::Null);
                        }
                        f[7] = state;
                    }
                }
                peer.send_frame(my_ch, &body, &data_msg(idx, *size)).await.map_err(|e| format!("HARNESS: {e}"))?;
                let my_did = did;
                did += 1;
                let fs = peer.new_frames().await;
                match live_i {
                    Some(i) => {
                        live[i].1.push((idx, *size as usize));
                        if !*settled {
                            let d = fs.iter().find(|f| f.name() == "disposition" && as_uint(&f.field(1)) == Some(my_did)).ok_or_else(|| format!("step {step}: an unsettled post under the live transaction {:02x?} was not answered with a disposition (frames: {:?})", id, fs.iter().map(|f| f.name()).collect::<Vec<_>>()))?;
                            let (code, fields) = described_parts(&d.field(4)).ok_or_else(|| format!("step {step}: the post's disposition carries no state"))?;
                            if code != 0x34 || fields.first() != Some(&RValue::Binary(id.clone())) {
                                return Err(format!("step {step}: the post's disposition carries state {code:#x} {:?}, expected transactional-state with txn-id {:02x?}", fields.first(), id));
                            }
                        }
                        deliveries!(step, format!("post #{idx}"), vec![]);
                    }
                    None => {
                        info.refused_post = true;
                        never.push(idx);
                        // refused with the transaction error: an end / detach / rejected disposition naming it
                        let mut refused = false;
                        for f in &fs {
                            let err = match f.name() {
                                "end" => Some(f.field(0)),
                                "detach" => Some(f.field(2)),
                                "close" => Some(f.field(0)),
                                "disposition" => described_parts(&f.field(4)).filter(|(c, _)| *c == 0x25).and_then(|(_, fl)| fl.first().cloned()),
                                _ => None,
                            };
                            if let Some(e) = err {
                                if error_condition(&e).map(|c| c.starts_with("amqp:transaction:")).unwrap_or(false) {
                                    refused = true;
                                }
                                if matches!(f.name(), "end" | "close") {
                                    session_over = true;
                                }
                            }
                        }
                        deliveries!(step, format!("post #{idx} under the non-live id {:02x?}", id), vec![]);
                        if !refused {
                            return Err(format!("step {step}: a post naming the transaction id {:02x?}, which is not live, was not refused with a transaction error (frames written: {:?})", id, fs.iter().map(|f| f.name()).collect::<Vec<_>>()));
                        }
                    }
                }
            }
            OpR::Plain { size } => {
                let idx = next_idx;
                next_idx += 1;
                peer.send_frame(my_ch, &Peer::transfer_body(DH, Some(did), Some(&did.to_be_bytes()), Some(0), Some(false), false, None, false), &data_msg(idx, *size)).await.map_err(|e| format!("HARNESS: {e}"))?;
                did += 1;
                let _ = peer.new_frames().await;
                deliveries!(step, format!("non-transactional transfer #{idx}"), vec![(idx, *size as usize)]);
            }
            OpR::DetachControl => {
                if !control_attached {
                    continue;
                }
                peer.send_frame(my_ch, &Peer::detach_body(ch_handle, true, None), &[]).await.map_err(|e| format!("HARNESS: {e}"))?;
                let _ = peer.new_frames().await;
                control_attached = false;
                for (id, posts) in live.drain(..) {
                    if !posts.is_empty() {
                        info.orphaned_with_posts = true;
                    }
                    never.extend(posts.iter().map(|p| p.0));
                    finished.push(id);
                }
                deliveries!(step, "control link detached with transactions live", vec![]);
            }
            OpR::AttachControl => {
                if control_attached {
                    continue;
                }
                ctrl_name_n += 1;
                ch_handle += 1;
                peer.send_frame(my_ch, &Peer::attach_body(&format!("ctrl{ctrl_name_n}"), ch_handle, false, None, None, Some(0), None, true), &[]).await.map_err(|e| format!("HARNESS: {e}"))?;
                peer.wait_for("attach").await.map_err(|e| format!("step {step}: a new control link attach was not answered: {e}"))?;
                let _ = peer.new_frames().await;
                control_attached = true;
            }
        }
        if c.window_probe > 0 {
            // C07: the session state reported in the endpoint's flows counts every transfer frame received
            // (the peer's begin said next-outgoing-id 0 and it has sent `did` single-frame transfers)
            if let Ok((items, _)) = rframe::parse_stream(&ctl.bytes(0)) {
                let flows: Vec<RFrame> = rframe::frames_of(&items).into_iter().filter(|f| f.ftype == 0 && f.name() == "flow").collect();
                for f in flows.iter().skip(flows_seen) {
                    if as_uint(&f.field(0)) != Some(did) {
                        return Err(format!(
                            "C07: step {step} ({op:?}): the session's flow reports next-incoming-id {:?} although the peer started at 0 and has sent {did} transfer frames on this session ({} of them transactional posts); flow: {:?}",
                            as_uint(&f.field(0)),
                            next_idx,
                            f.body
                        ));
                    }
                }
                flows_seen = flows.len();
            }
        }
    }
    // end: whatever is still live is abandoned when the peer ends the session
    if !session_over {
        for (_, posts) in live.drain(..) {
            if !posts.is_empty() {
                info.orphaned_with_posts = true;
            }
            never.extend(posts.iter().map(|p| p.0));
        }
        let _ = peer.send_frame(my_ch, &Peer::end_body(None), &[]).await;
        let _ = peer.new_frames().await;
    }
    deliveries!("end", "session over", vec![]);
    drop(conn);
    drop(peer);
    let _ = tokio::time::timeout(T, lapp).await;
    while let Ok((name, r)) = rx.try_recv() {
        if let Ok((i, _)) = r {
            return Err(format!("after teardown: message #{i} was delivered on link {name} although nothing was due"));
        }
    }
    Ok(info)
}

// ---------------------------------------------------------------------------
// controller variant: real controller against a scripted coordinator

#[derive(Clone, Debug, Serialize, Deserialize, Hash)]
pub enum OpC {
    /// declare; the coordinator answers declared (true) or rejects (false)
    Declare(bool),
    Post { t: u8, size: u16, settled: bool, accept: bool },
    Commit { t: u8, accept: bool },
    Rollback { t: u8, accept: bool },
}

#[derive(Clone, Debug, Serialize, Deserialize, Hash)]
pub struct CaseC {
    pub ops: Vec<OpC>,
    pub ids: Vec<Vec<u8>>,
    pub tokio_seed: u64,
    pub choices: Vec<u8>,
}

pub fn case_c_strategy() -> BoxedStrategy<CaseC> {
    let op = prop_oneof![
        3 => prop::bool::weighted(0.85).prop_map(OpC::Declare),
        6 => (any::<u8>(), size(), prop::bool::weighted(0.2), prop::bool::weighted(0.8)).prop_map(|(t, size, settled, accept)| OpC::Post { t, size, settled, accept }),
        3 => (any::<u8>(), prop::bool::weighted(0.7)).prop_map(|(t, accept)| OpC::Commit { t, accept }),
        3 => (any::<u8>(), prop::bool::weighted(0.7)).prop_map(|(t, accept)| OpC::Rollback { t, accept }),
    ];
    (vec(op, 1..20), vec(prop_oneof![vec(any::<u8>(), 1..20), Just(vec![0u8]), Just(vec![0xffu8; 32])], 8), any::<u64>(), vec(any::<u8>(), 0..5))
        .prop_map(|(mut ops, mut ids, tokio_seed, choices)| {
            ops.insert(0, OpC::Declare(true));
            // distinct ids
            for (i, id) in ids.iter_mut().enumerate() {
                id.push(i as u8);
            }
            CaseC { ops, ids, tokio_seed, choices }
        })
        .boxed()
}

#[derive(Default, Debug)]
pub struct InfoC {
    pub discharges: u32,
    pub posts: u32,
    pub rejected: u32,
}

pub async fn run_controller(c: &CaseC) -> Result<InfoC, String> {
    use crate::peer::{answer_attach, client_rig, ClientRig, RigCfg};
    let mut info = InfoC::default();
    let ClientRig { conn, mut sess, mut peer, my_ch, .. } = client_rig(RigCfg { choices: c.choices.clone(), ..RigCfg::default() }).await?;
    const SH: u32 = 5; // peer's handle for the data link
    const CH: u32 = 6; // peer's handle for the control link
    let (mut sender, _a) = answer_attach(&mut peer, my_ch, Sender::builder().name("s").target("q").attach(&mut sess), |_a| Peer::attach_body("s", SH, true, None, None, None, None, false), |_a| vec![Peer::flow_body(Some(0), 100_000, 0, 100_000, Some(SH), Some(0), Some(1000), false, false)]).await?;
    let (controller, ca) = answer_attach(&mut peer, my_ch, Controller::attach(&mut sess, "ctrl"), |_a| Peer::attach_body("ctrl", CH, true, None, None, None, None, true), |_a| vec![Peer::flow_body(Some(0), 100_000, 0, 100_000, Some(CH), Some(0), Some(1000), false, false)]).await?;
    let ctrl_eh = as_uint(&ca.field(1)).unwrap_or(u32::MAX);
    // the controller's attach must name a coordinator target
    match described_parts(&ca.field(6)) {
        Some((0x30, _)) => {}
        other => return Err(format!("the controller's attach carries target {:?} instead of a coordinator", other.map(|o| o.0))),
    }
    let _ = peer.new_frames().await;
    let mut txns: Vec<(Transaction<'_>, Vec<u8>)> = Vec::new();
    let mut next_id = 0usize;
    let mut next_idx = 0u32;
    for (step, op) in c.ops.iter().enumerate() {
        match op {
            OpC::Declare(ok) => {
                if txns.len() >= 4 || next_id >= c.ids.len() {
                    continue;
                }
                let id = c.ids[next_id].clone();
                next_id += 1;
                let pa = async {
                    let t = peer.wait_for("transfer").await?;
                    if as_uint(&t.field(0)) != Some(ctrl_eh) {
                        return Err(format!("step {step}: the declare was sent on handle {:?}, not on the control link", t.field(0)));
                    }
                    if as_bool(&t.field(4)) == Some(true) {
                        return Err(format!("step {step}: the declare was sent pre-settled"));
                    }
                    let secs = crate::refcodec::decode_all(&t.payload).map_err(|e| format!("step {step}: declare payload does not decode: {e:?}"))?;
                    let body = secs.iter().find_map(|s| described_parts(s).filter(|(c, _)| *c == 0x77)).ok_or_else(|| format!("step {step}: the declare message has no amqp-value section"))?;
                    let inner = match &secs.iter().find(|s| matches!(described_parts(s), Some((0x77, _)))).unwrap() {
                        RValue::Described(_, v) => (**v).clone(),
                        _ => RValue::Null,
                    };
                    let _ = body;
                    match described_parts(&inner) {
                        Some((0x31, _)) => {}
                        other => return Err(format!("step {step}: the declare message body is {:?}, not a declare", other.map(|o| o.0))),
                    }
                    let did = as_uint(&t.field(1)).unwrap_or(0);
                    let state = if *ok { rframe::perf(&crate::spec::DECLARED, vec![RValue::Binary(id.clone())]) } else { rframe::perf(&crate::spec::REJECTED, vec![Peer::error_body("amqp:transaction:timeout", Some("no"))]) };
                    peer.send_frame(my_ch, &Peer::disposition_body(true, did, None, true, Some(state)), &[]).await
                };
                let (r, p) = tokio::join!(tokio::time::timeout(T, Transaction::declare(&controller, None)), pa);
                p?;
                let r = r.map_err(|_| format!("step {step}: declare did not complete after the coordinator answered"))?;
                match (r, ok) {
                    (Ok(t), true) => {
                        use fe2o3_amqp::transaction::TransactionBase;
                        if t.txn_id().as_ref() != id.as_slice() {
                            return Err(format!("step {step}: the coordinator declared id {:02x?} but the transaction reports {:02x?}", id, t.txn_id()));
                        }
                        txns.push((t, id));
                    }
                    (Err(e), false) => {
                        info.rejected += 1;
                        if !format!("{e:?}").contains("Rejected") {
                            return Err(format!("step {step}: the coordinator rejected the declare but declare() returned {e:?}"));
                        }
                    }
                    (Ok(_), false) => return Err(format!("step {step}: the coordinator rejected the declare but declare() succeeded")),
                    (Err(e), true) => return Err(format!("step {step}: the coordinator declared {:02x?} but declare() failed: {e:?}", id)),
                }
            }
            OpC::Post { t, size, settled, accept } => {
                if txns.is_empty() {
                    continue;
                }
                let k = (*t as usize * txns.len()) >> 8;
                let idx = next_idx;
                next_idx += 1;
                info.posts += 1;
                let id = txns[k].1.clone();
                let expect_payload = data_msg(idx, *size);
                let pa = async {
                    let mut payload = Vec::new();
                    let mut first: Option<RFrame> = None;
                    loop {
                        let t = peer.wait_for("transfer").await?;
                        payload.extend_from_slice(&t.payload);
                        let more = as_bool(&t.field(5)).unwrap_or(false);
                        if first.is_none() {
                            first = Some(t);
                        }
                        if !more {
                            break;
                        }
                    }
                    let t = first.unwrap();
                    match described_parts(&t.field(7)) {
                        Some((0x34, f)) if f.first() == Some(&RValue::Binary(id.clone())) && f.get(1).map(|o| matches!(o, RValue::Null)).unwrap_or(true) => {}
                        other => return Err(format!("step {step}: the post's transfer carries state {:?}, expected transactional-state with txn-id {:02x?} and no outcome", other, id)),
                    }
                    if payload != expect_payload {
                        return Err(format!("step {step}: the posted payload differs from the message ({} vs {} bytes)", payload.len(), expect_payload.len()));
                    }
                    if as_bool(&t.field(4)) != Some(true) {
                        let did = as_uint(&t.field(1)).unwrap_or(0);
                        let outcome = if *accept { Peer::accepted() } else { Peer::rejected("no") };
                        let state = rframe::perf(&crate::spec::TXN_STATE, vec![RValue::Binary(id.clone()), outcome]);
                        peer.send_frame(my_ch, &Peer::disposition_body(true, did, None, true, Some(state)), &[]).await?;
                    }
                    Ok::<(), String>(())
                };
                let sendable: Sendable<Body<Value>> = Sendable::builder().message(make_msg(idx, *size)).settled(if *settled { Some(true) } else { None }).build();
                let (r, p) = tokio::join!(tokio::time::timeout(T, txns[k].0.post(&mut sender, sendable)), pa);
                p?;
                let r = r.map_err(|_| format!("step {step}: post did not complete after the resource answered"))?;
                match r {
                    Ok(Outcome::Accepted(_)) if *accept || *settled => {}
                    Ok(Outcome::Rejected(_)) if !*accept && !*settled => {
                        info.rejected += 1;
                    }
                    other => return Err(format!("step {step}: the resource answered the post with {} but post() returned {other:?}", if *accept { "accepted" } else { "rejected" })),
                }
            }
            OpC::Commit { t, accept } | OpC::Rollback { t, accept } => {
                if txns.is_empty() {
                    continue;
                }
                let commit = matches!(op, OpC::Commit { .. });
                let k = (*t as usize * txns.len()) >> 8;
                let (txn, id) = txns.remove(k);
                info.discharges += 1;
                let pa = async {
                    let t = peer.wait_for("transfer").await?;
                    if as_uint(&t.field(0)) != Some(ctrl_eh) {
                        return Err(format!("step {step}: the discharge was sent on handle {:?}, not on the control link", t.field(0)));
                    }
                    if as_bool(&t.field(4)) == Some(true) {
                        return Err(format!("step {step}: the discharge was sent pre-settled"));
                    }
                    let secs = crate::refcodec::decode_all(&t.payload).map_err(|e| format!("step {step}: discharge payload does not decode: {e:?}"))?;
                    let inner = secs
                        .iter()
                        .find_map(|s| match s {
                            RValue::Described(d, v) if **d == RValue::Ulong(0x77) => Some((**v).clone()),
                            _ => None,
                        })
                        .ok_or_else(|| format!("step {step}: the discharge message has no amqp-value section"))?;
                    match described_parts(&inner) {
                        Some((0x32, f)) => {
                            if f.first() != Some(&RValue::Binary(id.clone())) {
                                return Err(format!("step {step}: {} sent a discharge for txn-id {:?}, the transaction's id is {:02x?}", if commit { "commit" } else { "rollback" }, f.first(), id));
                            }
                            let fail = f.get(1).and_then(as_bool).unwrap_or(false);
                            if fail == commit {
                                return Err(format!("step {step}: {} sent a discharge with fail={fail}", if commit { "commit" } else { "rollback" }));
                            }
                        }
                        other => return Err(format!("step {step}: the discharge message body is {:?}, not a discharge", other.map(|o| o.0))),
                    }
                    let did = as_uint(&t.field(1)).unwrap_or(0);
                    let state = if *accept { Peer::accepted() } else { rframe::perf(&crate::spec::REJECTED, vec![Peer::error_body("amqp:transaction:rollback", Some("no"))]) };
                    peer.send_frame(my_ch, &Peer::disposition_body(true, did, None, true, Some(state)), &[]).await
                };
                let call = async {
                    if commit {
                        txn.commit().await
                    } else {
                        txn.rollback().await
                    }
                };
                let (r, p) = tokio::join!(tokio::time::timeout(T, call), pa);
                p?;
                let r = r.map_err(|_| format!("step {step}: the discharge did not complete after the coordinator answered"))?;
                match (r, accept) {
                    (Ok(()), true) => {}
                    (Err(e), false) => {
                        info.rejected += 1;
                        if !format!("{e:?}").contains("Rejected") {
                            return Err(format!("step {step}: the coordinator rejected the discharge but the call returned {e:?}"));
                        }
                        // a failed discharge leaves the transaction object undischarged: it rolls back on drop;
                        // swallow that frame
                        let _ = peer.new_frames().await;
                    }
                    (Ok(()), false) => return Err(format!("step {step}: the coordinator rejected the discharge but {} reported success", if commit { "commit" } else { "rollback" })),
                    (Err(e), true) => return Err(format!("step {step}: the coordinator accepted the discharge but the call failed: {e:?}")),
                }
            }
        }
    }
    for (t, _) in txns.into_iter() {
        std::mem::forget(t);
    }
    drop(controller);
    drop(sender);
    drop(sess);
    drop(conn);
    Ok(info)
}

fn run_sync<T>(seed: u64, fut: impl std::future::Future<Output = Result<T, String>>) -> Result<T, String> {
    match simnet::run_case(seed, fut).0 {
        CaseEnd::Done(r) => r,
        CaseEnd::Hang => Err(format!("HANG (virtual-time watchdog); wire so far:{}", simnet::describe_last_wire())),
    }
}

fn sig(e: &str) -> String {
    if e.starts_with("HANG") {
        "hang".into()
    } else if e.contains("rolled back / abandoned") {
        "isolation".into()
    } else if e.contains("model allows exactly") {
        "atomicity".into()
    } else if e.contains("failed") || e.contains("did not complete") {
        "operation-failed".into()
    } else {
        "transaction".into()
    }
}

fn run(ctx: &ShardCtx, rep: &mut Report) {
    MAX_SHRINK_ITERS.store(400, std::sync::atomic::Ordering::Relaxed);
    pt_run(ctx, rep, "duo", ctx.budget(30_000, 1_500_000), case_strategy(), |c, obs| match guarded(|| run_sync(c.tokio_seed, run_duo(c))) {
        Ok(Ok(info)) => {
            for (b, n) in [(info.discharged_with_posts, "duo:discharged-with-posts"), (info.orphaned_with_posts, "duo:orphaned-with-posts"), (info.multi_frame_post, "duo:multi-frame-post"), (info.concurrent, "duo:concurrent-transactions"), (info.retired, "duo:transactional-retirement")] {
                if b {
                    obs.class(n);
                }
            }
            if info.discharged_with_posts || info.orphaned_with_posts {
                obs.nontrivial(c);
            }
            Ok(())
        }
        Ok(Err(e)) => {
            obs.signature = Some(sig(&e));
            Err(e)
        }
        Err(p) => {
            obs.signature = Some(panic_signature(&p[0]));
            Err(format!("panic: {}", p.join(" | ")))
        }
    });
    pt_run(ctx, rep, "resource", ctx.budget(30_000, 1_500_000), case_r_strategy(), |c, obs| match guarded(|| run_sync(c.tokio_seed, run_resource(c))) {
        Ok(Ok(info)) => {
            for (b, n) in [(info.discharged_with_posts, "resource:discharged-with-posts"), (info.orphaned_with_posts, "resource:orphaned-with-posts"), (info.refused_post, "resource:post-to-non-live-id"), (info.refused_discharge, "resource:discharge-of-non-live-id")] {
                if b {
                    obs.class(n);
                }
            }
            if info.discharged_with_posts || info.orphaned_with_posts || info.refused_post || info.refused_discharge {
                obs.nontrivial(c);
            }
            Ok(())
        }
        Ok(Err(e)) => {
            obs.signature = Some(format!("resource:{}", sig(&e)));
            Err(e)
        }
        Err(p) => {
            obs.signature = Some(panic_signature(&p[0]));
            Err(format!("panic: {}", p.join(" | ")))
        }
    });
    pt_run(ctx, rep, "controller", ctx.budget(20_000, 1_000_000), case_c_strategy(), |c, obs| match guarded(|| run_sync(c.tokio_seed, run_controller(c))) {
        Ok(Ok(info)) => {
            if info.discharges > 0 {
                obs.class("controller:discharge-observed");
                obs.nontrivial(c);
            }
            if info.posts > 0 {
                obs.class("controller:post-observed");
            }
            if info.rejected > 0 {
                obs.class("controller:coordinator-rejected");
            }
            Ok(())
        }
        Ok(Err(e)) => {
            obs.signature = Some(format!("controller:{}", sig(&e)));
            Err(e)
        }
        Err(p) => {
            obs.signature = Some(panic_signature(&p[0]));
            Err(format!("panic: {}", p.join(" | ")))
        }
    });
}

fn replay(variant: &str, case_json: &Json) -> Result<(), String> {
    let v = variant.strip_suffix("!raw").unwrap_or(variant);
    let r = match v {
        "duo" => {
            let c: Case = serde_json::from_value(case_json.clone()).map_err(|e| format!("bad case: {e}"))?;
            guarded(|| run_sync(c.tokio_seed, run_duo(&c)).map(|_| ()))
        }
        "resource" => {
            let c: CaseR = serde_json::from_value(case_json.clone()).map_err(|e| format!("bad case: {e}"))?;
            guarded(|| run_sync(c.tokio_seed, run_resource(&c)).map(|_| ()))
        }
        "controller" => {
            let c: CaseC = serde_json::from_value(case_json.clone()).map_err(|e| format!("bad case: {e}"))?;
            guarded(|| run_sync(c.tokio_seed, run_controller(&c)).map(|_| ()))
        }
        _ => return Err(format!("unknown variant {v}")),
    };
    match r {
        Ok(r) => r,
        Err(p) => Err(format!("panic: {}", p.join(" | "))),
    }
}

#[allow(dead_code)]
fn unused(_: &RFrame, _: &Peer, _: ConnectionAcceptor<(), ()>, _: Connection) {
    let _ = rframe::AMQP_HEADER;
}
