//! C20 — all codec entry points agree with each other
use crate::checks::codec_common::*;
use crate::checks::typed;
use crate::conv;
use crate::driver::*;
use crate::gen;
use crate::refcodec::{hex, RValue};
use proptest::collection::vec;
use proptest::prelude::*;
use serde_amqp::lazy::LazyValue;
use serde_amqp::read::{IoReader, SliceReader};
use serde_amqp::Value;
use serde_json::Value as Json;
use std::io::{Cursor, Read};

pub fn meta() -> PropMeta {
    PropMeta {
        id: "C20",
        level: "exploration",
        rule: "values as C03 (untyped, typed items, messages) plus (value, trailer, chunk size) triples. Oracles: serialized_size(x)==to_vec(x).len(); from_reader over a cursor of enc(x)++trailer leaves the cursor exactly at len(enc(x)) and equals from_slice(enc(x)) and from_slice(enc(x)++trailer), for io readers serving at most c bytes per read (c=1..len); LazyValue::from_reader (slice and io reader) yields exactly enc(x); FrameDecoder hands back exactly the payload that follows a transfer performative; to_value(x) is the value decoded from to_vec(x) and from_value(to_value(x))==x. Non-trivial: nested or boundary-sized value, or non-empty trailer starting with a valid constructor; distinct by hash of the case.",
        assumptions: &["trailer bytes are arbitrary (including bytes that look like constructors)", "chunked reader never returns 0 before end of data"],
        nontrivial_floor: 0.3,
        run,
        replay,
        crashy: false,
    }
}

/// io::Read serving at most `chunk` bytes per call
pub struct Chunked<'a> {
    pub cur: Cursor<&'a [u8]>,
    pub chunk: usize,
}
impl Read for Chunked<'_> {
    fn read(&mut self, buf: &mut [u8]) -> std::io::Result<usize> {
        let n = buf.len().min(self.chunk.max(1));
        self.cur.read(&mut buf[..n])
    }
}

pub fn entry_points_value(r: &RValue, trailer: &[u8], chunk: usize, skip_from_value: bool) -> Result<(), String> {
    let v = conv::to_value(r);
    let enc = serde_amqp::to_vec(&v).map_err(|e| format!("to_vec failed: {e}"))?;
    let n = serde_amqp::serialized_size(&v).map_err(|e| format!("serialized_size failed: {e}"))?;
    if n != enc.len() {
        return Err(format!("serialized_size={} but to_vec length={} for {v:?} ({})", n, enc.len(), hex(&enc)));
    }
    let mut full = enc.clone();
    full.extend_from_slice(trailer);
    // slice reader ignores the trailer
    let a: Value = serde_amqp::from_slice(&enc).map_err(|e| format!("from_slice(enc) failed: {e}; {}", hex(&enc)))?;
    let b: Value = serde_amqp::from_slice(&full).map_err(|e| format!("from_slice(enc++trailer) failed: {e}; {}", hex(&full)))?;
    if a != b {
        return Err(format!("from_slice result depends on trailing bytes: {a:?} vs {b:?}"));
    }
    // io reader, chunked, exact consumption
    let mut rd = Chunked { cur: Cursor::new(&full[..]), chunk };
    let c: Value = serde_amqp::from_reader(&mut rd).map_err(|e| format!("from_reader(chunk={chunk}) failed: {e}; {}", hex(&full)))?;
    if c != a {
        return Err(format!("from_reader (chunk={chunk}) differs from from_slice: {c:?} vs {a:?}"));
    }
    let pos = rd.cur.position() as usize;
    if pos != enc.len() {
        return Err(format!(
            "from_reader consumed {} bytes of the stream but the value is {} bytes long (trailer {} bytes, chunk {}); enc={}",
            pos,
            enc.len(),
            trailer.len(),
            chunk,
            hex(&enc)
        ));
    }
    // LazyValue via both readers
    let mut sr = SliceReader::new(&full);
    let l1 = LazyValue::from_reader(&mut sr).map_err(|e| format!("LazyValue::from_reader(slice) failed: {e}; {}", hex(&full)))?;
    if l1.as_slice() != &enc[..] {
        return Err(format!("LazyValue(slice) took {} bytes, value has {}; {}", l1.as_slice().len(), enc.len(), hex(&enc)));
    }
    let mut cur = Chunked { cur: Cursor::new(&full[..]), chunk };
    {
        let mut ir = IoReader::new(&mut cur);
        let l2 = LazyValue::from_reader(&mut ir).map_err(|e| format!("LazyValue::from_reader(io) failed: {e}; {}", hex(&full)))?;
        if l2.as_slice() != &enc[..] {
            return Err(format!("LazyValue(io) took {} bytes, value has {}; {}", l2.as_slice().len(), enc.len(), hex(&enc)));
        }
    }
    let pos = cur.cur.position() as usize;
    if pos != enc.len() {
        return Err(format!("LazyValue::from_reader(io) consumed {} stream bytes for a {}-byte value; enc={}", pos, enc.len(), hex(&enc)));
    }
    // the serde entry points for the public type LazyValue: slice and stream must agree
    let ls: LazyValue = serde_amqp::from_slice(&enc).map_err(|e| format!("from_slice::<LazyValue> failed: {e}; {}", hex(&enc)))?;
    if ls.as_slice() != &enc[..] {
        return Err(format!("from_slice::<LazyValue> holds {} bytes, value has {}; {}", ls.as_slice().len(), enc.len(), hex(&enc)));
    }
    let mut cur2 = Chunked { cur: Cursor::new(&full[..]), chunk };
    let lr: LazyValue = serde_amqp::from_reader(&mut cur2).map_err(|e| format!("from_reader::<LazyValue> failed where from_slice::<LazyValue> succeeds: {e}; {}", hex(&enc)))?;
    if lr != ls {
        return Err(format!("from_reader::<LazyValue> and from_slice::<LazyValue> disagree; {}", hex(&enc)));
    }
    if cur2.cur.position() as usize != enc.len() {
        return Err(format!("from_reader::<LazyValue> consumed {} stream bytes for a {}-byte value; enc={}", cur2.cur.position(), enc.len(), hex(&enc)));
    }
    // untyped tree conversions
    let tv = serde_amqp::to_value(&v).map_err(|e| format!("to_value failed: {e}"))?;
    if tv != v {
        return Err(format!("to_value(v) != v: {tv:?} vs {v:?}"));
    }
    if !skip_from_value {
        let fv: Value = serde_amqp::from_value(v.clone()).map_err(|e| format!("from_value failed: {e}"))?;
        if fv != v {
            return Err(format!("from_value(v) != v: {fv:?} vs {v:?}"));
        }
    }
    Ok(())
}

type Case = (RValue, Vec<u8>, usize);

fn case(ctx: &ShardCtx, c: &Case, obs: &mut Obs) -> Result<(), String> {
    let r = carve_known(&c.0, &ctx.open_findings, &mut obs.excluded);
    obs.class(class_of(&r));
    let trailer_cons = c.1.first().map(|b| crate::refcodec::decode_one(&c.1).is_ok() || *b >= 0x40).unwrap_or(false);
    if trailer_cons {
        obs.class("trailer-constructor-like");
    }
    if nontrivial_value(&r) || trailer_cons {
        obs.nontrivial(&(&r, &c.1, c.2));
    }
    let skip = ctx.is_open("KF-from-value-composite");
    if skip {
        obs.excluded.push("KF-from-value-composite".into());
    }
    match guarded(|| entry_points_value(&r, &c.1, c.2, skip)) {
        Ok(r) => r,
        Err(p) => {
            obs.signature = Some(panic_signature(&p[0]));
            Err(format!("panic: {}", p.join(" | ")))
        }
    }
}

fn trailer() -> BoxedStrategy<Vec<u8>> {
    prop_oneof![
        1 => Just(vec![]),
        2 => vec(any::<u8>(), 1..12),
        2 => gen::rvalue(gen::GenCfg { depth: 2, breadth: 3, big: false, size: 6 }).prop_map(|r| crate::refcodec::encode_compact(&r)),
        1 => prop_oneof![Just(0x00u8), Just(0x40), Just(0xc0), Just(0xd0), Just(0xe0), Just(0xb1), Just(0x45)].prop_map(|b| vec![b]),
    ]
    .boxed()
}

fn run(ctx: &ShardCtx, rep: &mut Report) {
    let cfg = gen::GenCfg::default();
    pt_run(ctx, rep, "ep-untyped", ctx.budget(200_000, 8_000_000), (gen::rvalue(cfg), trailer(), 1usize..40), |c, o| case(ctx, c, o));
    pt_run(ctx, rep, "ep-untyped-wide", ctx.budget(8_000, 200_000), (gen::wide_compound(), trailer(), prop_oneof![Just(1usize), Just(7), Just(255), Just(256), Just(4096)]), |c, o| case(ctx, c, o));
    typed::run_c20(ctx, rep);
    plain::run(ctx, rep);
}

/// plain (non-composite) Rust types: to_value / from_value must agree with the byte path
mod plain {
    use super::*;
    use serde::{de::DeserializeOwned, Serialize};
    use serde_amqp::primitives::{Array, Dec128, Dec32, Dec64, Symbol, Timestamp, Uuid};
    use serde_bytes::ByteBuf;
    use std::collections::BTreeMap;
    use std::fmt::Debug;

    pub fn check<T: Serialize + DeserializeOwned + Debug + PartialEq>(x: &T) -> Result<(), String> {
        let bytes = serde_amqp::to_vec(x).map_err(|e| format!("to_vec failed: {e} for {x:?}"))?;
        let n = serde_amqp::serialized_size(x).map_err(|e| format!("serialized_size failed: {e}"))?;
        if n != bytes.len() {
            return Err(format!("serialized_size={} but to_vec length={} for {x:?}", n, bytes.len()));
        }
        let via_bytes: T = serde_amqp::from_slice(&bytes).map_err(|e| format!("from_slice failed: {e} for {x:?} bytes={}", hex(&bytes)))?;
        if &via_bytes != x {
            return Err(format!("from_slice(to_vec(x)) != x: {via_bytes:?} vs {x:?}"));
        }
        let v = serde_amqp::to_value(x).map_err(|e| format!("to_value failed: {e} for {x:?}"))?;
        let vb: Value = serde_amqp::from_slice(&bytes).map_err(|e| format!("from_slice::<Value> failed: {e}; bytes={}", hex(&bytes)))?;
        if v != vb {
            return Err(format!("to_value(x) != from_slice::<Value>(to_vec(x)): {v:?} vs {vb:?} for {x:?}"));
        }
        let back: T = serde_amqp::from_value(v.clone()).map_err(|e| format!("from_value(to_value(x)) failed: {e}; x={x:?} value={v:?}"))?;
        if &back != x {
            return Err(format!("from_value(to_value(x)) != x: {back:?} vs {x:?}"));
        }
        Ok(())
    }

    #[derive(Clone, Debug, serde::Serialize, serde::Deserialize, Hash)]
    pub enum Plain {
        U8(u8),
        U16(u16),
        U32(u32),
        U64(u64),
        I8(i8),
        I16(i16),
        I32(i32),
        I64(i64),
        Bool(bool),
        Char(char),
        F64(u64),
        Str(String),
        OptStr(Option<String>),
        VecU32(Vec<u32>),
        VecStr(Vec<String>),
        Tuple(u32, String, bool),
        MapStrI64(Vec<(String, i64)>),
        Sym(String),
        Ts(i64),
        Uuid([u8; 16]),
        D32([u8; 4]),
        D64([u8; 8]),
        D128([u8; 16]),
        Bin(Vec<u8>),
        ArrU16(Vec<u16>),
        ArrSym(Vec<String>),
        OptU32(Option<u32>),
    }

    pub fn strategy() -> BoxedStrategy<Plain> {
        prop_oneof![
            gen::u8_edge().prop_map(Plain::U8),
            gen::u16_edge().prop_map(Plain::U16),
            gen::u32_edge().prop_map(Plain::U32),
            gen::u64_edge().prop_map(Plain::U64),
            gen::u8_edge().prop_map(|x| Plain::I8(x as i8)),
            gen::u16_edge().prop_map(|x| Plain::I16(x as i16)),
            gen::i32_edge().prop_map(Plain::I32),
            gen::i64_edge().prop_map(Plain::I64),
            any::<bool>().prop_map(Plain::Bool),
            gen::any_char().prop_map(Plain::Char),
            gen::f64_bits().prop_map(Plain::F64),
            gen::string_strategy(false).prop_map(Plain::Str),
            proptest::option::of(gen::string_strategy(false)).prop_map(Plain::OptStr),
            vec(gen::u32_edge(), 0..6).prop_map(Plain::VecU32),
            vec(gen::string_strategy(false), 0..4).prop_map(Plain::VecStr),
            (gen::u32_edge(), gen::string_strategy(false), any::<bool>()).prop_map(|(a, b, c)| Plain::Tuple(a, b, c)),
            vec(("[a-z]{0,6}", gen::i64_edge()), 0..5).prop_map(Plain::MapStrI64),
            gen::symbol_strategy().prop_map(Plain::Sym),
            gen::i64_edge().prop_map(Plain::Ts),
            any::<[u8; 16]>().prop_map(Plain::Uuid),
            any::<[u8; 4]>().prop_map(Plain::D32),
            any::<[u8; 8]>().prop_map(Plain::D64),
            any::<[u8; 16]>().prop_map(Plain::D128),
            gen::binary_strategy(false).prop_map(Plain::Bin),
            vec(gen::u16_edge(), 0..6).prop_map(Plain::ArrU16),
            vec("[a-z]{0,6}", 0..4).prop_map(Plain::ArrSym),
            proptest::option::of(gen::u32_edge()).prop_map(Plain::OptU32),
        ]
        .boxed()
    }

    pub fn check_plain(p: &Plain) -> Result<(), String> {
        match p {
            Plain::U8(x) => check(x),
            Plain::U16(x) => check(x),
            Plain::U32(x) => check(x),
            Plain::U64(x) => check(x),
            Plain::I8(x) => check(x),
            Plain::I16(x) => check(x),
            Plain::I32(x) => check(x),
            Plain::I64(x) => check(x),
            Plain::Bool(x) => check(x),
            Plain::Char(x) => check(x),
            Plain::F64(x) => check(&ordered_float::OrderedFloat(f64::from_bits(*x))),
            Plain::Str(x) => check(x),
            Plain::OptStr(x) => check(x),
            Plain::VecU32(x) => check(x),
            Plain::VecStr(x) => check(x),
            Plain::Tuple(a, b, c) => check(&(*a, b.clone(), *c)),
            Plain::MapStrI64(x) => check(&x.iter().cloned().collect::<BTreeMap<String, i64>>()),
            Plain::Sym(x) => check(&Symbol::new(x.clone())),
            Plain::Ts(x) => check(&Timestamp::from_milliseconds(*x)),
            Plain::Uuid(x) => check(&Uuid::from(*x)),
            Plain::D32(x) => check(&Dec32::from(*x)),
            Plain::D64(x) => check(&Dec64::from(*x)),
            Plain::D128(x) => check(&Dec128::from(*x)),
            Plain::Bin(x) => check(&ByteBuf::from(x.clone())),
            Plain::ArrU16(x) => check(&Array(x.clone())),
            Plain::ArrSym(x) => check(&Array(x.iter().map(|s| Symbol::new(s.clone())).collect::<Vec<_>>())),
            Plain::OptU32(x) => check(x),
        }
    }

    pub fn case(p: &Plain, obs: &mut Obs) -> Result<(), String> {
        let name = format!("{:?}", p);
        let name = name.split('(').next().unwrap_or("?").to_string();
        obs.class(&format!("plain:{}", name));
        obs.nontrivial(p);
        obs.signature = Some(format!("plain:{}", name));
        match guarded(|| check_plain(p)) {
            Ok(r) => r,
            Err(pn) => {
                obs.signature = Some(panic_signature(&pn[0]));
                Err(format!("panic: {}", pn.join(" | ")))
            }
        }
    }

    pub fn run(ctx: &ShardCtx, rep: &mut Report) {
        pt_run(ctx, rep, "ep-plain", ctx.budget(100_000, 4_000_000), strategy(), case);
    }
}

fn replay(variant: &str, case_json: &Json) -> Result<(), String> {
    let (v, raw) = match variant.strip_suffix("!raw") {
        Some(v) => (v, true),
        None => (variant, false),
    };
    match v {
        "ep-untyped" | "ep-untyped-wide" => {
            let c: Case = serde_json::from_value(case_json.clone()).map_err(|e| format!("bad case: {e}"))?;
            let open = if raw { vec![] } else { open_ids_for("C20") };
            let skip = open.iter().any(|o| o == "KF-from-value-composite");
            entry_points_value(&carve_known(&c.0, &open, &mut vec![]), &c.1, c.2, skip)
        }
        "ep-plain" => {
            let p: plain::Plain = serde_json::from_value(case_json.clone()).map_err(|e| format!("bad case: {e}"))?;
            plain::check_plain(&p)
        }
        _ => typed::replay_c20(variant, case_json),
    }
}
