//! C16 — cancelling a pending send or recv loses nothing and corrupts nothing.
//!
//! Real sender <-> real receiver over the harness transport. Every send/recv future of the
//! application is wrapped in `CancelAfter(k)`: it is polled at most k times and dropped as soon as
//! its k-th poll returns Pending (k = 0: dropped unpolled). The k's are generated per attempt.

use crate::driver::{guarded, is_harness_panic, panic_signature, pt_run, Obs, PropMeta, Report, ShardCtx, MAX_SHRINK_ITERS};
use crate::duo::{self, Credit, DuoCfg, LinkCfg};
use crate::simnet::{self, CaseEnd, PipeCfg};
use fe2o3_amqp::link::delivery::Sendable;
use fe2o3_amqp::types::messaging::{Body, Data, Message, Outcome};
use fe2o3_amqp::types::primitives::Value;
use fe2o3_amqp::{Receiver, Sender};
use proptest::collection::vec;
use proptest::prelude::*;
use serde::{Deserialize, Serialize};
use serde_amqp::primitives::Binary;
use serde_json::Value as Json;
use std::future::Future;
use std::pin::Pin;
use std::task::{Context, Poll};

pub fn meta() -> PropMeta {
    PropMeta {
        id: "C16",
        level: "exploration",
        rule: "a real sender and a real receiver (client<->listener, either direction) exchange 1..12 generated messages (body sizes 0..20 KiB around frame multiples, so one and many transfer frames; link-layer split by max-message-size in some cases) over one link with generated settle modes, auto-accept on/off, credit Auto(1..50), frame size 512..4096 and engine buffer capacities. Every send and every recv future is polled at most k times and dropped when its k-th poll is Pending; k is generated per attempt (0..40 or unlimited), repeated as in a select! loop. A final sentinel message is sent with unlimited polls. Oracle: the deliveries returned by completed recv calls are intact (byte-equal body), strictly in send order, contain every message whose send completed, contain a cancelled message at most once, and end with the sentinel; with no send cancelled they are exactly the messages sent; no recv/send returns an error; unlimited sends complete (no credit starvation: a wedge is the virtual-time watchdog); nothing arrives after the sentinel; completed unsettled sends resolve Accepted. Non-trivial: at least one future was actually dropped while Pending (k >= 1) — distinct by hash of the case.",
        assumptions: &["while KF-engine-channel-deadlock / KF-engine-backpressure-deadlock are open: wide pipe, connection buffers, the sender side's session buffer and the link buffers >= 32; the receiving side's link->session capacity stays as generated (from 1) with session windows >= 100", "cancellation is modelled as drop-after-k-polls of the public futures (the only thing an application can do)"],
        nontrivial_floor: 0.4,
        run,
        replay,
        crashy: true,
    }
}

/// polls the inner future at most `left` times; resolves to None (dropping the inner future) as soon
/// as the budget is used up and the inner future is still pending
pub struct CancelAfter<'a, T> {
    fut: Option<Pin<Box<dyn Future<Output = T> + Send + 'a>>>,
    left: u32,
    pub polled: u32,
}

impl<'a, T> CancelAfter<'a, T> {
    pub fn new(fut: impl Future<Output = T> + Send + 'a, budget: u32) -> Self {
        CancelAfter { fut: Some(Box::pin(fut)), left: budget, polled: 0 }
    }
}

impl<'a, T> Future for CancelAfter<'a, T> {
    /// (result, polls used)
    type Output = (Option<T>, u32);
    fn poll(mut self: Pin<&mut Self>, cx: &mut Context<'_>) -> Poll<Self::Output> {
        if self.left == 0 {
            self.fut = None;
            let p = self.polled;
            return Poll::Ready((None, p));
        }
        self.left -= 1;
        self.polled += 1;
        let r = self.fut.as_mut().expect("polled after completion").as_mut().poll(cx);
        match r {
            Poll::Ready(v) => {
                self.fut = None;
                let p = self.polled;
                Poll::Ready((Some(v), p))
            }
            Poll::Pending => {
                if self.left == 0 {
                    self.fut = None;
                    let p = self.polled;
                    Poll::Ready((None, p))
                } else {
                    Poll::Pending
                }
            }
        }
    }
}

#[derive(Clone, Debug, Serialize, Deserialize, Hash)]
pub struct Case {
    pub duo: DuoCfg,
    pub link: LinkCfg,
    pub sizes: Vec<u32>,
    /// per recv attempt, cycled; 255 = unlimited
    pub recv_budgets: Vec<u8>,
    /// per send, cycled; 255 = unlimited
    pub send_budgets: Vec<u8>,
}

fn budgets() -> BoxedStrategy<Vec<u8>> {
    prop_oneof![
        2 => Just(vec![255u8]),
        1 => Just(vec![1u8]),
        1 => Just(vec![2u8]),
        1 => Just(vec![1u8, 255]),
        4 => vec(prop_oneof![3 => 0u8..6, 2 => 6u8..40, 1 => Just(255u8)], 1..8),
    ]
    .boxed()
}

fn size() -> BoxedStrategy<u32> {
    prop_oneof![
        3 => 0u32..64,
        3 => (prop_oneof![Just(512u32), Just(1024), Just(4096)], 0u32..5, -40i64..8).prop_map(|(b, k, d)| ((b * k) as i64 + d).max(0) as u32),
        1 => 8_000u32..20_000,
    ]
    .boxed()
}

pub fn case_strategy() -> BoxedStrategy<Case> {
    (duo::duo_cfg(), duo::link_cfg(), vec(size(), 1..12), budgets(), budgets(), prop_oneof![3 => Just(None), 1 => (100u64..3000).prop_map(Some)], prop_oneof![Just(1u32), Just(2), Just(3), Just(7), Just(50)])
        .prop_map(|(mut duo, mut link, sizes, recv_budgets, send_budgets, mms, credit)| {
            duo.pipe = PipeCfg { cap: 1 << 22, chunks: duo.pipe.chunks.clone(), stalls: duo.pipe.stalls.clone(), ..PipeCfg::default() };
            link.initiator = 0;
            link.credit = Credit::Auto(credit);
            link.max_message_size = mms;
            Case { duo, link, sizes, recv_budgets, send_budgets }
        })
        .boxed()
}

type Msg = Message<Body<Value>>;

fn make_msg(idx: u32, size: u32) -> Msg {
    let mut v = idx.to_le_bytes().to_vec();
    v.extend((0..size).map(|i| (i.wrapping_mul(31).wrapping_add(idx) % 251) as u8));
    Message::builder().data(Binary::from(v)).build().map_body(|d: Data| Body::Data(vec![d].into()))
}

fn idx_of(m: &Msg) -> Option<(u32, Vec<u8>)> {
    match &m.body {
        Body::Data(d) => {
            let all: Vec<u8> = d.iter().flat_map(|x| x.0.to_vec()).collect();
            if all.len() < 4 {
                return None;
            }
            Some((u32::from_le_bytes([all[0], all[1], all[2], all[3]]), all))
        }
        _ => None,
    }
}

const SENTINEL: u32 = 0xFFFF_FF00;

#[derive(Default, Debug)]
pub struct Info {
    pub send_cancels_pending: u32,
    pub recv_cancels_pending: u32,
    pub send_cancels_unpolled: u32,
    pub recv_cancels_unpolled: u32,
    pub multi_frame: bool,
    pub cancelled_delivered: u32,
}

struct SendReport {
    completed: Vec<u32>,
    cancelled: Vec<u32>,
    cancels_pending: u32,
    cancels_unpolled: u32,
}

/// KF-send-cancel-partial-delivery carve-out: a message that the link layer splits (max-message-size)
/// is not cancelled
fn link_split(c: &Case, size: u32) -> bool {
    c.link.max_message_size.map(|m| size as u64 + 64 > m).unwrap_or(false)
}

/// The open finding needs the link->session channel of the sending side to be full (or the task's cooperative
/// budget to run out) in the middle of a delivery: then `send()` is Pending between two transfers of one delivery.
/// With a roomy channel (>= 1024 slots), a delivery of at most 64 transfers and the send future polled
/// `unconstrained`, the unchanged link layer queues all transfers of a delivery within one poll, so cancelling such
/// a send is inside the property again and is generated.
fn roomy(c: &Case, size: u32) -> bool {
    let snd_side = if c.link.dir == 0 { 0 } else { 1 };
    c.duo.sess_buf[snd_side] >= 1024 && c.link.max_message_size.map(|m| (size as u64 + 64) / m.max(1) + 1 <= 64).unwrap_or(true)
}

fn carved_split(c: &Case, size: u32) -> bool {
    link_split(c, size) && !roomy(c, size)
}

async fn sender_app(mut s: Sender, c: Case, carve_partial: bool) -> Result<(Sender, SendReport), String> {
    let mut rep = SendReport { completed: vec![], cancelled: vec![], cancels_pending: 0, cancels_unpolled: 0 };
    let settled = match c.link.snd_settle {
        1 => Some(true),
        _ => None,
    };
    for (i, sz) in c.sizes.iter().enumerate() {
        let b = c.send_budgets[i % c.send_budgets.len()];
        let budget = if b == 255 || (carve_partial && carved_split(&c, *sz)) { u32::MAX } else { b as u32 };
        let sendable: Sendable<Body<Value>> = Sendable::builder().message(make_msg(i as u32, *sz)).settled(settled).build();
        let (r, polls) = if link_split(&c, *sz) && roomy(&c, *sz) {
            // no forced yields from tokio's cooperative budget inside the hand-over of one delivery
            CancelAfter::new(tokio::task::unconstrained(s.send(sendable)), budget).await
        } else {
            CancelAfter::new(s.send(sendable), budget).await
        };
        match r {
            Some(Ok(o)) => {
                if !matches!(o, Outcome::Accepted(_)) {
                    return Err(format!("send #{i} completed with outcome {o:?}, the receiver accepts everything"));
                }
                rep.completed.push(i as u32);
            }
            Some(Err(e)) => return Err(format!("send #{i} failed: {e:?} (after {} cancelled sends)", rep.cancelled.len())),
            None => {
                rep.cancelled.push(i as u32);
                if polls == 0 {
                    rep.cancels_unpolled += 1;
                } else {
                    rep.cancels_pending += 1;
                }
            }
        }
    }
    let sendable: Sendable<Body<Value>> = Sendable::builder().message(make_msg(SENTINEL, 3)).settled(settled).build();
    match s.send(sendable).await {
        Ok(Outcome::Accepted(_)) => {}
        Ok(o) => return Err(format!("the final send completed with outcome {o:?}")),
        Err(e) => return Err(format!("the final (never cancelled) send failed: {e:?} (after {} cancelled sends: {:?})", rep.cancelled.len(), rep.cancelled)),
    }
    Ok((s, rep))
}

struct RecvReport {
    got: Vec<(u32, usize)>,
    cancels_pending: u32,
    cancels_unpolled: u32,
}

async fn receiver_app(mut r: Receiver, c: Case) -> Result<(Receiver, RecvReport), String> {
    let mut rep = RecvReport { got: vec![], cancels_pending: 0, cancels_unpolled: 0 };
    let cap = 400 + 100 * c.sizes.len();
    let mut attempt = 0usize;
    loop {
        let b = c.recv_budgets[attempt % c.recv_budgets.len()];
        let budget = if b == 255 || attempt > cap { u32::MAX } else { b as u32 };
        attempt += 1;
        let (res, polls) = CancelAfter::new(r.recv::<Body<Value>>(), budget).await;
        match res {
            Some(Ok(d)) => {
                let (idx, all) = idx_of(d.message()).ok_or_else(|| format!("a delivery without the expected data body arrived: {:?}", d.message()))?;
                let expect_len = if idx == SENTINEL { 3 } else { *c.sizes.get(idx as usize).ok_or_else(|| format!("a delivery with unknown index {idx} arrived"))? };
                let (_, expect) = idx_of(&make_msg(idx, expect_len)).unwrap();
                if all != expect {
                    return Err(format!("delivery of message #{idx} is not intact: {} bytes received, {} sent", all.len(), expect.len()));
                }
                rep.got.push((idx, all.len()));
                if !c.link.auto_accept {
                    r.accept(&d).await.map_err(|e| format!("accept of #{idx} failed: {e:?}"))?;
                }
                if idx == SENTINEL {
                    return Ok((r, rep));
                }
            }
            Some(Err(e)) => return Err(format!("recv failed after {} deliveries and {} cancelled recv futures: {e:?}", rep.got.len(), rep.cancels_pending + rep.cancels_unpolled)),
            None => {
                if polls == 0 {
                    rep.cancels_unpolled += 1;
                    // let the rest of the system run (a select! loop would be woken by its other branch)
                    tokio::task::yield_now().await;
                } else {
                    rep.cancels_pending += 1;
                }
            }
        }
    }
}

pub async fn run_async(c: &Case, carve_partial: bool) -> Result<Info, String> {
    let mut duo = duo::connect(&c.duo).await?;
    let (mut cs, mut ls) = duo::begin_pair(&c.duo, &mut duo).await?;
    let (s, r) = duo::attach_pair("c16", &c.link, &mut cs, &mut ls).await?;
    let st = tokio::spawn(sender_app(s, c.clone(), carve_partial));
    let rt = tokio::spawn(receiver_app(r, c.clone()));
    let (mut r, rr) = rt.await.map_err(|e| format!("receiver task panicked: {e}"))??;
    let (s, sr) = st.await.map_err(|e| format!("sender task panicked: {e}"))??;
    // ---- oracle
    let got: Vec<u32> = rr.got.iter().map(|g| g.0).collect();
    for w in got.windows(2) {
        if w[1] <= w[0] {
            return Err(format!("deliveries out of order or duplicated: received indices {:?} (cancelled sends {:?})", got, sr.cancelled));
        }
    }
    for i in &sr.completed {
        if !got.contains(i) {
            return Err(format!("message #{i} was sent (its send completed) but never received: received {:?}, cancelled sends {:?}, {} recv futures cancelled", got, sr.cancelled, rr.cancels_pending));
        }
    }
    for g in &got {
        if *g != SENTINEL && !sr.completed.contains(g) && !sr.cancelled.contains(g) {
            return Err(format!("delivery #{g} was never sent"));
        }
    }
    if got.last() != Some(&SENTINEL) {
        return Err(format!("the sentinel was not the last delivery: {:?}", got));
    }
    // nothing extra
    simnet::settle().await;
    tokio::select! {
        biased;
        d = r.recv::<Body<Value>>() => {
            return Err(format!("an extra delivery arrived after the sentinel: {:?}", d.map(|d| idx_of(d.message()).map(|x| x.0))));
        }
        _ = tokio::time::sleep(std::time::Duration::from_millis(5)) => {}
    }
    let mfs = c.duo.max_frame_size[0].min(c.duo.max_frame_size[1]);
    let info = Info {
        send_cancels_pending: sr.cancels_pending,
        recv_cancels_pending: rr.cancels_pending,
        send_cancels_unpolled: sr.cancels_unpolled,
        recv_cancels_unpolled: rr.cancels_unpolled,
        multi_frame: c.sizes.iter().any(|s| s + 64 > mfs) || c.link.max_message_size.map(|m| c.sizes.iter().any(|s| *s as u64 + 20 > m)).unwrap_or(false),
        cancelled_delivered: sr.cancelled.iter().filter(|i| got.contains(i)).count() as u32,
    };
    drop((s, r));
    let _ = (&mut cs, &mut ls);
    Ok(info)
}

pub fn run_case(c: &Case, carve_partial: bool) -> Result<Info, String> {
    let (end, _alive) = simnet::run_case(c.duo.tokio_seed, run_async(c, carve_partial));
    match end {
        CaseEnd::Done(Err(e)) => Err(format!("{e}\n  wire:{}", simnet::describe_last_wire())),
        CaseEnd::Done(r) => r,
        CaseEnd::Hang => Err(format!("HANG: the exchange never completed although every remaining send/recv is polled without limit (virtual-time watchdog); wire so far:{}", simnet::describe_last_wire())),
    }
}

fn carve(c: &Case, open: &[String], excluded: &mut Vec<String>) -> Case {
    let mut c = c.clone();
    if open.iter().any(|o| o == "KF-receiver-accounting-on-take") && c.link.dir == 0 {
        // a listener-side receiver starts at the acceptor's 200 credits: a smaller Auto(n) is a credit
        // reduction with deliveries in flight
        if let Credit::Auto(n) = c.link.credit {
            if n < 200 {
                c.link.credit = Credit::Auto(200);
                excluded.push("KF-receiver-accounting-on-take".into());
            }
        }
    }
    if open.iter().any(|o| o == "KF-engine-channel-deadlock") {
        let mut hit = false;
        // the receiving side's link->session channel keeps its generated capacity (1, 2, 8, 2048) so that
        // the receiver's internal sends (flow, disposition) can be pending when its future is dropped;
        // with auto-accept that loses deliveries (KF-recv-cancel-auto-accept-loss), so there it is widened
        let auto_loss_open = open.iter().any(|o| o == "KF-recv-cancel-auto-accept-loss");
        let keep_rcv = !(c.link.auto_accept && auto_loss_open);
        let rcv_side = if c.link.dir == 0 { 1 } else { 0 };
        if !keep_rcv && c.duo.sess_buf[rcv_side] < 32 {
            excluded.push("KF-recv-cancel-auto-accept-loss".into());
        }
        for (i, b) in c.duo.conn_buf.iter_mut().enumerate().chain(c.duo.sess_buf.iter_mut().enumerate().map(|(i, b)| (i + 10, b))) {
            if keep_rcv && i == 10 + rcv_side {
                continue;
            }
            if *b < 32 {
                *b = 32;
                hit = true;
            }
        }
        // a session that answers every frame with a flow of its own is the other half of the deadlock shape
        // (and with deliveries of many frames no constant buffer size is enough): windows are not what C16 is about
        for w in c.duo.incoming_window.iter_mut().chain(c.duo.outgoing_window.iter_mut()) {
            if *w < 100 {
                *w = 100;
            }
        }
        if c.link.link_buf < 32 {
            c.link.link_buf = 32;
            hit = true;
        }
        if hit {
            excluded.push("KF-engine-channel-deadlock".into());
        }
    }
    c
}

fn case(ctx: &ShardCtx, c: &Case, obs: &mut Obs) -> Result<(), String> {
    let open = ctx.open_findings.clone();
    let c = &carve(c, &open, &mut obs.excluded);
    let carve_partial = open.iter().any(|o| o == "KF-send-cancel-partial-delivery");
    if carve_partial && c.sizes.iter().enumerate().any(|(i, sz)| carved_split(c, *sz) && c.send_budgets[i % c.send_budgets.len()] != 255) {
        obs.excluded.push("KF-send-cancel-partial-delivery".into());
    }
    match guarded(|| run_case(c, carve_partial)) {
        Ok(Ok(info)) => {
            if info.multi_frame {
                obs.class("multi-frame");
            }
            if info.send_cancels_pending > 0 {
                obs.class("send-dropped-while-pending");
            }
            if info.recv_cancels_pending > 0 {
                obs.class("recv-dropped-while-pending");
            }
            if info.send_cancels_unpolled + info.recv_cancels_unpolled > 0 {
                obs.class("dropped-unpolled");
            }
            if info.cancelled_delivered > 0 {
                obs.class("cancelled-send-was-delivered");
            }
            obs.class(if c.link.auto_accept { "auto-accept" } else { "manual-accept" });
            if info.send_cancels_pending + info.recv_cancels_pending > 0 {
                obs.nontrivial(c);
            }
            Ok(())
        }
        Ok(Err(e)) => {
            let rcv_side = if c.link.dir == 0 { 1 } else { 0 };
            // a cancelled link-split send over a roomy channel is not the situation of KF-send-cancel-partial-delivery
            let roomy_split = c.sizes.iter().enumerate().any(|(i, sz)| link_split(c, *sz) && roomy(c, *sz) && c.send_budgets[i % c.send_budgets.len()] != 255);
            let suffix = if roomy_split { ":roomy-channel" } else { "" };
            obs.signature = Some(format!("{}{suffix}", if e.starts_with("HANG") { if c.link.auto_accept && c.duo.sess_buf[rcv_side] < 32 { "hang:auto-accept-small-rcv-buffer".to_string() } else { "hang".to_string() } } else if e.contains("recv failed") { format!("recv-error:{}", e.rsplit(": ").next().unwrap_or("").split(|c: char| !c.is_alphanumeric()).next().unwrap_or("")) } else if e.contains("send") && e.contains("failed") { "send-error".to_string() } else { "delivery".to_string() }));
            Err(e)
        }
        Err(p) => {
            obs.signature = Some(if p.iter().all(|x| is_harness_panic(x)) { "harness-panic".into() } else { panic_signature(&p[0]) });
            Err(format!("panic: {}", p.join(" | ")))
        }
    }
}

fn run(ctx: &ShardCtx, rep: &mut Report) {
    MAX_SHRINK_ITERS.store(400, std::sync::atomic::Ordering::Relaxed);
    pt_run(ctx, rep, "cancel", ctx.budget(60_000, 3_000_000), case_strategy(), |c, o| case(ctx, c, o));
}

fn replay(variant: &str, case_json: &Json) -> Result<(), String> {
    let raw = variant.ends_with("!raw");
    let c: Case = serde_json::from_value(case_json.clone()).map_err(|e| format!("bad case: {e}"))?;
    let open = if raw { vec![] } else { crate::driver::open_ids_for("C16") };
    let c = carve(&c, &open, &mut vec![]);
    let carve_partial = open.iter().any(|o| o == "KF-send-cancel-partial-delivery");
    match guarded(|| run_case(&c, carve_partial)) {
        Ok(r) => r.map(|_| ()),
        Err(p) => Err(format!("panic: {}", p.join(" | "))),
    }
}
