//! C09 — receiver link credit: accurate accounting, enforcement and replenishment
use crate::driver::*;
use crate::duo;
use crate::gen;
use crate::peer::{self, as_bool, as_uint, ClientRig, Peer, RigCfg};
use crate::refcodec::RValue;
use crate::rframe::RFrame;
use crate::simnet::{self, CaseEnd, PipeCfg};
use fe2o3_amqp::link::delivery::Delivery;
use fe2o3_amqp::link::receiver::CreditMode;
use fe2o3_amqp::link::RecvError;
use fe2o3_amqp::types::messaging::Body;
use fe2o3_amqp::types::primitives::Value;
use fe2o3_amqp::Receiver;
use proptest::collection::vec;
use proptest::prelude::*;
use serde::{Deserialize, Serialize};
use serde_json::Value as Json;
use tokio::sync::{mpsc, oneshot};

pub fn meta() -> PropMeta {
    PropMeta {
        id: "C09",
        level: "exploration",
        rule: "a real Receiver (credit policy Auto(n), n in {1,2,3,4,10,200}, or Manual) talks to a scripted sender with an arbitrary initial-delivery-count (incl. values near 2^32); generated histories, executed step-wise: peer deliveries of 1-3 frames (unsettled or pre-settled; some with a payload that does not decode, which recv reports as MessageDecode and the application rejects through the carried info) sent only while the latest flow leaves credit, receiver with or without auto_accept, application recv+accept one by one, recv k then accept_all, reject, recv without disposing, set_credit(k), drain (under either policy), a peer flow restating its delivery-count, and finally optionally one delivery beyond the credit. Oracle: every flow from the receiver reports delivery-count in [initial + deliveries the application had received, initial + deliveries arrived] and link-credit equal to the policy's intent (set_credit value / Auto maximum on refresh / remaining credit on drain); whenever the application has received and disposed of everything that arrived under Auto(n), the latest flow leaves credit outstanding (a credit-respecting sender never stalls, streams of 6n+ deliveries complete); a delivery beyond the credit is not returned by recv: recv fails with TransferLimitExceeded and the detach carries amqp:link:transfer-limit-exceeded. Non-trivial: stream longer than the credit, or an overrun injected; distinct by hash of the case.",
        assumptions: &[
            "delivery-count in a flow may lie anywhere between the count the application had taken and the count that arrived (the code advances it when the application takes the delivery)",
            "replenishment is only claimed for applications that dispose of what they receive",
        ],
        nontrivial_floor: 0.3,
        run,
        replay,
        crashy: true,
    }
}

#[derive(Clone, Debug, Serialize, Deserialize, Hash)]
pub enum Op {
    /// peer sends deliveries while credit remains (at most n)
    PeerSend {
        n: u8,
        frames: u8,
        /// the deliveries are sent pre-settled
        #[serde(default)]
        settled: bool,
        /// the payload does not decode into the type the application asks for: recv reports
        /// MessageDecode and the application rejects the delivery through the info it carries
        #[serde(default)]
        bad: bool,
    },
    /// application receives one delivery and: 0 accepts, 1 rejects, 2 releases, 3 keeps it undisposed
    Recv { how: u8 },
    /// application receives k deliveries then accept_all
    RecvBatch { k: u8 },
    SetCredit(u32),
    Drain,
    /// peer restates its delivery-count in a flow
    PeerFlow,
    /// the same, also stating how many messages it has available
    PeerFlowAvail(u32),
}

#[derive(Clone, Debug, Serialize, Deserialize, Hash)]
pub struct Case {
    pub i0: u32,
    /// None = Manual
    pub auto: Option<u32>,
    pub ops: Vec<Op>,
    pub overrun_at_end: bool,
    pub rcv_settle_second: bool,
    /// the receiver accepts every delivery itself (auto_accept); the application only receives
    #[serde(default)]
    pub auto_accept: bool,
    pub tokio_seed: u64,
    pub choices: Vec<u8>,
    pub pipe: PipeCfg,
}

fn op() -> BoxedStrategy<Op> {
    prop_oneof![
        6 => (1u8..8, 1u8..4, prop::bool::weighted(0.3), prop::bool::weighted(0.12)).prop_map(|(n, frames, settled, bad)| Op::PeerSend { n, frames, settled, bad }),
        6 => prop_oneof![6 => Just(0u8), 1 => Just(1u8), 1 => Just(2u8), 1 => Just(3u8)].prop_map(|how| Op::Recv { how }),
        3 => (1u8..7).prop_map(|k| Op::RecvBatch { k }),
        2 => prop_oneof![Just(0u32), Just(1), Just(2), 3u32..12].prop_map(Op::SetCredit),
        1 => Just(Op::Drain),
        1 => Just(Op::PeerFlow),
        1 => prop_oneof![Just(0u32), Just(1), Just(7), Just(1000), Just(u32::MAX), any::<u32>()].prop_map(Op::PeerFlowAvail),
    ]
    .boxed()
}

pub fn case_strategy() -> BoxedStrategy<Case> {
    (
        duo::next_id(),
        prop_oneof![4 => prop_oneof![Just(1u32), Just(2), Just(3), Just(4), Just(10), Just(200)].prop_map(Some), 1 => Just(None)],
        vec(op(), 1..60),
        prop::bool::weighted(0.3),
        any::<bool>(),
        prop::bool::weighted(0.3),
        any::<u64>(),
        gen::choices_bytes(),
        simnet::strat::pipe_cfg(),
    )
        .prop_map(|(i0, auto, ops, overrun_at_end, rcv_settle_second, auto_accept, tokio_seed, choices, pipe)| Case { i0, auto, ops, overrun_at_end, rcv_settle_second, auto_accept, tokio_seed, choices, pipe: PipeCfg { cap: 1 << 22, ..pipe } })
        .boxed()
}

enum Cmd {
    Recv { n: usize, how: u8, batch: bool, done: oneshot::Sender<Result<usize, String>> },
    SetCredit(u32, oneshot::Sender<Result<(), String>>),
    Drain(oneshot::Sender<Result<(), String>>),
    /// one more recv that is expected to fail
    RecvExpectErr(oneshot::Sender<String>),
}

async fn app(mut r: Receiver, mut rx: mpsc::Receiver<Cmd>, auto_accept: bool) {
    let mut kept: Vec<Delivery<Body<Value>>> = Vec::new();
    while let Some(cmd) = rx.recv().await {
        match cmd {
            Cmd::Recv { n, how, batch, done } => {
                let mut got = Vec::new();
                let mut err = None;
                let mut undecodable = 0usize;
                for _ in 0..n {
                    match r.recv::<Body<Value>>().await {
                        Ok(d) => got.push(d),
                        Err(RecvError::MessageDecode(e)) => {
                            // the documented way to dispose of such a delivery
                            undecodable += 1;
                            if let Err(e) = r.reject(e.info, None).await {
                                err = Some(format!("rejecting an undecodable delivery failed: {e:?}"));
                                break;
                            }
                        }
                        Err(e) => {
                            err = Some(format!("recv failed: {e:?}"));
                            break;
                        }
                    }
                }
                if err.is_none() && !auto_accept {
                    let res = if batch {
                        r.accept_all(got.iter().collect::<Vec<_>>()).await
                    } else {
                        let mut res = Ok(());
                        for d in &got {
                            res = match how {
                                0 => r.accept(d).await,
                                1 => r.reject(d, None).await,
                                2 => r.release(d).await,
                                _ => Ok(()),
                            };
                            if res.is_err() {
                                break;
                            }
                        }
                        res
                    };
                    if let Err(e) = res {
                        err = Some(format!("disposition failed: {e:?}"));
                    }
                }
                let n = got.len() + undecodable;
                if how == 3 || auto_accept {
                    kept.extend(got);
                }
                let _ = done.send(match err {
                    None => Ok(n),
                    Some(e) => Err(e),
                });
            }
            Cmd::SetCredit(k, done) => {
                let _ = done.send(r.set_credit(k).await.map_err(|e| format!("set_credit failed: {e:?}")));
            }
            Cmd::Drain(done) => {
                let _ = done.send(r.drain().await.map_err(|e| format!("drain failed: {e:?}")));
            }
            Cmd::RecvExpectErr(done) => {
                let s = match r.recv::<Body<Value>>().await {
                    Ok(d) => format!("OK:{:?}", d.delivery_id()),
                    Err(RecvError::TransferLimitExceeded) => "TransferLimitExceeded".to_string(),
                    Err(e) => format!("ERR:{e:?}"),
                };
                let _ = done.send(s);
            }
        }
    }
    std::future::pending::<()>().await;
}

pub struct Info {
    pub long_stream: bool,
    pub overrun: bool,
    pub wrapped: bool,
    pub flows: usize,
    pub undecodable: bool,
    pub drain_skipped: bool,
}

pub async fn run_async(c: &Case, on_take_open: bool, excluded: &std::cell::Cell<u32>) -> Result<Info, String> {
    let cfg = RigCfg { pipe: c.pipe.clone(), choices: c.choices.clone(), peer_mfs: 4096, ..RigCfg::default() };
    let ClientRig { conn, mut sess, mut peer, my_ch, cfg, .. } = peer::client_rig(cfg).await?;
    let ph = 11u32;
    let mode = match c.auto {
        Some(n) => CreditMode::Auto(n),
        None => CreditMode::Manual,
    };
    let rsm = if c.rcv_settle_second { fe2o3_amqp::types::definitions::ReceiverSettleMode::Second } else { fe2o3_amqp::types::definitions::ReceiverSettleMode::First };
    let (receiver, att) = peer::answer_attach(
        &mut peer,
        my_ch,
        Receiver::builder().name("r").source("q").credit_mode(mode).receiver_settle_mode(rsm).auto_accept(c.auto_accept).attach(&mut sess),
        |a| Peer::attach_body("r", ph, false, None, as_uint(&a.field(4)).map(|x| x as u8).or(match a.field(4) { RValue::Ubyte(x) => Some(x), _ => None }), Some(c.i0), None, false),
        |_a| vec![],
    )
    .await?;
    let eh = as_uint(&att.field(1)).ok_or("attach without handle")?;
    let (tx, rx) = mpsc::channel(16);
    tokio::spawn(app(receiver, rx, c.auto_accept));

    // model
    let mut arrived: u64 = 0; // complete deliveries the peer sent
    let mut received: u64 = 0; // deliveries the application has taken
    let mut disposed_all = true; // has the app disposed of everything it received?
    let mut model_credit: Option<u64> = None; // receiver's credit variable (after the first flow)
    let mut limit: u64 = 0; // latest advertised delivery-count + link-credit, as offset from i0
    let mut next_delivery_id: u32 = cfg.peer_next_outgoing_id;
    let mut frames_sent: u64 = 0;
    let mut info = Info { long_stream: false, overrun: false, wrapped: false, flows: 0, undecodable: false, drain_skipped: false };
    let mut received_at_last_settle: u64 = 0;
    let mut policy_credit: Option<u64> = c.auto.map(|n| n as u64);
    // the next flow is the one an explicit drain() produces: only that one may carry drain=true
    let mut expect_drain = false;
    // under Auto a drain that the sender answered leaves the link without credit until the next refresh:
    // the no-stall assertion is suspended in between (the statement speaks of a stream, not of drain)
    let mut auto_drained = false;
    // credit the sender consumed by advancing its delivery-count in answer to a drain (deliveries that do not
    // exist): the sender's delivery-count is i0 + skip_total + arrived
    let mut skip_total: u64 = 0;
    // set between such an answer and the receiver's next flow: the receiver's own idea of the remaining credit
    // is not observable then, so the overrun phase (which needs the exact limit) is not run
    let mut limit_unknown = false;

    macro_rules! step {
        ($what:expr) => {{
            let frames: Vec<RFrame> = peer.new_frames().await;
            for f in &frames {
                match f.name() {
                    "flow" => {
                        let ff = f.fields();
                        if as_uint(&ff[4]) != Some(eh) {
                            continue;
                        }
                        info.flows += 1;
                        let fdc = as_uint(&ff[5]).ok_or_else(|| format!("{}: receiver's flow without delivery-count although the sender's attach carried one", $what))?;
                        let fcredit = as_uint(&ff[6]).ok_or_else(|| format!("{}: receiver's flow without link-credit", $what))? as u64;
                        let fdrain = as_bool(&ff[8]).unwrap_or(false);
                        if fdrain && !expect_drain {
                            return Err(format!("{}: a flow that was not caused by drain() carries drain=true (link-credit {}): the credit it grants is taken back at once by a sender that honours drain", $what, fcredit));
                        }
                        if !fdrain && expect_drain {
                            return Err(format!("{}: the flow produced by drain() does not carry drain=true", $what));
                        }
                        if !fdrain && fcredit > 0 {
                            auto_drained = false;
                        }
                        let off = fdc.wrapping_sub(c.i0).wrapping_sub(skip_total as u32) as u64;
                        limit_unknown = false;
                        if off < received_at_last_settle || off > arrived {
                            return Err(format!(
                                "{}: flow reports delivery-count {} but the sender's count was {} at attach, {} deliveries had been taken by the application before this step and {} have arrived (expected between {} and {})",
                                $what,
                                fdc,
                                c.i0,
                                received_at_last_settle,
                                arrived,
                                c.i0.wrapping_add(skip_total as u32).wrapping_add(received_at_last_settle as u32),
                                c.i0.wrapping_add(skip_total as u32).wrapping_add(arrived as u32)
                            ));
                        }
                        if let Some(want) = model_credit {
                            if fcredit != want {
                                return Err(format!("{}: flow reports link-credit {} but the policy implies {}", $what, fcredit, want));
                            }
                        }
                        limit = off + fcredit;
                        if c.i0 as u64 + skip_total + off > u32::MAX as u64 {
                            info.wrapped = true;
                        }
                    }
                    "disposition" => {}
                    "detach" => return Err(format!("{}: unexpected detach from the receiver: {:?}", $what, f.body)),
                    other => return Err(format!("{}: unexpected {} frame", $what, other)),
                }
            }
            received_at_last_settle = received;
        }};
    }

    // initial flow of the policy
    model_credit = match c.auto {
        Some(n) => Some(n as u64),
        None => None,
    };
    step!("after attach");
    let mut credit_var: u64 = match c.auto {
        Some(n) => n as u64,
        None => 0,
    };
    // processed counter of the auto policy (mirrors the documented top-up-at-half rule only for the
    // *expected credit value*, not for when a flow must be sent)
    for (k, op) in c.ops.iter().enumerate() {
        let what = format!("step {k} {:?}", op);
        match op {
            Op::PeerSend { n, frames, settled, bad } => {
                for _ in 0..*n {
                    if arrived >= limit {
                        break;
                    }
                    let tag = (arrived as u32).to_be_bytes();
                    let payload_full: Vec<u8> = if *bad {
                        // an amqp-value section whose string claims more bytes than the delivery carries
                        info.undecodable = true;
                        let mut p = vec![0x00, 0x53, 0x77, 0xa1, 200];
                        p.extend((0..24u8).map(|i| b'a' + (i % 26)));
                        p
                    } else {
                        let mut p = vec![0x00, 0x53, 0x77, 0xa0, 24];
                        p.extend((0..24u8).map(|i| i.wrapping_add(arrived as u8)));
                        p
                    };
                    let nf = (*frames as usize).max(1);
                    let chunk = (payload_full.len() + nf - 1) / nf;
                    for (i, part) in payload_full.chunks(chunk).enumerate() {
                        let last = (i + 1) * chunk >= payload_full.len();
                        let body = if i == 0 {
                            Peer::transfer_body(ph, Some(next_delivery_id), Some(&tag), Some(0), Some(*settled), !last, None, false)
                        } else {
                            Peer::transfer_body(ph, None, None, None, None, !last, None, false)
                        };
                        peer.send_frame(my_ch, &body, part).await?;
                        frames_sent += 1;
                    }
                    next_delivery_id = next_delivery_id.wrapping_add(1);
                    arrived += 1;
                }
                model_credit = None; // no flow expected from this op; if one comes its credit is checked below
                step!(what);
            }
            Op::Recv { how } | Op::RecvBatch { k: how } => {
                let (n, how, batch) = match op {
                    Op::Recv { how } => (1usize, *how, false),
                    _ => ((*how as usize).max(1), 0u8, true),
                };
                let n = n.min((arrived - received) as usize);
                if n == 0 {
                    continue;
                }
                // with auto_accept every recv disposes (and may refresh the credit) on its own: the batch is
                // executed one delivery at a time so that the model sees each refresh (likewise when undecodable
                // deliveries occur, which the application rejects as it meets them)
                let one_by_one = c.auto_accept || c.ops.iter().any(|o| matches!(o, Op::PeerSend { bad: true, .. }));
                let (reps, n) = if one_by_one { (n, 1usize) } else { (1usize, n) };
                for _rep in 0..reps {
                let (dtx, drx) = oneshot::channel();
                tx.send(Cmd::Recv { n, how, batch, done: dtx }).await.map_err(|_| "app gone".to_string())?;
                let got = match tokio::time::timeout(std::time::Duration::from_secs(10), drx).await {
                    Ok(Ok(r)) => r.map_err(|e| format!("{what}: {e}"))?,
                    Ok(Err(_)) => return Err(format!("{what}: app dropped reply")),
                    Err(_) => return Err(format!("{what}: recv of a delivery that has completely arrived did not return")),
                };
                received += got as u64;
                credit_var = credit_var.saturating_sub(got as u64);
                if how == 3 && !c.auto_accept {
                    disposed_all = false;
                }
                // a flow caused by this op (auto refresh) restores the policy's maximum
                model_credit = policy_credit;
                let before_flows = info.flows;
                step!(what);
                if info.flows > before_flows {
                    if let Some(p) = policy_credit {
                        credit_var = p;
                    }
                }
                // replenishment: an application that has taken and disposed of everything must leave
                // the sender with credit under an automatic policy
                if let Some(p) = policy_credit {
                    if p > 0 && disposed_all && received == arrived && limit <= arrived && !auto_drained {
                        return Err(format!(
                            "{}: the application has received and disposed of all {} deliveries under Auto({}) but the latest flow grants none beyond them (advertised limit {}): a credit-respecting sender is stalled",
                            what, arrived, p, limit
                        ));
                    }
                    if received > 6 * p {
                        info.long_stream = true;
                    }
                }
                }
            }
            Op::SetCredit(_) | Op::Drain if on_take_open && received < arrived => {
                // carve-out of KF-receiver-accounting-on-take: no credit changes while deliveries are buffered
                excluded.set(excluded.get() + 1);
            }
            Op::SetCredit(kc) => {
                let (dtx, drx) = oneshot::channel();
                tx.send(Cmd::SetCredit(*kc, dtx)).await.map_err(|_| "app gone".to_string())?;
                drx.await.map_err(|_| "app dropped reply".to_string())??;
                credit_var = *kc as u64;
                if policy_credit.is_some() {
                    policy_credit = Some(*kc as u64);
                }
                model_credit = Some(*kc as u64);
                let before = info.flows;
                step!(what);
                if info.flows == before {
                    return Err(format!("{what}: set_credit did not produce a flow"));
                }
            }
            Op::Drain => {
                let (dtx, drx) = oneshot::channel();
                tx.send(Cmd::Drain(dtx)).await.map_err(|_| "app gone".to_string())?;
                drx.await.map_err(|_| "app dropped reply".to_string())??;
                model_credit = Some(credit_var);
                expect_drain = true;
                step!(what);
                expect_drain = false;
                // (drain under Auto is outside the quantified domain of the no-stall clause: it also resets the
                // refresh counter, so the assertion resumes only after the next refresh)
                auto_drained = c.auto.is_some();
                // answer the drain: the peer gives the credit back
                let mut body = Peer::flow_body(
                    Some(cfg.ep_next_outgoing_id),
                    100_000,
                    cfg.peer_next_outgoing_id.wrapping_add(frames_sent as u32),
                    100_000,
                    Some(ph),
                    Some(c.i0.wrapping_add(skip_total as u32).wrapping_add(limit.max(arrived) as u32)),
                    Some(0),
                    true,
                    false,
                );
                // the sender may or may not say how many messages it has available (every other time)
                if k % 2 == 1 {
                    if let RValue::Described(_, l) = &mut body {
                        if let RValue::List(f) = &mut **l {
                            while f.len() < 8 {
                                f.push(RValue::Null);
                            }
                            f[7] = RValue::Uint(0);
                        }
                    }
                }
                // the drained credit advances the sender's count without deliveries: fold it into the model
                // by treating it as if the skipped deliveries do not exist (count origin moves)
                let skipped = limit.saturating_sub(arrived);
                if received == arrived || !on_take_open {
                    peer.send_frame(my_ch, &body, &[]).await?;
                    if skipped > 0 {
                        skip_total += skipped;
                        limit = arrived;
                        limit_unknown = true;
                        info.drain_skipped = true;
                    }
                    credit_var = 0;
                    model_credit = None;
                    auto_drained = c.auto.is_some();
                    step!(format!("{what} (peer's drain reply)"));
                }
                // (if credit was outstanding the peer simply keeps it: an unanswered drain is legal for a
                // sender that still has messages)
            }
            Op::PeerFlow | Op::PeerFlowAvail(_) => {
                let mut body = Peer::flow_body(
                    Some(cfg.ep_next_outgoing_id),
                    100_000,
                    cfg.peer_next_outgoing_id.wrapping_add(frames_sent as u32),
                    100_000,
                    Some(ph),
                    Some(c.i0.wrapping_add(skip_total as u32).wrapping_add(arrived as u32)),
                    Some(limit.saturating_sub(arrived) as u32),
                    false,
                    false,
                );
                if let (Op::PeerFlowAvail(av), RValue::Described(_, l)) = (op, &mut body) {
                    if let RValue::List(f) = &mut **l {
                        while f.len() < 8 {
                            f.push(RValue::Null);
                        }
                        f[7] = RValue::Uint(*av);
                    }
                }
                if received == arrived || !on_take_open {
                    // while KF-receiver-accounting-on-take is open: only restate the count when nothing is buffered
                    peer.send_frame(my_ch, &body, &[]).await?;
                    model_credit = None;
                    step!(what);
                }
            }
        }
    }
    // drain what has arrived
    while received < arrived {
        let (dtx, drx) = oneshot::channel();
        tx.send(Cmd::Recv { n: 1, how: 0, batch: false, done: dtx }).await.map_err(|_| "app gone".to_string())?;
        match tokio::time::timeout(std::time::Duration::from_secs(10), drx).await {
            Ok(Ok(r)) => {
                r?;
            }
            _ => return Err("final: recv of an arrived delivery did not return".into()),
        }
        received += 1;
        model_credit = policy_credit;
        step!("final drain of arrived deliveries");
    }
    // (with auto_accept under Auto the receiver re-issues credit while the application takes the deliveries
    // that are within credit, so no delivery stays beyond the credit: the overrun clause is exercised without it)
    if c.overrun_at_end && !(c.auto_accept && c.auto.is_some()) && !limit_unknown {
        // use up the remaining credit, then send one delivery too many
        let mut guard = 0;
        while arrived < limit && guard < 300 {
            guard += 1;
            let tag = (arrived as u32).to_be_bytes();
            let body = Peer::transfer_body(ph, Some(next_delivery_id), Some(&tag), Some(0), Some(true), false, None, false);
            peer.send_frame(my_ch, &body, &[0x00, 0x53, 0x77, 0x40]).await?;
            next_delivery_id = next_delivery_id.wrapping_add(1);
            arrived += 1;
        }
        if arrived >= limit {
            info.overrun = true;
            let tag = [0xee, 0xee];
            let body = Peer::transfer_body(ph, Some(next_delivery_id), Some(&tag), Some(0), Some(true), false, None, false);
            peer.send_frame(my_ch, &body, &[0x00, 0x53, 0x77, 0xa1, 7, b'o', b'v', b'e', b'r', b'r', b'u', b'n']).await?;
            // the application takes everything that is within credit (pre-settled: no flows expected to matter)
            let within = arrived - received;
            for _ in 0..within {
                let (dtx, drx) = oneshot::channel();
                tx.send(Cmd::Recv { n: 1, how: 3, batch: false, done: dtx }).await.map_err(|_| "app gone".to_string())?;
                match tokio::time::timeout(std::time::Duration::from_secs(10), drx).await {
                    Ok(Ok(Ok(_))) => {}
                    Ok(Ok(Err(e))) => return Err(format!("overrun phase: a delivery within credit failed: {e}")),
                    _ => return Err("overrun phase: recv of a delivery within credit did not return".into()),
                }
            }
            let (dtx, drx) = oneshot::channel();
            tx.send(Cmd::RecvExpectErr(dtx)).await.map_err(|_| "app gone".to_string())?;
            let outcome = match tokio::time::timeout(std::time::Duration::from_secs(10), drx).await {
                Ok(Ok(s)) => s,
                _ => return Err("overrun phase: recv after a delivery beyond the credit neither returned nor failed".into()),
            };
            if outcome != "TransferLimitExceeded" {
                return Err(format!("a delivery beyond the issued credit was not rejected as a transfer-limit violation: recv returned {outcome}"));
            }
            // (the library reports the violation through recv(); it does not detach on its own, and the
            // property statement does not require it to)
            let frames = peer.new_frames().await;
            if let Some(d) = frames.iter().find(|f| f.name() == "detach") {
                let err = d.field(2);
                let cond = match &err {
                    RValue::Described(_, l) => match &**l {
                        RValue::List(f) => f.first().cloned(),
                        _ => None,
                    },
                    _ => None,
                };
                if cond != Some(RValue::sym("amqp:link:transfer-limit-exceeded")) {
                    return Err(format!("detach after a credit overrun carries {:?} instead of amqp:link:transfer-limit-exceeded", err));
                }
                let _ = as_bool(&d.field(1));
            }
        }
    }
    drop(tx);
    let _ = (&conn, &sess);
    Ok(info)
}

pub fn run_case(c: &Case, on_take_open: bool, excluded: &std::cell::Cell<u32>) -> Result<Info, String> {
    match simnet::run_case(c.tokio_seed, run_async(c, on_take_open, excluded)).0 {
        CaseEnd::Done(r) => r,
        CaseEnd::Hang => Err(format!("HANG (virtual-time watchdog); wire so far:{}", simnet::describe_last_wire())),
    }
}

fn case(ctx: &ShardCtx, c: &Case, obs: &mut Obs) -> Result<(), String> {
    let open = ctx.is_open("KF-receiver-accounting-on-take");
    let excluded = std::cell::Cell::new(0u32);
    let r = guarded(|| run_case(c, open, &excluded));
    if excluded.get() > 0 {
        obs.excluded.push("KF-receiver-accounting-on-take".into());
    }
    match r {
        Ok(Ok(info)) => {
            for (b, n) in [(info.long_stream, "stream-longer-than-6x-credit"), (info.overrun, "overrun-injected"), (info.wrapped, "delivery-count-crossed-2^32"), (info.flows > 2, "several-flows-checked"), (info.undecodable, "undecodable-delivery"), (info.drain_skipped, "drain-answered-by-advancing-delivery-count"), (c.auto_accept, "auto-accept")] {
                if b {
                    obs.class(n);
                }
            }
            if info.long_stream || info.overrun || info.flows > 2 {
                obs.nontrivial(c);
            }
            Ok(())
        }
        Ok(Err(e)) => {
            obs.signature = Some(if e.contains("stalled") { "stall".into() } else if e.contains("delivery-count") { "delivery-count".into() } else { "receiver-credit".into() });
            Err(e)
        }
        Err(p) => {
            obs.signature = Some(panic_signature(&p[0]));
            Err(format!("panic: {}", p.join(" | ")))
        }
    }
}

fn run(ctx: &ShardCtx, rep: &mut Report) {
    MAX_SHRINK_ITERS.store(400, std::sync::atomic::Ordering::Relaxed);
    pt_run(ctx, rep, "receiver-peer", ctx.budget(100_000, 4_000_000), case_strategy(), |c, o| case(ctx, c, o));
}

fn replay(variant: &str, case_json: &Json) -> Result<(), String> {
    let c: Case = serde_json::from_value(case_json.clone()).map_err(|e| format!("bad case: {e}"))?;
    let open = !variant.ends_with("!raw") && open_ids_for("C09").iter().any(|o| o == "KF-receiver-accounting-on-take");
    run_case(&c, open, &std::cell::Cell::new(0)).map(|_| ())
}
