//! Typed protocol items: hand-written (serde-independent) construction of the Rust types
//! from a reference model, and the typed variants of the C03 / C05 / C20 oracles.
use crate::conv;
use crate::driver::*;
use crate::refcodec::{self, hex, Choices, RValue};
use crate::spec::{self, CompSpec};
use fe2o3_amqp_types::definitions::{self as defs, Fields, Handle, ReceiverSettleMode, Role, SenderSettleMode};
use fe2o3_amqp_types::messaging::{
    self as msg, Accepted, AmqpSequence, AmqpValue, ApplicationProperties, Body, Data, DeliveryAnnotations, DeliveryState, DistributionMode, Footer, Header, Message,
    MessageAnnotations, MessageId, Modified, Outcome, Priority, Properties, Received, Rejected, Released, Source, Target, TargetArchetype, TerminusDurability,
    TerminusExpiryPolicy,
};
use fe2o3_amqp_types::performatives::{Attach, Begin, ChannelMax, Close, Detach, Disposition, End, Flow, MaxFrameSize, Open, Performative, Transfer};
use fe2o3_amqp_types::primitives::SimpleValue;
use fe2o3_amqp_types::sasl::{SaslChallenge, SaslCode, SaslInit, SaslMechanisms, SaslOutcome, SaslResponse};
use fe2o3_amqp_types::transaction::{Coordinator, Declare, Declared, Discharge, TransactionalState, TxnCapability};
use proptest::prelude::*;
use serde::{de::DeserializeOwned, Serialize};
use serde_amqp::primitives::{Array, OrderedMap, Symbol, Timestamp};
use serde_amqp::Value;
use serde_bytes::ByteBuf;
use serde_json::Value as Json;
use std::fmt::Debug;

pub trait FromR: Sized {
    fn from_r(r: &RValue) -> Result<Self, String>;
}

fn bad<T>(what: &str, r: &RValue) -> Result<T, String> {
    Err(format!("HARNESS-BUG: model value {:?} is not a {}", r, what))
}

impl<T: FromR> FromR for Option<T> {
    fn from_r(r: &RValue) -> Result<Self, String> {
        match r {
            RValue::Null => Ok(None),
            x => T::from_r(x).map(Some),
        }
    }
}
impl<T: FromR> FromR for Box<T> {
    fn from_r(r: &RValue) -> Result<Self, String> {
        T::from_r(r).map(Box::new)
    }
}
impl FromR for String {
    fn from_r(r: &RValue) -> Result<Self, String> {
        match r {
            RValue::Str(s) => Ok(s.clone()),
            x => bad("string", x),
        }
    }
}
impl FromR for Symbol {
    fn from_r(r: &RValue) -> Result<Self, String> {
        match r {
            RValue::Sym(s) => Ok(Symbol::new(s.clone())),
            x => bad("symbol", x),
        }
    }
}
impl FromR for bool {
    fn from_r(r: &RValue) -> Result<Self, String> {
        match r {
            RValue::Bool(b) => Ok(*b),
            RValue::Null => Ok(false), // every defaulted boolean in the spec defaults to false
            x => bad("bool", x),
        }
    }
}
impl FromR for u8 {
    fn from_r(r: &RValue) -> Result<Self, String> {
        match r {
            RValue::Ubyte(b) => Ok(*b),
            x => bad("ubyte", x),
        }
    }
}
impl FromR for u16 {
    fn from_r(r: &RValue) -> Result<Self, String> {
        match r {
            RValue::Ushort(b) => Ok(*b),
            x => bad("ushort", x),
        }
    }
}
impl FromR for u32 {
    fn from_r(r: &RValue) -> Result<Self, String> {
        match r {
            RValue::Uint(b) => Ok(*b),
            RValue::Null => Ok(0), // defaulted uints (timeout, delivery-count) default to 0
            x => bad("uint", x),
        }
    }
}
impl FromR for u64 {
    fn from_r(r: &RValue) -> Result<Self, String> {
        match r {
            RValue::Ulong(b) => Ok(*b),
            x => bad("ulong", x),
        }
    }
}
impl FromR for ByteBuf {
    fn from_r(r: &RValue) -> Result<Self, String> {
        match r {
            RValue::Binary(b) => Ok(ByteBuf::from(b.clone())),
            x => bad("binary", x),
        }
    }
}
impl FromR for Timestamp {
    fn from_r(r: &RValue) -> Result<Self, String> {
        match r {
            RValue::Timestamp(t) => Ok(Timestamp::from_milliseconds(*t)),
            x => bad("timestamp", x),
        }
    }
}
impl FromR for Value {
    fn from_r(r: &RValue) -> Result<Self, String> {
        Ok(conv::to_value(r))
    }
}
impl FromR for Handle {
    fn from_r(r: &RValue) -> Result<Self, String> {
        match r {
            RValue::Uint(b) => Ok(Handle(*b)),
            RValue::Null => Ok(Handle(u32::MAX)), // handle-max default
            x => bad("handle", x),
        }
    }
}
impl FromR for MaxFrameSize {
    fn from_r(r: &RValue) -> Result<Self, String> {
        match r {
            RValue::Uint(b) => Ok(MaxFrameSize(*b)),
            RValue::Null => Ok(MaxFrameSize(u32::MAX)),
            x => bad("max-frame-size", x),
        }
    }
}
impl FromR for ChannelMax {
    fn from_r(r: &RValue) -> Result<Self, String> {
        match r {
            RValue::Ushort(b) => Ok(ChannelMax(*b)),
            RValue::Null => Ok(ChannelMax(u16::MAX)),
            x => bad("channel-max", x),
        }
    }
}
impl FromR for Priority {
    fn from_r(r: &RValue) -> Result<Self, String> {
        match r {
            RValue::Ubyte(b) => Ok(Priority(*b)),
            RValue::Null => Ok(Priority(4)),
            x => bad("priority", x),
        }
    }
}
impl FromR for Role {
    fn from_r(r: &RValue) -> Result<Self, String> {
        match r {
            RValue::Bool(false) => Ok(Role::Sender),
            RValue::Bool(true) => Ok(Role::Receiver),
            x => bad("role", x),
        }
    }
}
impl FromR for SenderSettleMode {
    fn from_r(r: &RValue) -> Result<Self, String> {
        match r {
            RValue::Ubyte(0) => Ok(SenderSettleMode::Unsettled),
            RValue::Ubyte(1) => Ok(SenderSettleMode::Settled),
            RValue::Ubyte(2) | RValue::Null => Ok(SenderSettleMode::Mixed),
            x => bad("snd-settle-mode", x),
        }
    }
}
impl FromR for ReceiverSettleMode {
    fn from_r(r: &RValue) -> Result<Self, String> {
        match r {
            RValue::Ubyte(0) | RValue::Null => Ok(ReceiverSettleMode::First),
            RValue::Ubyte(1) => Ok(ReceiverSettleMode::Second),
            x => bad("rcv-settle-mode", x),
        }
    }
}
impl FromR for TerminusDurability {
    fn from_r(r: &RValue) -> Result<Self, String> {
        match r {
            RValue::Uint(0) | RValue::Null => Ok(TerminusDurability::None),
            RValue::Uint(1) => Ok(TerminusDurability::Configuration),
            RValue::Uint(2) => Ok(TerminusDurability::UnsettledState),
            x => bad("terminus-durability", x),
        }
    }
}
impl FromR for TerminusExpiryPolicy {
    fn from_r(r: &RValue) -> Result<Self, String> {
        match r {
            RValue::Null => Ok(TerminusExpiryPolicy::SessionEnd),
            RValue::Sym(s) => match s.as_str() {
                "link-detach" => Ok(TerminusExpiryPolicy::LinkDetach),
                "session-end" => Ok(TerminusExpiryPolicy::SessionEnd),
                "connection-close" => Ok(TerminusExpiryPolicy::ConnectionClose),
                "never" => Ok(TerminusExpiryPolicy::Never),
                _ => bad("expiry-policy", r),
            },
            x => bad("expiry-policy", x),
        }
    }
}
impl FromR for DistributionMode {
    fn from_r(r: &RValue) -> Result<Self, String> {
        match r {
            RValue::Sym(s) if s == "move" => Ok(DistributionMode::Move),
            RValue::Sym(s) if s == "copy" => Ok(DistributionMode::Copy),
            x => bad("distribution-mode", x),
        }
    }
}
impl FromR for SaslCode {
    fn from_r(r: &RValue) -> Result<Self, String> {
        match r {
            RValue::Ubyte(0) => Ok(SaslCode::Ok),
            RValue::Ubyte(1) => Ok(SaslCode::Auth),
            RValue::Ubyte(2) => Ok(SaslCode::Sys),
            RValue::Ubyte(3) => Ok(SaslCode::SysPerm),
            RValue::Ubyte(4) => Ok(SaslCode::SysTemp),
            x => bad("sasl-code", x),
        }
    }
}
impl FromR for TxnCapability {
    fn from_r(r: &RValue) -> Result<Self, String> {
        match r {
            RValue::Sym(s) => match s.as_str() {
                "amqp:local-transactions" => Ok(TxnCapability::LocalTransactions),
                "amqp:distributed-transactions" => Ok(TxnCapability::DistributedTransactions),
                "amqp:promotable-transactions" => Ok(TxnCapability::PromotableTransactions),
                "amqp:multi-txns-per-ssn" => Ok(TxnCapability::MultiTxnsPerSsn),
                "amqp:multi-ssns-per-txn" => Ok(TxnCapability::MultiSsnsPerTxn),
                _ => bad("txn-capability", r),
            },
            x => bad("txn-capability", x),
        }
    }
}
impl FromR for defs::ErrorCondition {
    fn from_r(r: &RValue) -> Result<Self, String> {
        use defs::{AmqpError as A, ConnectionError as C, ErrorCondition as E, LinkError as L, SessionError as S};
        use fe2o3_amqp_types::transaction::TransactionError as T;
        let s = match r {
            RValue::Sym(s) => s.as_str(),
            x => return bad("error condition", x),
        };
        Ok(match s {
            "amqp:internal-error" => E::AmqpError(A::InternalError),
            "amqp:not-found" => E::AmqpError(A::NotFound),
            "amqp:unauthorized-access" => E::AmqpError(A::UnauthorizedAccess),
            "amqp:decode-error" => E::AmqpError(A::DecodeError),
            "amqp:resource-limit-exceeded" => E::AmqpError(A::ResourceLimitExceeded),
            "amqp:not-allowed" => E::AmqpError(A::NotAllowed),
            "amqp:invalid-field" => E::AmqpError(A::InvalidField),
            "amqp:not-implemented" => E::AmqpError(A::NotImplemented),
            "amqp:resource-locked" => E::AmqpError(A::ResourceLocked),
            "amqp:precondition-failed" => E::AmqpError(A::PreconditionFailed),
            "amqp:resource-deleted" => E::AmqpError(A::ResourceDeleted),
            "amqp:illegal-state" => E::AmqpError(A::IllegalState),
            "amqp:frame-size-too-small" => E::AmqpError(A::FrameSizeTooSmall),
            "amqp:connection:forced" => E::ConnectionError(C::ConnectionForced),
            "amqp:connection:framing-error" => E::ConnectionError(C::FramingError),
            "amqp:connection:redirect" => E::ConnectionError(C::Redirect),
            "amqp:session:window-violation" => E::SessionError(S::WindowViolation),
            "amqp:session:errant-link" => E::SessionError(S::ErrantLink),
            "amqp:session:handle-in-use" => E::SessionError(S::HandleInUse),
            "amqp:session:unattached-handle" => E::SessionError(S::UnattachedHandle),
            "amqp:link:detach-forced" => E::LinkError(L::DetachForced),
            "amqp:link:transfer-limit-exceeded" => E::LinkError(L::TransferLimitExceeded),
            "amqp:link:message-size-exceeded" => E::LinkError(L::MessageSizeExceeded),
            "amqp:link:redirect" => E::LinkError(L::Redirect),
            "amqp:link:stolen" => E::LinkError(L::Stolen),
            "amqp:transaction:unknown-id" => E::TransactionError(T::UnknownId),
            "amqp:transaction:rollback" => E::TransactionError(T::Rollback),
            "amqp:transaction:timeout" => E::TransactionError(T::Timeout),
            other => E::Custom(Symbol::new(other.to_string())),
        })
    }
}

/// `multiple` field: single value or array; the canonical typed form of an empty array is None
fn multi_from<T: FromR>(r: &RValue) -> Result<Option<Array<T>>, String> {
    match r {
        RValue::Null => Ok(None),
        RValue::Array(a) if a.is_empty() => Ok(None),
        RValue::Array(a) => Ok(Some(Array(a.iter().map(T::from_r).collect::<Result<Vec<_>, _>>()?))),
        single => Ok(Some(Array(vec![T::from_r(single)?]))),
    }
}
struct Multi<T>(Option<Array<T>>);
impl<T: FromR> FromR for Multi<T> {
    fn from_r(r: &RValue) -> Result<Self, String> {
        multi_from(r).map(Multi)
    }
}

impl<K: FromR + std::hash::Hash + Eq, V: FromR> FromR for OrderedMap<K, V> {
    fn from_r(r: &RValue) -> Result<Self, String> {
        match r {
            RValue::Map(p) => {
                let mut m = OrderedMap::new();
                for (k, v) in p {
                    m.insert(K::from_r(k)?, V::from_r(v)?);
                }
                Ok(m)
            }
            x => bad("map", x),
        }
    }
}
impl FromR for msg::annotations::OwnedKey {
    fn from_r(r: &RValue) -> Result<Self, String> {
        match r {
            RValue::Sym(s) => Ok(msg::annotations::OwnedKey::Symbol(Symbol::new(s.clone()))),
            RValue::Ulong(u) => Ok(msg::annotations::OwnedKey::Ulong(*u)),
            x => bad("annotation key", x),
        }
    }
}
impl FromR for SimpleValue {
    fn from_r(r: &RValue) -> Result<Self, String> {
        SimpleValue::try_from(conv::to_value(r)).map_err(|_| format!("HARNESS-BUG: not a simple value {:?}", r))
    }
}
impl FromR for MessageId {
    fn from_r(r: &RValue) -> Result<Self, String> {
        match r {
            RValue::Ulong(u) => Ok(MessageId::Ulong(*u)),
            RValue::Uuid(u) => Ok(MessageId::Uuid(serde_amqp::primitives::Uuid::from(*u))),
            RValue::Binary(b) => Ok(MessageId::Binary(ByteBuf::from(b.clone()))),
            RValue::Str(s) => Ok(MessageId::String(s.clone())),
            x => bad("message-id", x),
        }
    }
}

/// split a composite model into (descriptor code, full-length field vector)
fn fields_of(r: &RValue, spec: &CompSpec) -> Result<Vec<RValue>, String> {
    match r {
        RValue::Described(d, inner) => {
            let ok = match &**d {
                RValue::Ulong(c) => *c == spec.code,
                RValue::Sym(s) => s == spec.name,
                _ => false,
            };
            if !ok {
                return bad(spec.name, r);
            }
            match &**inner {
                RValue::List(f) => {
                    let mut f = f.clone();
                    while f.len() < spec.fields.len() {
                        f.push(RValue::Null);
                    }
                    Ok(f)
                }
                x => bad("composite list", x),
            }
        }
        x => bad(spec.name, x),
    }
}

fn code_of(r: &RValue) -> Option<u64> {
    match r {
        RValue::Described(d, _) => match &**d {
            RValue::Ulong(c) => Some(*c),
            RValue::Sym(s) => spec::spec_by_name(s).map(|s| s.code),
            _ => None,
        },
        _ => None,
    }
}

macro_rules! g {
    ($f:expr, $i:expr) => {
        FromR::from_r(&$f[$i])?
    };
}

macro_rules! comp_from {
    ($ty:ty, $spec:expr, |$f:ident| $body:expr) => {
        impl FromR for $ty {
            fn from_r(r: &RValue) -> Result<Self, String> {
                let $f = fields_of(r, $spec)?;
                Ok($body)
            }
        }
    };
}

comp_from!(defs::Error, &spec::ERROR, |f| defs::Error {
    condition: g!(f, 0),
    description: g!(f, 1),
    info: g!(f, 2),
});
comp_from!(Open, &spec::OPEN, |f| Open {
    container_id: g!(f, 0),
    hostname: g!(f, 1),
    max_frame_size: g!(f, 2),
    channel_max: g!(f, 3),
    idle_time_out: g!(f, 4),
    outgoing_locales: Multi::from_r(&f[5])?.0,
    incoming_locales: Multi::from_r(&f[6])?.0,
    offered_capabilities: Multi::from_r(&f[7])?.0,
    desired_capabilities: Multi::from_r(&f[8])?.0,
    properties: g!(f, 9),
});
comp_from!(Begin, &spec::BEGIN, |f| Begin {
    remote_channel: g!(f, 0),
    next_outgoing_id: g!(f, 1),
    incoming_window: g!(f, 2),
    outgoing_window: g!(f, 3),
    handle_max: g!(f, 4),
    offered_capabilities: Multi::from_r(&f[5])?.0,
    desired_capabilities: Multi::from_r(&f[6])?.0,
    properties: g!(f, 7),
});
comp_from!(Attach, &spec::ATTACH, |f| Attach {
    name: g!(f, 0),
    handle: g!(f, 1),
    role: g!(f, 2),
    snd_settle_mode: g!(f, 3),
    rcv_settle_mode: g!(f, 4),
    source: g!(f, 5),
    target: g!(f, 6),
    unsettled: g!(f, 7),
    incomplete_unsettled: g!(f, 8),
    initial_delivery_count: g!(f, 9),
    max_message_size: g!(f, 10),
    offered_capabilities: Multi::from_r(&f[11])?.0,
    desired_capabilities: Multi::from_r(&f[12])?.0,
    properties: g!(f, 13),
});
comp_from!(Flow, &spec::FLOW, |f| Flow {
    next_incoming_id: g!(f, 0),
    incoming_window: g!(f, 1),
    next_outgoing_id: g!(f, 2),
    outgoing_window: g!(f, 3),
    handle: g!(f, 4),
    delivery_count: g!(f, 5),
    link_credit: g!(f, 6),
    available: g!(f, 7),
    drain: g!(f, 8),
    echo: g!(f, 9),
    properties: g!(f, 10),
});
comp_from!(Transfer, &spec::TRANSFER, |f| Transfer {
    handle: g!(f, 0),
    delivery_id: g!(f, 1),
    delivery_tag: g!(f, 2),
    message_format: g!(f, 3),
    settled: g!(f, 4),
    more: g!(f, 5),
    rcv_settle_mode: g!(f, 6),
    state: g!(f, 7),
    resume: g!(f, 8),
    aborted: g!(f, 9),
    batchable: g!(f, 10),
});
comp_from!(Disposition, &spec::DISPOSITION, |f| Disposition {
    role: g!(f, 0),
    first: g!(f, 1),
    last: g!(f, 2),
    settled: g!(f, 3),
    state: g!(f, 4),
    batchable: g!(f, 5),
});
comp_from!(Detach, &spec::DETACH, |f| Detach {
    handle: g!(f, 0),
    closed: g!(f, 1),
    error: g!(f, 2),
});
comp_from!(End, &spec::END, |f| End { error: g!(f, 0) });
comp_from!(Close, &spec::CLOSE, |f| Close { error: g!(f, 0) });
comp_from!(Received, &spec::RECEIVED, |f| Received {
    section_number: g!(f, 0),
    section_offset: g!(f, 1),
});
comp_from!(Accepted, &spec::ACCEPTED, |_f| Accepted {});
comp_from!(Rejected, &spec::REJECTED, |f| Rejected { error: g!(f, 0) });
comp_from!(Released, &spec::RELEASED, |_f| Released {});
comp_from!(Modified, &spec::MODIFIED, |f| Modified {
    delivery_failed: g!(f, 0),
    undeliverable_here: g!(f, 1),
    message_annotations: g!(f, 2),
});
comp_from!(Declared, &spec::DECLARED, |f| Declared { txn_id: g!(f, 0) });
comp_from!(TransactionalState, &spec::TXN_STATE, |f| TransactionalState {
    txn_id: g!(f, 0),
    outcome: g!(f, 1),
});
comp_from!(Source, &spec::SOURCE, |f| Source {
    address: g!(f, 0),
    durable: g!(f, 1),
    expiry_policy: g!(f, 2),
    timeout: g!(f, 3),
    dynamic: g!(f, 4),
    dynamic_node_properties: g!(f, 5),
    distribution_mode: g!(f, 6),
    filter: g!(f, 7),
    default_outcome: g!(f, 8),
    outcomes: Multi::from_r(&f[9])?.0,
    capabilities: Multi::from_r(&f[10])?.0,
});
comp_from!(Target, &spec::TARGET, |f| Target {
    address: g!(f, 0),
    durable: g!(f, 1),
    expiry_policy: g!(f, 2),
    timeout: g!(f, 3),
    dynamic: g!(f, 4),
    dynamic_node_properties: g!(f, 5),
    capabilities: Multi::from_r(&f[6])?.0,
});
comp_from!(Coordinator, &spec::COORDINATOR, |f| Coordinator {
    capabilities: Multi::from_r(&f[0])?.0,
});
comp_from!(SaslMechanisms, &spec::SASL_MECHANISMS, |f| SaslMechanisms {
    sasl_server_mechanisms: match &f[0] {
        RValue::Array(a) => Array(a.iter().map(Symbol::from_r).collect::<Result<Vec<_>, _>>()?),
        single => Array(vec![Symbol::from_r(single)?]),
    },
});
comp_from!(SaslInit, &spec::SASL_INIT, |f| SaslInit {
    mechanism: g!(f, 0),
    initial_response: g!(f, 1),
    hostname: g!(f, 2),
});
comp_from!(SaslChallenge, &spec::SASL_CHALLENGE, |f| SaslChallenge { challenge: g!(f, 0) });
comp_from!(SaslResponse, &spec::SASL_RESPONSE, |f| SaslResponse { response: g!(f, 0) });
comp_from!(SaslOutcome, &spec::SASL_OUTCOME, |f| SaslOutcome {
    code: g!(f, 0),
    additional_data: g!(f, 1),
});
comp_from!(Declare, &spec::DECLARE, |f| Declare { global_id: g!(f, 0) });
comp_from!(Discharge, &spec::DISCHARGE, |f| Discharge {
    txn_id: g!(f, 0),
    fail: g!(f, 1),
});
comp_from!(Header, &spec::HEADER, |f| Header {
    durable: g!(f, 0),
    priority: g!(f, 1),
    ttl: g!(f, 2),
    first_acquirer: g!(f, 3),
    delivery_count: g!(f, 4),
});
comp_from!(Properties, &spec::PROPERTIES, |f| Properties {
    message_id: g!(f, 0),
    user_id: g!(f, 1),
    to: g!(f, 2),
    subject: g!(f, 3),
    reply_to: g!(f, 4),
    correlation_id: g!(f, 5),
    content_type: g!(f, 6),
    content_encoding: g!(f, 7),
    absolute_expiry_time: g!(f, 8),
    creation_time: g!(f, 9),
    group_id: g!(f, 10),
    group_sequence: g!(f, 11),
    reply_to_group_id: g!(f, 12),
});

impl FromR for Outcome {
    fn from_r(r: &RValue) -> Result<Self, String> {
        match code_of(r) {
            Some(0x24) => Ok(Outcome::Accepted(FromR::from_r(r)?)),
            Some(0x25) => Ok(Outcome::Rejected(FromR::from_r(r)?)),
            Some(0x26) => Ok(Outcome::Released(FromR::from_r(r)?)),
            Some(0x27) => Ok(Outcome::Modified(FromR::from_r(r)?)),
            Some(0x33) => Ok(Outcome::Declared(FromR::from_r(r)?)),
            _ => bad("outcome", r),
        }
    }
}
impl FromR for DeliveryState {
    fn from_r(r: &RValue) -> Result<Self, String> {
        match code_of(r) {
            Some(0x23) => Ok(DeliveryState::Received(FromR::from_r(r)?)),
            Some(0x24) => Ok(DeliveryState::Accepted(FromR::from_r(r)?)),
            Some(0x25) => Ok(DeliveryState::Rejected(FromR::from_r(r)?)),
            Some(0x26) => Ok(DeliveryState::Released(FromR::from_r(r)?)),
            Some(0x27) => Ok(DeliveryState::Modified(FromR::from_r(r)?)),
            Some(0x33) => Ok(DeliveryState::Declared(FromR::from_r(r)?)),
            Some(0x34) => Ok(DeliveryState::TransactionalState(FromR::from_r(r)?)),
            _ => bad("delivery-state", r),
        }
    }
}
impl FromR for TargetArchetype {
    fn from_r(r: &RValue) -> Result<Self, String> {
        match code_of(r) {
            Some(0x29) => Ok(TargetArchetype::Target(FromR::from_r(r)?)),
            Some(0x30) => Ok(TargetArchetype::Coordinator(FromR::from_r(r)?)),
            _ => bad("target", r),
        }
    }
}
impl FromR for Performative {
    fn from_r(r: &RValue) -> Result<Self, String> {
        match code_of(r) {
            Some(0x10) => Ok(Performative::Open(FromR::from_r(r)?)),
            Some(0x11) => Ok(Performative::Begin(FromR::from_r(r)?)),
            Some(0x12) => Ok(Performative::Attach(FromR::from_r(r)?)),
            Some(0x13) => Ok(Performative::Flow(FromR::from_r(r)?)),
            Some(0x14) => Ok(Performative::Transfer(FromR::from_r(r)?)),
            Some(0x15) => Ok(Performative::Disposition(FromR::from_r(r)?)),
            Some(0x16) => Ok(Performative::Detach(FromR::from_r(r)?)),
            Some(0x17) => Ok(Performative::End(FromR::from_r(r)?)),
            Some(0x18) => Ok(Performative::Close(FromR::from_r(r)?)),
            _ => bad("performative", r),
        }
    }
}

// ---------------------------------------------------------------------------
// messages: the model is the list of sections

pub fn message_from_sections(sections: &[RValue]) -> Result<Message<Body<Value>>, String> {
    let mut m = Message {
        header: None,
        delivery_annotations: None,
        message_annotations: None,
        properties: None,
        application_properties: None,
        body: Body::Empty,
        footer: None,
    };
    let mut datas: Vec<Data> = Vec::new();
    let mut seqs: Vec<AmqpSequence<Value>> = Vec::new();
    for s in sections {
        let inner = match s {
            RValue::Described(_, v) => &**v,
            x => return bad("section", x),
        };
        match code_of(s) {
            Some(0x70) => m.header = Some(FromR::from_r(s)?),
            Some(0x71) => m.delivery_annotations = Some(DeliveryAnnotations(FromR::from_r(inner)?)),
            Some(0x72) => m.message_annotations = Some(MessageAnnotations(FromR::from_r(inner)?)),
            Some(0x73) => m.properties = Some(FromR::from_r(s)?),
            Some(0x74) => m.application_properties = Some(ApplicationProperties(FromR::from_r(inner)?)),
            Some(0x75) => datas.push(Data(FromR::from_r(inner)?)),
            Some(0x76) => match inner {
                RValue::List(l) => seqs.push(AmqpSequence(l.iter().map(conv::to_value).collect())),
                x => return bad("sequence", x),
            },
            Some(0x77) => m.body = Body::Value(AmqpValue(conv::to_value(inner))),
            Some(0x78) => m.footer = Some(Footer(FromR::from_r(inner)?)),
            _ => return bad("message section", s),
        }
    }
    if !datas.is_empty() {
        m.body = Body::Data(datas.into());
    } else if !seqs.is_empty() {
        m.body = Body::Sequence(seqs.into());
    }
    Ok(m)
}

fn annotations_strategy() -> BoxedStrategy<RValue> {
    let key = prop_oneof!["[a-z-]{1,10}".prop_map(RValue::Sym), crate::gen::u64_edge().prop_map(RValue::Ulong)];
    proptest::collection::vec((key, crate::gen::rvalue(crate::gen::GenCfg { depth: 2, breadth: 3, big: false, size: 8 })), 0..4)
        .prop_map(|pairs| {
            let mut seen = std::collections::HashSet::new();
            RValue::Map(pairs.into_iter().filter(|(k, _)| seen.insert(k.clone())).collect())
        })
        .boxed()
}

fn app_props_strategy() -> BoxedStrategy<RValue> {
    // simple values only: no list/map/array (spec 3.2.5)
    proptest::collection::vec((crate::gen::string_strategy(false), crate::gen::any_prim(false)), 0..4)
        .prop_map(|pairs| {
            let mut seen = std::collections::HashSet::new();
            RValue::Map(pairs.into_iter().filter(|(k, _)| seen.insert(k.clone())).map(|(k, v)| (RValue::Str(k), v)).collect())
        })
        .boxed()
}

fn opt<T: Strategy<Value = RValue> + 'static>(s: T) -> BoxedStrategy<Option<RValue>> {
    prop_oneof![Just(None), s.prop_map(Some)].boxed()
}

/// sections of a message with every subset of optional sections and every body kind
pub fn message_sections(body_value: BoxedStrategy<RValue>) -> BoxedStrategy<Vec<RValue>> {
    let sec = |code: u64, v: RValue| RValue::described(RValue::Ulong(code), v);
    let body = prop_oneof![
        3 => body_value.clone().prop_map(move |v| vec![RValue::described(RValue::Ulong(0x77), v)]),
        2 => proptest::collection::vec(crate::gen::binary_strategy(false), 1..4).prop_map(|d| d.into_iter().map(|b| RValue::described(RValue::Ulong(0x75), RValue::Binary(b))).collect::<Vec<_>>()),
        2 => proptest::collection::vec(proptest::collection::vec(body_value.clone(), 0..4), 1..3).prop_map(|s| s.into_iter().map(|l| RValue::described(RValue::Ulong(0x76), RValue::List(l))).collect::<Vec<_>>()),
    ];
    (
        opt(spec::composite_value(&spec::HEADER, 1)),
        opt(annotations_strategy().prop_map(move |m| sec(0x71, m))),
        opt(annotations_strategy().prop_map(move |m| sec(0x72, m))),
        opt(spec::composite_value(&spec::PROPERTIES, 1)),
        opt(app_props_strategy().prop_map(move |m| sec(0x74, m))),
        body,
        opt(annotations_strategy().prop_map(move |m| sec(0x78, m))),
    )
        .prop_map(|(h, da, ma, p, ap, body, f)| {
            let mut v = Vec::new();
            v.extend(h);
            v.extend(da);
            v.extend(ma);
            v.extend(p);
            v.extend(ap);
            v.extend(body);
            v.extend(f);
            v
        })
        .boxed()
}

// ---------------------------------------------------------------------------
// typed oracles

#[derive(Clone, Copy, Debug, PartialEq, Eq)]
pub enum Mode {
    RoundTrip,
    ImplToRef,
    RefToImpl,
    EntryPoints,
}

#[derive(Default)]
pub struct Info {
    pub present: usize,
    pub absent: usize,
    pub nondefault_choices: usize,
    pub map_form: bool,
}

fn dbg<T: Debug>(t: &T) -> String {
    format!("{:?}", t)
}

fn presence(model: &RValue) -> (usize, usize) {
    match model {
        RValue::Described(_, inner) => match &**inner {
            RValue::List(f) => {
                let p = f.iter().filter(|x| !matches!(x, RValue::Null)).count();
                (p, f.len() - p)
            }
            _ => (1, 0),
        },
        _ => (0, 0),
    }
}

thread_local! {
    /// set while the open known finding KF-from-value-composite excludes the from_value sub-oracle
    pub static SKIP_FROM_VALUE: std::cell::Cell<bool> = std::cell::Cell::new(false);
    /// set while an open known finding forbids zero-width array element constructors
    pub static AVOID_ZERO_WIDTH: std::cell::Cell<bool> = std::cell::Cell::new(false);
    /// exploration switch (VERIF_C05_MAPFORM=1): also send list composites as described maps keyed by field
    /// names. Off by default: such a form is not a spec-valid encoding of a list composite, and serde_amqp
    /// selects list or map access from the type's declared encoding, so the implementation refuses it
    /// ("Expecting a list") although the derive documentation says either form is taken (DESIGN 6.2, observations).
    pub static MAP_FORM: std::cell::Cell<bool> = std::cell::Cell::new(std::env::var_os("VERIF_C05_MAPFORM").is_some());
}

fn choices(knobs: &[u8]) -> Choices {
    let mut ch = Choices::new(knobs.to_vec());
    ch.avoid_zero_width_elems = AVOID_ZERO_WIDTH.with(|a| a.get());
    ch
}

pub fn check_typed<T>(mode: Mode, spec: &'static CompSpec, model: &RValue, knobs: &[u8]) -> Result<Info, String>
where
    T: FromR + Serialize + DeserializeOwned + Debug,
{
    let x = T::from_r(model)?;
    let (present, absent) = presence(model);
    let mut info = Info { present, absent, nondefault_choices: 0, map_form: false };
    let bytes = serde_amqp::to_vec(&x).map_err(|e| format!("to_vec failed: {e} for {x:?}"))?;
    match mode {
        Mode::RoundTrip => {
            let d: T = serde_amqp::from_slice(&bytes).map_err(|e| format!("from_slice failed: {e}; x={x:?} bytes={}", hex(&bytes)))?;
            if dbg(&d) != dbg(&x) {
                return Err(format!("from_slice(to_vec(x)) != x:\n x={x:?}\n d={d:?}\n bytes={}", hex(&bytes)));
            }
            let d2: T = serde_amqp::from_reader(&bytes[..]).map_err(|e| format!("from_reader failed: {e}; x={x:?} bytes={}", hex(&bytes)))?;
            if dbg(&d2) != dbg(&x) {
                return Err(format!("from_reader(to_vec(x)) != x:\n x={x:?}\n d={d2:?}"));
            }
            let b2 = serde_amqp::to_vec(&d).map_err(|e| format!("re-encode failed: {e}"))?;
            if b2 != bytes {
                return Err(format!("re-encoding differs: {} vs {}", hex(&bytes), hex(&b2)));
            }
        }
        Mode::ImplToRef => {
            let back = refcodec::decode_strict(&bytes).map_err(|e| format!("encoding is not valid AMQP 1.0: {e:?}; x={x:?} bytes={}", hex(&bytes)))?;
            let a = spec::canon_composite_as(spec, &back);
            let b = spec::canon_composite_as(spec, model);
            if a != b {
                return Err(format!("reference decoder reads a different {}:\n expected {b:?}\n got      {a:?}\n bytes={}", spec.name, hex(&bytes)));
            }
        }
        Mode::RefToImpl => {
            let variant = spec::vary_composite(spec, model, knobs);
            let mut ch = choices(knobs);
            let vb = refcodec::encode(&variant, &mut ch);
            info.nondefault_choices = ch.nondefault + (variant != *model) as usize;
            let d: T = serde_amqp::from_slice(&vb).map_err(|e| format!("valid encoding of {} rejected by from_slice: {e}\n model={variant:?}\n bytes={}", spec.name, hex(&vb)))?;
            if dbg(&d) != dbg(&x) {
                return Err(format!("valid encoding decodes to a different {}:\n expected {x:?}\n got      {d:?}\n bytes={}", spec.name, hex(&vb)));
            }
            let d2: T = serde_amqp::from_reader(&vb[..]).map_err(|e| format!("valid encoding of {} rejected by from_reader: {e}; bytes={}", spec.name, hex(&vb)))?;
            if dbg(&d2) != dbg(&x) {
                return Err(format!("from_reader decodes a different {}:\n expected {x:?}\n got      {d2:?}", spec.name));
            }
            // list-vs-map composite form: the same composite sent as a described map keyed by field names
            if MAP_FORM.with(|m| m.get()) && knobs.first().map(|k| k % 4 == 2).unwrap_or(false) {
                if let Some(mv) = spec::map_form(spec, model, knobs) {
                    let mut ch = choices(knobs);
                    let mb = refcodec::encode(&mv, &mut ch);
                    info.nondefault_choices += 1;
                    info.map_form = true;
                    let d: T = serde_amqp::from_slice(&mb).map_err(|e| format!("map form of {} rejected by from_slice: {e}\n model={mv:?}\n bytes={}", spec.name, hex(&mb)))?;
                    if dbg(&d) != dbg(&x) {
                        return Err(format!("map form decodes to a different {}:\n expected {x:?}\n got      {d:?}\n bytes={}", spec.name, hex(&mb)));
                    }
                    let d2: T = serde_amqp::from_reader(&mb[..]).map_err(|e| format!("map form of {} rejected by from_reader: {e}; bytes={}", spec.name, hex(&mb)))?;
                    if dbg(&d2) != dbg(&x) {
                        return Err(format!("from_reader decodes the map form to a different {}:\n expected {x:?}\n got      {d2:?}", spec.name));
                    }
                }
            }
        }
        Mode::EntryPoints => {
            let n = serde_amqp::serialized_size(&x).map_err(|e| format!("serialized_size failed: {e}"))?;
            if n != bytes.len() {
                return Err(format!("serialized_size={} but to_vec length={} for {x:?}", n, bytes.len()));
            }
            let v = serde_amqp::to_value(&x).map_err(|e| format!("to_value failed: {e} for {x:?}"))?;
            let via_bytes: Value = serde_amqp::from_slice(&bytes).map_err(|e| format!("from_slice::<Value> of to_vec(x) failed: {e}; bytes={}", hex(&bytes)))?;
            // compare through the model canonical form so that trailing-null elision does not matter
            let a = spec::canon_composite_as(spec, &conv::from_value(&v));
            let b = spec::canon_composite_as(spec, &conv::from_value(&via_bytes));
            if a != b {
                return Err(format!("to_value(x) differs from decoding to_vec(x) as Value:\n to_value: {v:?}\n bytes:    {via_bytes:?}"));
            }
            if !SKIP_FROM_VALUE.with(|a| a.get()) {
                let back: T = serde_amqp::from_value(v.clone()).map_err(|e| format!("from_value(to_value(x)) failed: {e}; value={v:?}"))?;
                if dbg(&back) != dbg(&x) {
                    return Err(format!("from_value(to_value(x)) != x:\n x={x:?}\n got={back:?}"));
                }
                let back2: T = serde_amqp::from_value(via_bytes.clone()).map_err(|e| format!("from_value(decoded bytes) failed: {e}; value={via_bytes:?}"))?;
                if dbg(&back2) != dbg(&x) {
                    return Err(format!("from_value(from_slice::<Value>(to_vec(x))) != x:\n x={x:?}\n got={back2:?}"));
                }
            }
        }
    }
    Ok(info)
}

pub struct TypedKind {
    pub name: &'static str,
    pub spec: &'static CompSpec,
    pub check: fn(Mode, &'static CompSpec, &RValue, &[u8]) -> Result<Info, String>,
}

macro_rules! kind {
    ($name:expr, $spec:expr, $ty:ty) => {
        TypedKind { name: $name, spec: $spec, check: check_typed::<$ty> }
    };
}

pub fn kinds() -> Vec<TypedKind> {
    vec![
        kind!("open", &spec::OPEN, Open),
        kind!("begin", &spec::BEGIN, Begin),
        kind!("attach", &spec::ATTACH, Attach),
        kind!("flow", &spec::FLOW, Flow),
        kind!("transfer", &spec::TRANSFER, Transfer),
        kind!("disposition", &spec::DISPOSITION, Disposition),
        kind!("detach", &spec::DETACH, Detach),
        kind!("end", &spec::END, End),
        kind!("close", &spec::CLOSE, Close),
        kind!("performative:open", &spec::OPEN, Performative),
        kind!("performative:begin", &spec::BEGIN, Performative),
        kind!("performative:attach", &spec::ATTACH, Performative),
        kind!("performative:flow", &spec::FLOW, Performative),
        kind!("performative:transfer", &spec::TRANSFER, Performative),
        kind!("performative:disposition", &spec::DISPOSITION, Performative),
        kind!("performative:detach", &spec::DETACH, Performative),
        kind!("performative:end", &spec::END, Performative),
        kind!("performative:close", &spec::CLOSE, Performative),
        kind!("error", &spec::ERROR, defs::Error),
        kind!("received", &spec::RECEIVED, Received),
        kind!("accepted", &spec::ACCEPTED, Accepted),
        kind!("rejected", &spec::REJECTED, Rejected),
        kind!("released", &spec::RELEASED, Released),
        kind!("modified", &spec::MODIFIED, Modified),
        kind!("declared", &spec::DECLARED, Declared),
        kind!("transactional-state", &spec::TXN_STATE, TransactionalState),
        kind!("delivery-state:received", &spec::RECEIVED, DeliveryState),
        kind!("delivery-state:accepted", &spec::ACCEPTED, DeliveryState),
        kind!("delivery-state:rejected", &spec::REJECTED, DeliveryState),
        kind!("delivery-state:released", &spec::RELEASED, DeliveryState),
        kind!("delivery-state:modified", &spec::MODIFIED, DeliveryState),
        kind!("delivery-state:declared", &spec::DECLARED, DeliveryState),
        kind!("delivery-state:transactional-state", &spec::TXN_STATE, DeliveryState),
        kind!("outcome:accepted", &spec::ACCEPTED, Outcome),
        kind!("outcome:rejected", &spec::REJECTED, Outcome),
        kind!("outcome:released", &spec::RELEASED, Outcome),
        kind!("outcome:modified", &spec::MODIFIED, Outcome),
        kind!("outcome:declared", &spec::DECLARED, Outcome),
        kind!("source", &spec::SOURCE, Source),
        kind!("target", &spec::TARGET, Target),
        kind!("coordinator", &spec::COORDINATOR, Coordinator),
        kind!("target-archetype:target", &spec::TARGET, TargetArchetype),
        kind!("target-archetype:coordinator", &spec::COORDINATOR, TargetArchetype),
        kind!("sasl-mechanisms", &spec::SASL_MECHANISMS, SaslMechanisms),
        kind!("sasl-init", &spec::SASL_INIT, SaslInit),
        kind!("sasl-challenge", &spec::SASL_CHALLENGE, SaslChallenge),
        kind!("sasl-response", &spec::SASL_RESPONSE, SaslResponse),
        kind!("sasl-outcome", &spec::SASL_OUTCOME, SaslOutcome),
        kind!("declare", &spec::DECLARE, Declare),
        kind!("discharge", &spec::DISCHARGE, Discharge),
        kind!("header", &spec::HEADER, Header),
        kind!("properties", &spec::PROPERTIES, Properties),
    ]
}

/// (kind index, model, knobs)
pub type TypedCase = (usize, RValue, Vec<u8>);

pub fn typed_case_strategy() -> BoxedStrategy<TypedCase> {
    let n = kinds().len();
    (0..n)
        .prop_flat_map(|i| {
            let k = &kinds()[i];
            (Just(i), spec::composite_value(k.spec, 0), crate::gen::choices_bytes())
        })
        .boxed()
}

pub fn run_typed_case(mode: Mode, c: &TypedCase, obs: &mut Obs) -> Result<(), String> {
    let ks = kinds();
    let k = &ks[c.0];
    obs.class(&format!("typed:{}", k.name));
    let r = guarded(|| (k.check)(mode, k.spec, &c.1, &c.2));
    let info = match r {
        Ok(Ok(i)) => i,
        Ok(Err(e)) => {
            obs.signature = Some(format!("{:?}:{}", mode, k.name));
            return Err(format!("[{}] {}", k.name, e));
        }
        Err(p) => {
            obs.signature = Some(panic_signature(&p[0]));
            return Err(format!("[{}] panic: {}", k.name, p.join(" | ")));
        }
    };
    if info.map_form {
        obs.class("map-form");
    }
    let nontrivial = match mode {
        Mode::RefToImpl => info.nondefault_choices > 0,
        _ => (info.present >= 1 && info.absent >= 1) || k.spec.fields.len() <= 1,
    };
    if nontrivial {
        obs.nontrivial(&(c.0, &c.1, if mode == Mode::RefToImpl { c.2.clone() } else { vec![] }));
    }
    Ok(())
}

// --- messages

pub type MsgCase = (Vec<RValue>, Vec<u8>);

pub fn msg_case_strategy() -> BoxedStrategy<MsgCase> {
    (
        message_sections(crate::gen::rvalue(crate::gen::GenCfg { depth: 3, breadth: 4, big: false, size: 16 })),
        crate::gen::choices_bytes(),
    )
        .boxed()
}

fn canon_sections(sections: &[RValue]) -> Vec<RValue> {
    sections.iter().map(spec::canon_any).collect()
}

type Msg = Message<Body<Value>>;
use fe2o3_amqp_types::messaging::message::__private::{Deserializable, Serializable};

pub fn check_message(mode: Mode, sections: &[RValue], knobs: &[u8]) -> Result<Info, String> {
    let x: Msg = message_from_sections(sections)?;
    let mut info = Info { present: sections.len(), absent: 7usize.saturating_sub(sections.len()), nondefault_choices: 0, map_form: false };
    let bytes = serde_amqp::to_vec(&Serializable(&x)).map_err(|e| format!("to_vec failed: {e} for {x:?}"))?;
    match mode {
        Mode::RoundTrip => {
            let d: Deserializable<Msg> = serde_amqp::from_slice(&bytes).map_err(|e| format!("from_slice failed: {e}; x={x:?} bytes={}", hex(&bytes)))?;
            if d.0 != x {
                return Err(format!("message round trip differs:\n x={x:?}\n d={:?}\n bytes={}", d.0, hex(&bytes)));
            }
            let d2: Deserializable<Msg> = serde_amqp::from_reader(&bytes[..]).map_err(|e| format!("from_reader failed: {e}; x={x:?} bytes={}", hex(&bytes)))?;
            if d2.0 != x {
                return Err(format!("message from_reader differs:\n x={x:?}\n d={:?}", d2.0));
            }
            let b2 = serde_amqp::to_vec(&Serializable(&d.0)).map_err(|e| format!("re-encode failed: {e}"))?;
            if b2 != bytes {
                return Err(format!("message re-encoding differs: {} vs {}", hex(&bytes), hex(&b2)));
            }
        }
        Mode::ImplToRef => {
            let back = refcodec::decode_all(&bytes).map_err(|e| format!("message encoding is not valid AMQP 1.0: {e:?}; x={x:?} bytes={}", hex(&bytes)))?;
            let a = canon_sections(&back);
            let b = canon_sections(sections);
            if a != b {
                return Err(format!("reference decoder reads different sections:\n expected {b:?}\n got      {a:?}\n bytes={}", hex(&bytes)));
            }
        }
        Mode::RefToImpl => {
            let mut ch = choices(knobs);
            let mut vb = Vec::new();
            let mut varied = false;
            for s in sections {
                let v = match code_of(s).and_then(spec::spec_by_code) {
                    Some(sp) => spec::vary_composite(sp, s, knobs),
                    None => {
                        // map/value sections: descriptor may be given by name
                        match (s, knobs.first().map(|k| k % 3 == 1).unwrap_or(false)) {
                            (RValue::Described(d, inner), true) => {
                                let name = match &**d {
                                    RValue::Ulong(0x71) => "amqp:delivery-annotations:map",
                                    RValue::Ulong(0x72) => "amqp:message-annotations:map",
                                    RValue::Ulong(0x74) => "amqp:application-properties:map",
                                    RValue::Ulong(0x75) => "amqp:data:binary",
                                    RValue::Ulong(0x76) => "amqp:amqp-sequence:list",
                                    RValue::Ulong(0x77) => "amqp:amqp-value:*",
                                    _ => "amqp:footer:map",
                                };
                                RValue::described(RValue::sym(name), (**inner).clone())
                            }
                            _ => s.clone(),
                        }
                    }
                };
                varied |= &v != s;
                refcodec::encode_into(&v, &mut ch, &mut vb);
            }
            info.nondefault_choices = ch.nondefault + varied as usize;
            let d: Deserializable<Msg> = serde_amqp::from_slice(&vb).map_err(|e| format!("valid message encoding rejected by from_slice: {e}\n sections={sections:?}\n bytes={}", hex(&vb)))?;
            if d.0 != x {
                return Err(format!("valid message encoding decodes differently:\n expected {x:?}\n got      {:?}\n bytes={}", d.0, hex(&vb)));
            }
            let d2: Deserializable<Msg> = serde_amqp::from_reader(&vb[..]).map_err(|e| format!("valid message encoding rejected by from_reader: {e}; bytes={}", hex(&vb)))?;
            if d2.0 != x {
                return Err(format!("from_reader decodes a different message:\n expected {x:?}\n got      {:?}", d2.0));
            }
        }
        Mode::EntryPoints => {
            let n = serde_amqp::serialized_size(&Serializable(&x)).map_err(|e| format!("serialized_size failed: {e}"))?;
            if n != bytes.len() {
                return Err(format!("serialized_size={} but to_vec length={} for {x:?}", n, bytes.len()));
            }
        }
    }
    Ok(info)
}

pub fn run_msg_case(mode: Mode, c: &MsgCase, obs: &mut Obs) -> Result<(), String> {
    let body = c.0.iter().filter_map(code_of).find(|c| (0x75..=0x77).contains(c));
    obs.class(match body {
        Some(0x75) => "message:data",
        Some(0x76) => "message:sequence",
        Some(0x77) => "message:value",
        _ => "message:empty",
    });
    let r = guarded(|| check_message(mode, &c.0, &c.1));
    let info = match r {
        Ok(Ok(i)) => i,
        Ok(Err(e)) => {
            obs.signature = Some(format!("{:?}:message", mode));
            return Err(format!("[message] {}", e));
        }
        Err(p) => {
            obs.signature = Some(panic_signature(&p[0]));
            return Err(format!("[message] panic: {}", p.join(" | ")));
        }
    };
    let nt = match mode {
        Mode::RefToImpl => info.nondefault_choices > 0,
        _ => c.0.len() >= 2,
    };
    if nt {
        obs.nontrivial(&(&c.0, if mode == Mode::RefToImpl { c.1.clone() } else { vec![] }));
    }
    Ok(())
}

fn carve_case(ctx_open: &[String], c: &TypedCase, obs: &mut Obs) -> TypedCase {
    (c.0, crate::checks::codec_common::carve_known(&c.1, ctx_open, &mut obs.excluded), c.2.clone())
}
fn carve_msg(ctx_open: &[String], c: &MsgCase, obs: &mut Obs) -> MsgCase {
    (c.0.iter().map(|s| crate::checks::codec_common::carve_known(s, ctx_open, &mut obs.excluded)).collect(), c.1.clone())
}

fn open_for(mode: Mode, open: &[String]) -> Vec<String> {
    match mode {
        Mode::ImplToRef => open.to_vec(),
        _ => crate::checks::codec_common::open_for_decoder_side(open),
    }
}

pub fn run_mode(ctx: &ShardCtx, rep: &mut Report, mode: Mode, prefix: &str, quick: u64, thorough: u64) {
    let open = open_for(mode, &ctx.open_findings);
    AVOID_ZERO_WIDTH.with(|a| a.set(ctx.is_open("KF-codec-array-of-null")));
    SKIP_FROM_VALUE.with(|a| a.set(ctx.is_open("KF-from-value-composite")));
    pt_run(ctx, rep, &format!("{prefix}-typed"), ctx.budget(quick, thorough), typed_case_strategy(), |c, o| {
        let c = carve_case(&open, c, o);
        run_typed_case(mode, &c, o)
    });
    pt_run(ctx, rep, &format!("{prefix}-message"), ctx.budget(quick / 2, thorough / 2), msg_case_strategy(), |c, o| {
        let c = carve_msg(&open, c, o);
        run_msg_case(mode, &c, o)
    });
}

pub fn run_c03(ctx: &ShardCtx, rep: &mut Report) {
    run_mode(ctx, rep, Mode::RoundTrip, "rt", 60_000, 3_000_000);
}
pub fn run_c05(ctx: &ShardCtx, rep: &mut Report) {
    run_mode(ctx, rep, Mode::ImplToRef, "out", 60_000, 3_000_000);
    run_mode(ctx, rep, Mode::RefToImpl, "in", 60_000, 3_000_000);
}
pub fn run_c20(ctx: &ShardCtx, rep: &mut Report) {
    run_mode(ctx, rep, Mode::EntryPoints, "ep", 60_000, 3_000_000);
}

pub fn replay_typed(prop: &str, mode: Mode, variant: &str, case: &Json) -> Result<(), String> {
    let (variant, raw) = match variant.strip_suffix("!raw") {
        Some(v) => (v, true),
        None => (variant, false),
    };
    let open = if raw { vec![] } else { open_for(mode, &open_ids_for(prop)) };
    AVOID_ZERO_WIDTH.with(|a| a.set(open.iter().any(|o| o == "KF-codec-array-of-null")));
    SKIP_FROM_VALUE.with(|a| a.set(open.iter().any(|o| o == "KF-from-value-composite")));
    let mut obs = Obs::default();
    if variant.ends_with("-typed") {
        let c: TypedCase = serde_json::from_value(case.clone()).map_err(|e| format!("bad case: {e}"))?;
        run_typed_case(mode, &carve_case(&open, &c, &mut obs), &mut obs)
    } else if variant.ends_with("-message") {
        let c: MsgCase = serde_json::from_value(case.clone()).map_err(|e| format!("bad case: {e}"))?;
        run_msg_case(mode, &carve_msg(&open, &c, &mut obs), &mut obs)
    } else {
        Err(format!("unknown variant {variant}"))
    }
}

pub fn replay_c03(variant: &str, case: &Json) -> Result<(), String> {
    replay_typed("C03", Mode::RoundTrip, variant, case)
}
pub fn replay_c05(variant: &str, case: &Json) -> Result<(), String> {
    let mode = if variant.starts_with("out-") { Mode::ImplToRef } else { Mode::RefToImpl };
    replay_typed("C05", mode, variant, case)
}
pub fn replay_c20(variant: &str, case: &Json) -> Result<(), String> {
    replay_typed("C20", Mode::EntryPoints, variant, case)
}
