//! C07, listener role: the session under test is one a SessionAcceptor accepted; its sending link was
//! attached by the scripted client. The session-level clauses are the same as for a client session, but
//! a listener session additionally tolerates flows that name a link whose attach the application has
//! not accepted yet (a client may pipeline "attach; flow"). Such a flow still carries the session
//! fields, so it can reopen the incoming window like any other flow.
use crate::driver::*;
use crate::peer::{serial_lt, Peer};
use crate::rframe::{self, RFrame};
use crate::simnet::{self, CaseEnd, PipeCfg};
use fe2o3_amqp::acceptor::{ConnectionAcceptor, LinkAcceptor, LinkEndpoint, SessionAcceptor};
use fe2o3_amqp::link::delivery::Sendable;
use fe2o3_amqp::types::messaging::{Body, Data, Message};
use fe2o3_amqp::types::primitives::{Binary, Value};
use fe2o3_amqp::Sender;
use proptest::collection::vec;
use proptest::prelude::*;
use serde::{Deserialize, Serialize};
use tokio::sync::mpsc;

#[derive(Clone, Debug, Serialize, Deserialize, Hash)]
pub enum Op {
    Send { len: u8 },
    /// kind: 0 session-only flow, 1 flow on the attached sending link, 2 flow on a link whose attach the
    /// application has not accepted (the attach is sent before the first such flow)
    Flow { window: u32, kind: u8 },
}

#[derive(Clone, Debug, Serialize, Deserialize, Hash)]
pub struct Case {
    pub n0: u32,
    pub w0: u32,
    pub ops: Vec<Op>,
    pub tokio_seed: u64,
}

pub fn case_strategy() -> BoxedStrategy<Case> {
    let op = prop_oneof![
        5 => (0u8..120).prop_map(|len| Op::Send { len }),
        4 => (prop_oneof![3 => Just(0u32), 3 => Just(1u32), 2 => Just(2u32), 2 => 3u32..8, 1 => Just(1000u32)], prop_oneof![2 => Just(0u8), 2 => Just(1u8), 3 => Just(2u8)]).prop_map(|(window, kind)| Op::Flow { window, kind }),
    ];
    (crate::duo::next_id(), prop_oneof![Just(0u32), Just(1), Just(2), Just(3), Just(10)], vec(op, 1..40), any::<u64>()).prop_map(|(n0, w0, ops, tokio_seed)| Case { n0, w0, ops, tokio_seed }).boxed()
}

type Msg = Message<Body<Value>>;

fn make_msg(seq: u32, len: usize) -> Msg {
    let mut v = seq.to_be_bytes().to_vec();
    v.extend((0..len).map(|i| (i % 251) as u8));
    Message::builder().data(Binary::from(v)).build().map_body(|d: Data| Body::Data(vec![d].into()))
}

async fn sender_app(mut s: Sender, mut rx: mpsc::Receiver<(Msg, tokio::sync::oneshot::Sender<Result<(), String>>)>) {
    let mut futs = Vec::new();
    while let Some((m, done)) = rx.recv().await {
        let sendable: Sendable<Body<Value>> = Sendable::builder().message(m).settled(true).build();
        match s.send_batchable(sendable).await {
            Ok(f) => {
                futs.push(f);
                let _ = done.send(Ok(()));
            }
            Err(e) => {
                let _ = done.send(Err(format!("send_batchable failed: {e:?}")));
            }
        }
    }
    drop(futs);
    std::future::pending::<()>().await;
}

/// single-frame deliveries: the data section (0x00 0x53 0x75, then vbin8/vbin32) starts with the sequence number
fn seq_of(p: &[u8]) -> Option<u32> {
    let pos = p.windows(3).position(|w| w == [0x00, 0x53, 0x75])?;
    let rest = &p[pos + 3..];
    let body = match rest.first()? {
        0xa0 => rest.get(2..)?,
        0xb0 => rest.get(5..)?,
        _ => return None,
    };
    Some(u32::from_be_bytes([*body.first()?, *body.get(1)?, *body.get(2)?, *body.get(3)?]))
}

pub struct Info {
    pub backlog_at_zero: bool,
    pub reopened_by_pending_link_flow: bool,
}

fn u(v: &crate::refcodec::RValue) -> Option<u32> {
    rframe::uint(v)
}

pub async fn run_async(c: &Case) -> Result<Info, String> {
    let (a, b, _ctl) = simnet::pipe(PipeCfg { cap: 1 << 22, ..PipeCfg::default() });
    let mut peer = Peer::new(b, vec![]);
    let acc = ConnectionAcceptor::builder().container_id("verif-listener").max_frame_size(4096).build();
    let (conn, po) = tokio::join!(acc.accept(a), peer.client_open(Some(4096), None, None));
    po.map_err(|e| format!("HARNESS: {e}"))?;
    let mut conn = conn.map_err(|e| format!("HARNESS: accept: {e:?}"))?;
    let sacc = SessionAcceptor::builder().next_outgoing_id(c.n0).build();
    let my_ch = 5u16;
    let p0 = 0u32;
    let (ls, pb) = tokio::join!(sacc.accept(&mut conn), peer.initiate_begin(my_ch, p0, c.w0, 1000));
    let begin = pb.map_err(|e| format!("HARNESS: {e}"))?;
    let mut ls = ls.map_err(|e| format!("HARNESS: session accept: {e:?}"))?;
    if u(&begin.field(1)) != Some(c.n0) {
        return Err(format!("begin reports next-outgoing-id {:?}, configured {}", begin.field(1), c.n0));
    }
    // the client attaches a receiving link; the listener application accepts it and obtains a Sender
    let ph = 3u32;
    peer.send_frame(my_ch, &Peer::attach_body("s0", ph, true, None, None, None, None, false), &[]).await?;
    let lacc = LinkAcceptor::new();
    let ep = tokio::time::timeout(std::time::Duration::from_secs(600), lacc.accept(&mut ls)).await.map_err(|_| "HARNESS: link accept hangs".to_string())?.map_err(|e| format!("HARNESS: link accept: {e:?}"))?;
    let sender = match ep {
        LinkEndpoint::Sender(s) => s,
        _ => return Err("HARNESS: expected a sender endpoint".into()),
    };
    let att = peer.wait_for("attach").await?;
    let eh = u(&att.field(1)).ok_or("attach without handle")?;
    // ample link credit; the session fields restate the initial window
    peer.send_frame(my_ch, &Peer::flow_body(Some(c.n0), c.w0, p0, 1000, Some(ph), Some(0), Some(100_000), false, false), &[]).await?;
    let (tx, rx) = mpsc::channel(64);
    tokio::spawn(sender_app(sender, rx));

    let mut sent: u64 = 0;
    let mut app_total: u64 = 0;
    let mut limit: u64 = c.w0 as u64;
    let mut next_seq_on_wire: u32 = 0;
    let mut pending_attach_sent = false;
    let mut info = Info { backlog_at_zero: false, reopened_by_pending_link_flow: false };

    macro_rules! step {
        ($what:expr) => {{
            let frames: Vec<RFrame> = peer.new_frames().await;
            if let Some(e) = &peer.protocol_error {
                return Err(format!("endpoint wrote bytes that do not parse as frames: {e}"));
            }
            for f in &frames {
                match f.name() {
                    "transfer" => {
                        let id = c.n0.wrapping_add(sent as u32);
                        let lim = c.n0.wrapping_add(limit as u32);
                        if !(sent < limit) || !serial_lt(id, lim) {
                            return Err(format!("{}: transfer frame with transfer-id {} sent although the peer last advertised next-incoming-id+incoming-window = {}", $what, id, lim));
                        }
                        sent += 1;
                        if u(&f.field(0)) != Some(eh) {
                            return Err(format!("{}: transfer on handle {:?}, the link's handle is {}", $what, f.field(0), eh));
                        }
                        // single-frame deliveries: the payload ends with the data section whose first 4 bytes are the sequence number
                        let seq = seq_of(&f.payload);
                        match seq {
                            Some(s) if s == next_seq_on_wire => next_seq_on_wire += 1,
                            Some(s) => return Err(format!("{}: reordered: message #{} appears on the wire where message #{} was due (transfers that waited for the window must keep their order)", $what, s, next_seq_on_wire)),
                            None => return Err(format!("{}: HARNESS: cannot find the sequence number in a transfer payload", $what)),
                        }
                    }
                    "flow" => {
                        let ff = f.fields();
                        let noi = u(&ff[2]).ok_or("flow without next-outgoing-id")?;
                        let want = c.n0.wrapping_add(sent as u32);
                        if noi != want {
                            return Err(format!("{}: flow reports next-outgoing-id {} but {} transfer frames were sent since the begin (expected {})", $what, noi, sent, want));
                        }
                    }
                    "disposition" => {}
                    other => return Err(format!("{}: unexpected {} frame from the endpoint: {:?}", $what, other, f.body)),
                }
            }
            let expected = app_total.min(limit);
            if sent != expected {
                return Err(format!(
                    "{}: the system is quiescent with {} transfer frames sent, but the application queued {} and the peer's window allows {}: {} frame(s) that waited for the window were not sent although the peer reopened it",
                    $what,
                    sent,
                    app_total,
                    limit,
                    expected.saturating_sub(sent)
                ));
            }
        }};
    }
    step!("after attach");
    for (k, op) in c.ops.iter().enumerate() {
        let what = format!("step {k} {:?}", op);
        match op {
            Op::Send { len } => {
                let (dtx, drx) = tokio::sync::oneshot::channel();
                tx.send((make_msg(app_total as u32, *len as usize), dtx)).await.map_err(|_| "app gone".to_string())?;
                match tokio::time::timeout(std::time::Duration::from_secs(600), drx).await {
                    Ok(Ok(r)) => r?,
                    _ => return Err(format!("{what}: send_batchable did not return")),
                }
                app_total += 1;
                if app_total > limit {
                    info.backlog_at_zero = true;
                }
                step!(what);
            }
            Op::Flow { window, kind } => {
                let backlog = app_total > sent;
                let handle = match kind {
                    0 => None,
                    1 => Some(ph),
                    _ => {
                        if !pending_attach_sent {
                            pending_attach_sent = true;
                            // a second link that the application never accepts
                            peer.send_frame(my_ch, &Peer::attach_body("pending", 40, true, None, None, None, None, false), &[]).await?;
                        }
                        Some(40)
                    }
                };
                let body = Peer::flow_body(Some(c.n0.wrapping_add(sent as u32)), *window, p0, 1000, handle, handle.map(|_| 0), handle.map(|_| 100_000), false, false);
                peer.send_frame(my_ch, &body, &[]).await?;
                limit = sent + *window as u64;
                if backlog && *window > 0 && *kind == 2 {
                    info.reopened_by_pending_link_flow = true;
                }
                step!(what);
            }
        }
    }
    drop(tx);
    let _ = (&conn, &ls);
    Ok(Info { ..info })
}

pub fn run_case(c: &Case) -> Result<Info, String> {
    match simnet::run_case(c.tokio_seed, run_async(c)).0 {
        CaseEnd::Done(r) => r,
        CaseEnd::Hang => Err(format!("HANG (virtual-time watchdog); wire so far:{}", simnet::describe_last_wire())),
    }
}

pub fn case(c: &Case, obs: &mut Obs) -> Result<(), String> {
    match guarded(|| run_case(c)) {
        Ok(Ok(info)) => {
            if info.backlog_at_zero {
                obs.class("listener-backlog-at-closed-window");
            }
            if info.reopened_by_pending_link_flow {
                obs.class("window-reopened-by-flow-on-pending-link");
            }
            if info.backlog_at_zero {
                obs.nontrivial(c);
            }
            Ok(())
        }
        Ok(Err(e)) => {
            obs.signature = Some(if e.contains("were not sent although") { "listener-stall".into() } else if e.contains("reordered") { "listener-reorder".into() } else if e.contains("sent although") { "overrun".into() } else { "listener-flow-control".into() });
            Err(e)
        }
        Err(p) => {
            obs.signature = Some(panic_signature(&p[0]));
            Err(format!("panic: {}", p.join(" | ")))
        }
    }
}
