//! C05 — encodings are valid AMQP 1.0 as judged by the independent reference decoder, and every
//! spec-permitted encoding variant produced by the reference encoder is accepted.
use crate::checks::codec_common::*;
use crate::checks::typed;
use crate::conv;
use crate::driver::*;
use crate::gen;
use crate::refcodec::{self, hex, Choices, RValue};
use proptest::prelude::*;
use serde_amqp::Value;
use serde_json::Value as Json;

pub fn meta() -> PropMeta {
    PropMeta {
        id: "C05",
        level: "exploration",
        rule: "values as C03 crossed with generated encoding-variant choice streams. (->) to_vec(x) must be accepted by the strict spec-derived reference decoder (harness/src/refcodec.rs), consume all bytes and equal the model of x; (<-) every reference encoding of model(x) under generated choices (fixed0/small/full widths, 8/32-bit sizes, list0, bool 0x56, array element constructors, trailing-null elision vs explicit nulls, descriptor by code or by name) must decode via from_slice and from_reader to x. Non-trivial: (->) compound value; (<-) at least one non-default choice taken; distinct by hash of (value, choices).",
        assumptions: &[
            "refcodec is an independent transcription of AMQP 1.0 part 1 (types) and the composite tables of parts 2-4; it is self-tested by decode(encode(v,choices))==v in every run",
            "only spec-permitted variants are generated (composites as described lists; map form only for map-typed sections)",
        ],
        nontrivial_floor: 0.3,
        run,
        replay,
        crashy: false,
    }
}

/// (->) implementation encodes, reference decodes
pub fn impl_to_ref(r: &RValue) -> Result<(), String> {
    let v = conv::to_value(r);
    let bytes = serde_amqp::to_vec(&v).map_err(|e| format!("to_vec failed: {e}"))?;
    match refcodec::decode_strict(&bytes) {
        Ok(back) => {
            if &back != r {
                return Err(format!("reference decoder reads a different value: expected {r:?} got {back:?}; bytes={}", hex(&bytes)));
            }
            Ok(())
        }
        Err(e) => Err(format!("encoding is not valid AMQP 1.0: {e:?}; value={v:?} bytes={}", hex(&bytes))),
    }
}

/// (<-) reference encodes with variant choices, implementation decodes
pub fn ref_to_impl(r: &RValue, choices: &[u8], avoid_zero_width: bool) -> Result<usize, String> {
    let mut ch = Choices::new(choices.to_vec());
    ch.avoid_zero_width_elems = avoid_zero_width;
    let bytes = refcodec::encode(r, &mut ch);
    // self-test of the reference
    match refcodec::decode_strict(&bytes) {
        Ok(b) if &b == r => {}
        other => return Err(format!("HARNESS-BUG: refcodec self round-trip failed: {other:?} for {r:?} bytes={}", hex(&bytes))),
    }
    let v = conv::to_value(r);
    let d: Value = serde_amqp::from_slice(&bytes).map_err(|e| format!("valid encoding rejected by from_slice: {e}; value={v:?} bytes={}", hex(&bytes)))?;
    if d != v {
        return Err(format!("valid encoding decodes to a different value: expected {v:?} got {d:?}; bytes={}", hex(&bytes)));
    }
    // bit-exactness (NaN payloads etc): model of the decoded value
    if &conv::from_value(&d) != r {
        return Err(format!("decoded value differs at bit level: expected {r:?} got {:?}", conv::from_value(&d)));
    }
    let d2: Value = serde_amqp::from_reader(&bytes[..]).map_err(|e| format!("valid encoding rejected by from_reader: {e}; value={v:?} bytes={}", hex(&bytes)))?;
    if d2 != v {
        return Err(format!("from_reader decodes a different value: expected {v:?} got {d2:?}; bytes={}", hex(&bytes)));
    }
    Ok(ch.nondefault)
}

fn guard<T>(obs: &mut Obs, f: impl FnOnce() -> Result<T, String>) -> Result<T, String> {
    match guarded(f) {
        Ok(r) => r,
        Err(p) => {
            obs.signature = Some(panic_signature(&p[0]));
            Err(format!("panic: {}", p.join(" | ")))
        }
    }
}

fn out_case(ctx: &ShardCtx, r: &RValue, obs: &mut Obs) -> Result<(), String> {
    let r = &carve_known(r, &ctx.open_findings, &mut obs.excluded);
    obs.class(class_of(r));
    if r.is_compound() {
        obs.nontrivial(r);
    }
    guard(obs, || impl_to_ref(r))
}

fn in_case(ctx: &ShardCtx, c: &(RValue, Vec<u8>), obs: &mut Obs) -> Result<(), String> {
    let r = &carve_known(&c.0, &open_for_decoder_side(&ctx.open_findings), &mut obs.excluded);
    let avoid = ctx.is_open("KF-codec-array-of-null");
    let n = guard(obs, || ref_to_impl(r, &c.1, avoid))?;
    if n > 0 {
        obs.nontrivial(&(r, &c.1));
        obs.class("variant-nondefault");
    } else {
        obs.class("variant-default-only");
    }
    Ok(())
}

fn run(ctx: &ShardCtx, rep: &mut Report) {
    let cfg = gen::GenCfg::default();
    pt_run(ctx, rep, "out-untyped", ctx.budget(300_000, 8_000_000), gen::rvalue(cfg), |r, o| out_case(ctx, r, o));
    pt_run(ctx, rep, "out-untyped-wide", ctx.budget(8_000, 200_000), gen::wide_compound(), |r, o| out_case(ctx, r, o));
    pt_run(ctx, rep, "in-untyped", ctx.budget(300_000, 8_000_000), (gen::rvalue(cfg), gen::choices_bytes()), |c, o| in_case(ctx, c, o));
    pt_run(ctx, rep, "in-untyped-wide", ctx.budget(8_000, 200_000), (gen::wide_compound(), gen::choices_bytes()), |c, o| in_case(ctx, c, o));
    typed::run_c05(ctx, rep);
}

fn replay(variant: &str, case: &Json) -> Result<(), String> {
    let (variant, raw) = match variant.strip_suffix("!raw") {
        Some(v) => (v, true),
        None => (variant, false),
    };
    let open = if raw { vec![] } else { open_ids_for("C05") };
    match variant {
        "out-untyped" | "out-untyped-wide" => {
            let r: RValue = serde_json::from_value(case.clone()).map_err(|e| format!("bad case: {e}"))?;
            impl_to_ref(&carve_known(&r, &open, &mut vec![]))
        }
        "in-untyped" | "in-untyped-wide" => {
            let c: (RValue, Vec<u8>) = serde_json::from_value(case.clone()).map_err(|e| format!("bad case: {e}"))?;
            let avoid = open.iter().any(|o| o == "KF-codec-array-of-null");
            ref_to_impl(&carve_known(&c.0, &open_for_decoder_side(&open), &mut vec![]), &c.1, avoid).map(|_| ())
        }
        v => typed::replay_c05(v, case),
    }
}
