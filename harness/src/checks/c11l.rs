//! C11, listener role — a scripted client begins sessions on channel numbers of its own choice (sparse, large,
//! equal to or different from the numbers the listener picks, reused after an end) against a real
//! ConnectionAcceptor / SessionAcceptor, attaches one sending link per session and sends marker messages.
//! Oracle: the listener's begin names the peer's channel and uses a channel no other live session of the listener
//! uses; every answer (attach, flow, disposition, end) for session i comes on the listener's channel of session i;
//! the link and every marker message of session i surface in the application that accepted session i and nowhere else.
use crate::driver::*;
use crate::gen;
use crate::peer::{as_uint, Peer};
use crate::refcodec::RValue;
use crate::rframe::RFrame;
use crate::simnet::{self, CaseEnd, PipeCfg};
use fe2o3_amqp::acceptor::{ConnectionAcceptor, LinkAcceptor, LinkEndpoint, ListenerSessionHandle, SessionAcceptor};
use fe2o3_amqp::types::messaging::Body;
use fe2o3_amqp::types::primitives::Value;
use proptest::collection::vec;
use proptest::prelude::*;
use serde::{Deserialize, Serialize};
use std::collections::BTreeMap;

#[derive(Clone, Debug, Serialize, Deserialize, Hash)]
pub enum Op {
    /// begin a session on the k-th free channel of the candidate list; the application accepts it
    Begin(u8),
    /// attach the sending link of live session k (once)
    Attach(u8),
    /// send a marker message on the link of live session k
    Send(u8),
    /// end live session k (the channel becomes free again)
    End(u8),
}

#[derive(Clone, Debug, Serialize, Deserialize, Hash)]
pub struct Case {
    pub channels: Vec<u16>,
    pub ops: Vec<Op>,
    pub tokio_seed: u64,
    pub choices: Vec<u8>,
}

pub fn case_strategy() -> BoxedStrategy<Case> {
    let ch = prop_oneof![4 => 0u16..6, 1 => Just(7u16), 1 => Just(255u16), 1 => Just(256u16), 1 => Just(1000u16), 1 => Just(65535u16), 1 => any::<u16>()];
    let op = prop_oneof![3 => any::<u8>().prop_map(Op::Begin), 3 => any::<u8>().prop_map(Op::Attach), 4 => any::<u8>().prop_map(Op::Send), 1 => any::<u8>().prop_map(Op::End)];
    (vec(ch, 2..6), vec(op, 2..28), any::<u64>(), gen::choices_bytes())
        .prop_map(|(mut channels, mut ops, tokio_seed, choices)| {
            channels.sort();
            channels.dedup();
            ops.insert(0, Op::Begin(0));
            ops.insert(1, Op::Begin(200));
            Case { channels, ops, tokio_seed, choices }
        })
        .boxed()
}

/// (session index, link name, marker or error)
type Report3 = (usize, String, Result<u32, String>);

async fn session_app(idx: usize, mut ls: ListenerSessionHandle, tx: tokio::sync::mpsc::UnboundedSender<Report3>) {
    let la = LinkAcceptor::new();
    while let Ok(le) = la.accept(&mut ls).await {
        if let LinkEndpoint::Receiver(mut r) = le {
            let tx = tx.clone();
            let name = r.name().to_string();
            let _ = tx.send((idx, name.clone(), Ok(u32::MAX)));
            tokio::spawn(async move {
                loop {
                    match r.recv::<Body<Value>>().await {
                        Ok(d) => {
                            let _ = r.accept(&d).await;
                            let m = match d.message().body {
                                Body::Value(fe2o3_amqp::types::messaging::AmqpValue(Value::Uint(x))) => Ok(x),
                                _ => Err("delivery without the marker body".to_string()),
                            };
                            let _ = tx.send((idx, name.clone(), m));
                        }
                        Err(_) => break,
                    }
                }
            });
        }
    }
}

struct Sess {
    idx: usize,
    peer_ch: u16,
    listener_ch: u16,
    attached: bool,
    next_did: u32,
}

pub struct Info {
    pub sessions: usize,
    pub differing_channels: bool,
    pub reused: bool,
    pub markers: usize,
}

pub async fn run_async(c: &Case) -> Result<Info, String> {
    let (a, b, _ctl) = simnet::pipe(PipeCfg { cap: 1 << 22, ..PipeCfg::default() });
    let mut peer = Peer::new(b, c.choices.clone());
    let acc = ConnectionAcceptor::builder().container_id("verif-listener").max_frame_size(4096).build();
    let (conn, po) = tokio::join!(acc.accept(a), peer.client_open(Some(4096), None, None));
    po.map_err(|e| format!("HARNESS: {e}"))?;
    let mut conn = conn.map_err(|e| format!("HARNESS: accept: {e:?}"))?;
    let sacc = SessionAcceptor::new();
    let (tx, mut rx) = tokio::sync::mpsc::unbounded_channel::<Report3>();
    let mut live: Vec<Sess> = Vec::new();
    let mut n_sessions = 0usize;
    let mut used_before: Vec<u16> = Vec::new();
    let mut info = Info { sessions: 0, differing_channels: false, reused: false, markers: 0 };
    let mut marker: u32 = 0;
    // marker -> session index it must surface at
    let mut expect: BTreeMap<u32, usize> = BTreeMap::new();
    const PH: u32 = 2;

    for (step, op) in c.ops.iter().enumerate() {
        let what = format!("step {step} {op:?}");
        match op {
            Op::Begin(k) => {
                let free: Vec<u16> = c.channels.iter().copied().filter(|ch| !live.iter().any(|s| s.peer_ch == *ch)).collect();
                if free.is_empty() || live.len() >= 4 {
                    continue;
                }
                let ch = free[(*k as usize * free.len()) >> 8];
                let (ls, pb) = tokio::join!(tokio::time::timeout(std::time::Duration::from_secs(600), sacc.accept(&mut conn)), peer.initiate_begin(ch, 0, 100_000, 100_000));
                let begin: RFrame = pb.map_err(|e| format!("{what}: the begin on channel {ch} was not answered with a begin: {e}"))?;
                let ls = ls.map_err(|_| format!("{what}: SessionAcceptor::accept did not return for the begin on channel {ch}"))?.map_err(|e| format!("{what}: session accept failed: {e:?}"))?;
                let remote = match begin.field(0) {
                    RValue::Ushort(x) => Some(x),
                    _ => None,
                };
                if remote != Some(ch) {
                    return Err(format!("{what}: the listener's begin names remote-channel {:?}, the peer's begin came on channel {ch}", begin.field(0)));
                }
                if let Some(o) = live.iter().find(|s| s.listener_ch == begin.channel) {
                    return Err(format!("{what}: the listener answers on channel {} which its live session #{} (peer channel {}) already uses", begin.channel, o.idx, o.peer_ch));
                }
                if begin.channel != ch {
                    info.differing_channels = true;
                }
                if used_before.contains(&ch) {
                    info.reused = true;
                }
                used_before.push(ch);
                let idx = n_sessions;
                n_sessions += 1;
                tokio::spawn(session_app(idx, ls, tx.clone()));
                live.push(Sess { idx, peer_ch: ch, listener_ch: begin.channel, attached: false, next_did: 0 });
            }
            Op::Attach(k) => {
                if live.is_empty() {
                    continue;
                }
                let i = (*k as usize * live.len()) >> 8;
                if live[i].attached {
                    continue;
                }
                let name = format!("link-of-session-{}", live[i].idx);
                peer.send_frame(live[i].peer_ch, &Peer::attach_body(&name, PH, false, None, None, Some(0), None, false), &[]).await?;
                live[i].attached = true;
                check_frames(&what, &mut peer, &live, Some((i, "attach"))).await?;
                // the link surfaces in the application of that session
                let mut seen = false;
                while let Ok((idx, lname, r)) = rx.try_recv() {
                    if r == Ok(u32::MAX) && lname == name {
                        if idx != live[i].idx {
                            return Err(format!("{what}: the link attached on the peer's channel {} (session #{}) was handed to the application of session #{idx}", live[i].peer_ch, live[i].idx));
                        }
                        seen = true;
                    } else {
                        return Err(format!("{what}: unexpected report from the application of session #{idx}: link {lname} {r:?}"));
                    }
                }
                if !seen {
                    return Err(format!("{what}: the attach on the peer's channel {} (session #{}) did not reach the application that accepted that session", live[i].peer_ch, live[i].idx));
                }
            }
            Op::Send(k) => {
                let att: Vec<usize> = (0..live.len()).filter(|i| live[*i].attached).collect();
                if att.is_empty() {
                    continue;
                }
                let i = att[(*k as usize * att.len()) >> 8];
                let m = marker;
                marker += 1;
                expect.insert(m, live[i].idx);
                let payload = crate::refcodec::encode_compact(&RValue::described(RValue::Ulong(0x77), RValue::Uint(m)));
                let did = live[i].next_did;
                live[i].next_did += 1;
                peer.send_frame(live[i].peer_ch, &Peer::transfer_body(PH, Some(did), Some(&m.to_be_bytes()), Some(0), Some(false), false, None, false), &payload).await?;
                check_frames(&what, &mut peer, &live, None).await?;
                let mut got = false;
                while let Ok((idx, lname, r)) = rx.try_recv() {
                    match r {
                        Ok(x) if x == m && idx == live[i].idx => got = true,
                        Ok(x) => return Err(format!("{what}: marker message {x} surfaced at session #{idx} (link {lname}); it was sent on the peer's channel {} which designates session #{:?}", live[i].peer_ch, expect.get(&x))),
                        Err(e) => return Err(format!("{what}: session #{idx} link {lname}: {e}")),
                    }
                }
                if !got {
                    return Err(format!("{what}: marker message {m} sent on the peer's channel {} did not reach the application of session #{}", live[i].peer_ch, live[i].idx));
                }
                info.markers += 1;
            }
            Op::End(k) => {
                if live.len() < 2 {
                    continue;
                }
                let i = (*k as usize * live.len()) >> 8;
                peer.send_frame(live[i].peer_ch, &Peer::end_body(None), &[]).await?;
                let frames = peer.new_frames().await;
                let ends: Vec<&RFrame> = frames.iter().filter(|f| f.name() == "end").collect();
                if ends.len() != 1 || ends[0].channel != live[i].listener_ch {
                    return Err(format!("{what}: the end on the peer's channel {} must be answered by one end on the listener's channel {}; got {:?}", live[i].peer_ch, live[i].listener_ch, frames.iter().map(|f| (f.channel, f.name())).collect::<Vec<_>>()));
                }
                live.remove(i);
            }
        }
    }
    info.sessions = n_sessions;
    drop(conn);
    Ok(info)
}

/// every frame the listener wrote in this step is on the channel of a live session, and the expected answer is on
/// the channel of the session it belongs to
async fn check_frames(what: &str, peer: &mut Peer, live: &[Sess], expect: Option<(usize, &str)>) -> Result<(), String> {
    let frames = peer.new_frames().await;
    if let Some(e) = &peer.protocol_error {
        return Err(format!("{what}: the endpoint wrote bytes that do not parse as frames: {e}"));
    }
    for f in &frames {
        if f.ftype != 0 || f.body.is_none() {
            continue;
        }
        if matches!(f.name(), "end" | "close" | "detach") {
            return Err(format!("{what}: the listener shut something down: {} on channel {}: {:?}", f.name(), f.channel, f.body));
        }
        if !live.iter().any(|s| s.listener_ch == f.channel) {
            return Err(format!("{what}: {} frame on channel {} which belongs to no live session of the listener", f.name(), f.channel));
        }
    }
    if let Some((i, name)) = expect {
        let on: Vec<u16> = frames.iter().filter(|f| f.name() == name).map(|f| f.channel).collect();
        if on != vec![live[i].listener_ch] {
            return Err(format!(
                "{what}: the {name} sent on the peer's channel {} (session #{}) must be answered on the listener's channel {} of that session; {name} frames arrived on channels {:?}",
                live[i].peer_ch, live[i].idx, live[i].listener_ch, on
            ));
        }
        let _ = as_uint;
    }
    Ok(())
}

pub fn run_case(c: &Case) -> Result<Info, String> {
    match simnet::run_case(c.tokio_seed, run_async(c)).0 {
        CaseEnd::Done(r) => r,
        CaseEnd::Hang => Err(format!("HANG (virtual-time watchdog); wire so far:{}", simnet::describe_last_wire())),
    }
}

pub fn case(c: &Case, obs: &mut Obs) -> Result<(), String> {
    match guarded(|| run_case(c)) {
        Ok(Ok(info)) => {
            if info.differing_channels {
                obs.class("listener:channel-numbers-differ");
            }
            if info.reused {
                obs.class("listener:peer-channel-reused");
            }
            if info.sessions >= 2 && info.markers >= 1 {
                obs.nontrivial(c);
            }
            Ok(())
        }
        Ok(Err(e)) => {
            obs.signature = Some("listener-routing".into());
            Err(e)
        }
        Err(p) => {
            obs.signature = Some(panic_signature(&p[0]));
            Err(format!("panic: {}", p.join(" | ")))
        }
    }
}
