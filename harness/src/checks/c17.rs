//! C17 — negotiated limits are honoured: channel-max and idle time-outs.
//!
//! Variant "channel-max": generated (local, remote) channel-max pairs and begin/end histories against
//! a scripted peer; every begin frame the endpoint writes is checked against min(local, remote) and
//! the set of channels in use; refusals must be local (no frame).
//! Variant "idle": generated local/remote idle time-outs and traffic timelines over virtual time
//! (exact under the paused clock), with optional periods in which the peer does not read.
use crate::driver::{guarded, hash_of, panic_signature, pt_run, PropMeta, Report, ShardCtx, Tier, Violation, MAX_SHRINK_ITERS};
use crate::peer::Peer;
use crate::rframe::{self, RFrame};
use crate::simnet::{self, CaseEnd, PipeCfg};
use fe2o3_amqp::acceptor::{ConnectionAcceptor, ListenerConnectionHandle, ListenerSessionHandle, SessionAcceptor};
use fe2o3_amqp::connection::ConnectionHandle;
use fe2o3_amqp::session::SessionHandle;
use fe2o3_amqp::{Connection, Session};
use proptest::collection::vec;
use proptest::prelude::*;
use serde::{Deserialize, Serialize};
use serde_json::Value as Json;
use std::collections::BTreeMap;
use std::time::Duration;
use tokio::time::Instant;

pub fn meta() -> PropMeta {
    PropMeta {
        id: "C17",
        level: "exploration",
        rule: "(a) channel-max: a real client or listener with a generated local channel-max (0..65535, edge-weighted) opens towards a scripted peer advertising a generated channel-max; a generated history of begin / end operations (up to 24, so the agreed limit is reached and passed for small limits, with reuse after end) runs step-wise. Oracle: every begin frame the endpoint writes is on a channel <= min(local, remote) that no live session of the endpoint uses; begin succeeds whenever a channel within the limit is free and fails locally, without writing a frame, when none is. (a') the top of the range: with channel-max 65535 on both sides (thorough: also 65534 / 40000 on either side) a client begins sessions until it is refused — exactly agreed+1 sessions on pairwise distinct channels, the next begin refused without a frame, and after one session ended a begin succeeds again on a free channel. (b) idle time-outs: generated local idle time-out (unset, 0, 20..1000 ms) and peer-advertised idle time-out (unset, 0, 1..100000 ms) with a generated timeline of gaps (0, 1, L-1, L, L+1, R-1, R, R+1, 3L ... ms of virtual time) separated by peer frames (empty frame, flow), application traffic (begin/end of a session) or periods in which the peer writes every 'every' ms but does not read (small pipe: the endpoint is back-pressured). Oracle on exact virtual time: while the connection is open and the endpoint is not back-pressured, consecutive frames written by the endpoint are never more than R apart; the endpoint reports IdleTimeoutElapsed to the application (on_close) no earlier than L after the peer's last frame and no later than L after the later of that frame and the end of the last back-pressure period, and never while peer frames keep arriving with gaps below L; when no time-out is due the connection is alive at the end and closes cleanly. Non-trivial: (a) the limit was reached or a channel was reused; (b) a time-out was due, or a gap within 1 ms of L or R occurred, or a back-pressure period occurred — distinct by hash of the case.",
        assumptions: &["virtual time (tokio paused clock): timer expiry and frame arrival are exact, so bounds are checked with 1 ms slack only", "the peer honours the agreed channel-max itself (peer violations are C15)"],
        nontrivial_floor: 0.3,
        run,
        replay,
        crashy: true,
    }
}

// ---------------------------------------------------------------------------
// (a) channel-max

#[derive(Clone, Debug, Serialize, Deserialize, Hash)]
pub enum OpA {
    Begin,
    End(u8),
    /// (client) begin a session, let the begin frame go out, never answer it and drop the future
    BeginAbandoned,
}

#[derive(Clone, Debug, Serialize, Deserialize, Hash)]
pub struct CaseA {
    pub role: u8,
    pub local_cm: u16,
    pub remote_cm: u16,
    pub ops: Vec<OpA>,
    pub tokio_seed: u64,
}

fn cm() -> BoxedStrategy<u16> {
    prop_oneof![
        4 => 0u16..6,
        2 => 6u16..16,
        1 => Just(255u16),
        1 => Just(256u16),
        1 => Just(65534u16),
        1 => Just(65535u16),
        1 => any::<u16>(),
    ]
    .boxed()
}

pub fn case_a_strategy() -> BoxedStrategy<CaseA> {
    (0u8..2, cm(), cm(), vec(prop_oneof![6 => Just(OpA::Begin), 2 => any::<u8>().prop_map(OpA::End), 1 => Just(OpA::BeginAbandoned)], 1..24), any::<u64>())
        .prop_map(|(role, local_cm, remote_cm, ops, tokio_seed)| CaseA { role, local_cm, remote_cm, ops, tokio_seed })
        .boxed()
}

enum ConnH {
    C(ConnectionHandle<()>),
    L(ListenerConnectionHandle),
}
enum SessH {
    C(SessionHandle<()>),
    L(ListenerSessionHandle),
}

#[derive(Default)]
pub struct InfoA {
    pub limit_reached: bool,
    pub reused: bool,
    pub begins: u32,
}

async fn open_pair(role: u8, local_cm: Option<u16>, local_idle: Option<u32>, remote_cm: Option<u16>, remote_idle: Option<u32>, pipe: PipeCfg) -> Result<(Result<ConnH, String>, Peer, simnet::PipeCtl), String> {
    let (a, b, ctl) = simnet::pipe(pipe);
    let mut peer = Peer::new(b, vec![]);
    let conn = if role == 0 {
        let mut bld = Connection::builder().container_id("verif-client").max_frame_size(4096).buffer_size(64);
        if let Some(c) = local_cm {
            bld = bld.channel_max(c);
        }
        if let Some(i) = local_idle {
            bld = bld.idle_time_out(i);
        }
        let (conn, po) = tokio::join!(bld.open_with_stream(a), peer.server_open(Some(65536), remote_cm, remote_idle));
        po.map_err(|e| format!("HARNESS: {e}"))?;
        conn.map(ConnH::C).map_err(|e| format!("{e:?}"))
    } else {
        let mut bld = ConnectionAcceptor::builder().container_id("verif-listener").max_frame_size(4096).buffer_size(64);
        if let Some(c) = local_cm {
            bld = bld.channel_max(c);
        }
        if let Some(i) = local_idle {
            bld = bld.idle_time_out(i);
        }
        let acc = bld.build();
        let (conn, po) = tokio::join!(acc.accept(a), peer.client_open(Some(65536), remote_cm, remote_idle));
        po.map_err(|e| format!("HARNESS: {e}"))?;
        conn.map(ConnH::L).map_err(|e| format!("{e:?}"))
    };
    Ok((conn, peer, ctl))
}

pub async fn run_a(c: &CaseA) -> Result<InfoA, String> {
    let (conn, mut peer, _ctl) = open_pair(c.role, Some(c.local_cm), None, Some(c.remote_cm), None, PipeCfg { cap: 1 << 22, ..PipeCfg::default() }).await?;
    let mut conn = conn.map_err(|e| format!("open failed: {e}"))?;
    let agreed = c.local_cm.min(c.remote_cm) as u32;
    let sacc = SessionAcceptor::builder().buffer_size(64).build();
    // live sessions: endpoint channel -> (handle, peer channel)
    let mut live: Vec<(u16, SessH, u16)> = Vec::new();
    let mut ever_used: Vec<u16> = Vec::new();
    let mut info = InfoA::default();
    // begins that went out and were never answered: whether their channel is still reserved is the
    // implementation's business, so afterwards only the bound and the live set are asserted
    let mut abandoned: u32 = 0;
    let _ = peer.new_frames().await;
    for (step, op) in c.ops.iter().enumerate() {
        match op {
            OpA::Begin => {
                let free_exists = (live.len() as u32) < agreed + 1;
                // the peer's own channel for this session: lowest one it does not use
                let mut pch = 0u16;
                while live.iter().any(|l| l.2 == pch) {
                    pch += 1;
                }
                match &mut conn {
                    ConnH::C(cn) => {
                        let fut = Session::builder().buffer_size(64).begin(cn);
                        let pa = async {
                            let fs = peer.new_frames().await;
                            let begins: Vec<RFrame> = fs.into_iter().filter(|f| f.name() == "begin").collect();
                            for b in &begins {
                                peer.send_frame(pch, &Peer::begin_body(Some(b.channel), 0, 2048, 2048, None), &[]).await?;
                            }
                            Ok::<Vec<RFrame>, String>(begins)
                        };
                        let (r, begins) = tokio::join!(fut, pa);
                        let begins = begins.map_err(|e| format!("HARNESS: {e}"))?;
                        check_begin(step, &begins, r.as_ref().map(|_| ()).map_err(|e| format!("{e:?}")), free_exists, agreed, &live, c, abandoned)?;
                        if let (Ok(s), Some(b)) = (r, begins.first()) {
                            if ever_used.contains(&b.channel) {
                                info.reused = true;
                            }
                            ever_used.push(b.channel);
                            live.push((b.channel, SessH::C(s), pch));
                            info.begins += 1;
                        }
                    }
                    ConnH::L(cn) => {
                        if pch as u32 > agreed {
                            // the peer has no channel left within the agreed limit; it does not violate it
                            info.limit_reached = true;
                            continue;
                        }
                        peer.send_frame(pch, &Peer::begin_body(None, 0, 2048, 2048, None), &[]).await.map_err(|e| format!("HARNESS: {e}"))?;
                        let (r, fs) = tokio::join!(sacc.accept(cn), peer.new_frames());
                        let begins: Vec<RFrame> = fs.into_iter().filter(|f| f.name() == "begin").collect();
                        check_begin(step, &begins, r.as_ref().map(|_| ()).map_err(|e| format!("{e:?}")), free_exists, agreed, &live, c, abandoned)?;
                        if let (Ok(s), Some(b)) = (r, begins.first()) {
                            if ever_used.contains(&b.channel) {
                                info.reused = true;
                            }
                            ever_used.push(b.channel);
                            live.push((b.channel, SessH::L(s), pch));
                            info.begins += 1;
                        }
                    }
                }
                if !free_exists {
                    info.limit_reached = true;
                }
            }
            OpA::BeginAbandoned => {
                if let ConnH::C(cn) = &mut conn {
                    let fut = Session::builder().buffer_size(64).begin(cn);
                    tokio::pin!(fut);
                    let fs = tokio::select! {
                        biased;
                        r = &mut fut => {
                            // refused locally (or failed): nothing was allocated
                            let _ = r;
                            peer.new_frames().await
                        }
                        fs = peer.new_frames() => fs,
                    };
                    for b in fs.iter().filter(|f| f.name() == "begin") {
                        if b.channel as u32 > agreed {
                            return Err(format!("step {step}: a begin was written on channel {} above the agreed channel-max {agreed} (local channel-max {}, peer channel-max {}, {} live sessions, {} abandoned begins)", b.channel, c.local_cm, c.remote_cm, live.len(), abandoned));
                        }
                        if live.iter().any(|l| l.0 == b.channel) {
                            return Err(format!("step {step}: a begin was written on channel {} which a live session still uses", b.channel));
                        }
                        abandoned += 1;
                    }
                    // the future is dropped here, unanswered
                }
            }
            OpA::End(i) => {
                if live.is_empty() {
                    continue;
                }
                let k = (*i as usize * live.len()) >> 8;
                let (ech, s, pch) = live.remove(k);
                let pa = async {
                    let e = peer.wait_for("end").await?;
                    if e.channel != ech {
                        return Err(format!("step {step}: end written on channel {} for the session begun on channel {ech}", e.channel));
                    }
                    peer.send_frame(pch, &Peer::end_body(None), &[]).await
                };
                let (r, p) = match s {
                    SessH::C(mut s) => tokio::join!(async move { s.end().await.map_err(|e| format!("{e:?}")) }, pa),
                    SessH::L(mut s) => tokio::join!(async move { s.end().await.map_err(|e| format!("{e:?}")) }, pa),
                };
                p?;
                r.map_err(|e| format!("step {step}: end() failed: {e}"))?;
                peer.settle().await;
            }
        }
    }
    drop(live);
    match conn {
        ConnH::C(c) => drop(c),
        ConnH::L(c) => drop(c),
    }
    Ok(info)
}

fn check_begin(step: usize, begins: &[RFrame], res: Result<(), String>, free_exists: bool, agreed: u32, live: &[(u16, SessH, u16)], c: &CaseA, abandoned: u32) -> Result<(), String> {
    let ctx = format!("(local channel-max {}, peer channel-max {}, {} live sessions on channels {:?})", c.local_cm, c.remote_cm, live.len(), live.iter().map(|l| l.0).collect::<Vec<_>>());
    if begins.len() > 1 {
        return Err(format!("step {step}: one begin operation wrote {} begin frames {ctx}", begins.len()));
    }
    for b in begins {
        if b.channel as u32 > agreed {
            return Err(format!("step {step}: a begin was written on channel {} above the agreed channel-max {agreed} {ctx}", b.channel));
        }
        if live.iter().any(|l| l.0 == b.channel) {
            return Err(format!("step {step}: a begin was written on channel {} which a live session still uses {ctx}", b.channel));
        }
    }
    if abandoned > 0 {
        // with unanswered begins outstanding only the bound and the uniqueness among live sessions are asserted
        return match (&res, begins.first()) {
            (Ok(()), None) => Err(format!("step {step}: begin returned Ok without writing a begin frame {ctx}")),
            _ => Ok(()),
        };
    }
    match (&res, begins.first(), free_exists) {
        (Ok(()), Some(_), true) => Ok(()),
        (Ok(()), None, _) => Err(format!("step {step}: begin returned Ok without writing a begin frame {ctx}")),
        (Ok(()), Some(b), false) => Err(format!("step {step}: a session was begun (channel {}) although every channel up to the agreed channel-max {agreed} is in use {ctx}", b.channel)),
        (Err(e), Some(b), _) => Err(format!("step {step}: begin failed ({e}) after writing a begin frame on channel {} {ctx}", b.channel)),
        (Err(e), None, true) => Err(format!("step {step}: begin was refused ({e}) although a channel within the agreed channel-max {agreed} is free {ctx}")),
        (Err(_), None, false) => Ok(()),
    }
}

// ---------------------------------------------------------------------------
// (b) idle time-outs

#[derive(Clone, Debug, Serialize, Deserialize, Hash)]
pub enum StepB {
    /// the peer reads for `gap` ms, then writes an empty frame
    PeerEmpty { gap: u32 },
    /// the peer reads for `gap` ms, then writes a session flow on an unmapped channel? no: an empty frame on channel 7 (ignored channel for empty frames)
    PeerEmptyCh { gap: u32 },
    /// the peer reads for `gap` ms and writes nothing
    Silence { gap: u32 },
    /// after `gap` ms the application begins and ends a session (traffic in both directions)
    AppSession { gap: u32 },
    /// for `dur` ms the peer does not read but writes an empty frame every `every` ms
    Stall { dur: u32, every: u32 },
}

#[derive(Clone, Debug, Serialize, Deserialize, Hash)]
pub struct CaseB {
    pub role: u8,
    /// ms; None = unset
    pub local_idle: Option<u32>,
    pub remote_idle: Option<u32>,
    pub steps: Vec<StepB>,
    /// capacity of the endpoint->peer direction (small values make Stall steps back-pressure the endpoint)
    pub out_cap: usize,
    pub tokio_seed: u64,
}

pub fn case_b_strategy() -> BoxedStrategy<CaseB> {
    let local = prop_oneof![2 => Just(None), 1 => Just(Some(0u32)), 2 => Just(Some(20u32)), 3 => Just(Some(100u32)), 2 => Just(Some(1000u32)), 1 => (2u32..3000).prop_map(Some)];
    let remote = prop_oneof![2 => Just(None), 1 => Just(Some(0u32)), 1 => Just(Some(1u32)), 2 => Just(Some(10u32)), 3 => Just(Some(100u32)), 2 => Just(Some(1000u32)), 1 => Just(Some(100_000u32)), 1 => (1u32..5000).prop_map(Some)];
    (0u8..2, local, remote, any::<u64>(), prop_oneof![2 => Just(1usize << 22), 1 => Just(64usize), 1 => Just(200usize)])
        .prop_flat_map(|(role, local_idle, remote_idle, tokio_seed, out_cap)| {
            let l = local_idle.unwrap_or(100).max(2);
            let r = remote_idle.unwrap_or(100).max(2);
            // with a 1..9 ms heartbeat period keep the timeline short
            let scale = if remote_idle.map(|r| r > 0 && r < 10).unwrap_or(false) { 1 } else { 3 };
            let gap = prop_oneof![
                Just(0u32),
                Just(1),
                Just(l / 2),
                Just(l - 1),
                Just(l),
                Just(l + 1),
                Just(r - 1),
                Just(r),
                Just(r + 1),
                Just(l.min(1000) * scale),
                0u32..(l.min(1000) * 2),
            ];
            let step = prop_oneof![
                4 => gap.clone().prop_map(|gap| StepB::PeerEmpty { gap }),
                1 => gap.clone().prop_map(|gap| StepB::PeerEmptyCh { gap }),
                3 => gap.clone().prop_map(|gap| StepB::Silence { gap }),
                2 => gap.clone().prop_map(|gap| StepB::AppSession { gap }),
                2 => (prop_oneof![Just(l * 2), Just(l * 5), Just(l + 1)], prop_oneof![Just((l / 4).max(1)), Just((l / 2).max(1)), Just(l - 1)]).prop_map(|(dur, every)| StepB::Stall { dur: dur.min(6000), every }),
            ];
            (Just(role), Just(local_idle), Just(remote_idle), vec(step, 1..10), Just(out_cap), Just(tokio_seed))
        })
        .prop_map(|(role, local_idle, remote_idle, steps, out_cap, tokio_seed)| CaseB { role, local_idle, remote_idle, steps, out_cap, tokio_seed })
        .boxed()
}

#[derive(Default, Debug)]
pub struct InfoB {
    pub timeout_due: bool,
    pub near_boundary: bool,
    pub stalled: bool,
    pub heartbeats: u32,
}

enum Cmd {
    /// begin a session and end it again (client: begin; listener: accept the peer's begin)
    Session(tokio::sync::oneshot::Sender<Result<(), String>>),
    Close(tokio::sync::oneshot::Sender<Result<(), String>>),
}

type Torn = std::sync::Arc<std::sync::Mutex<Option<(Instant, String)>>>;

/// the application: owns the connection handle, watches on_close() whenever it is not busy
async fn app_b(mut conn: ConnH, mut rx: tokio::sync::mpsc::Receiver<Cmd>, torn: Torn) {
    let sacc = SessionAcceptor::builder().buffer_size(64).build();
    loop {
        let cmd = {
            let oc = async {
                match &mut conn {
                    ConnH::C(c) => c.on_close().await.map_err(|e| format!("{e:?}")),
                    ConnH::L(c) => c.on_close().await.map_err(|e| format!("{e:?}")),
                }
            };
            tokio::select! {
                biased;
                r = oc => {
                    *torn.lock().unwrap() = Some((Instant::now(), match r { Ok(()) => "Ok".to_string(), Err(e) => e }));
                    None
                }
                c = rx.recv() => c,
            }
        };
        match cmd {
            None => {
                // torn down or the harness is done: answer outstanding commands with an error
                while let Ok(c) = rx.try_recv() {
                    match c {
                        Cmd::Session(r) | Cmd::Close(r) => {
                            let _ = r.send(Err("connection already torn down".into()));
                        }
                    }
                }
                return;
            }
            Some(Cmd::Session(reply)) => {
                let res = match &mut conn {
                    ConnH::C(cn) => match Session::builder().buffer_size(64).begin(cn).await {
                        Ok(mut s) => s.end().await.map_err(|e| format!("end: {e:?}")),
                        Err(e) => Err(format!("begin: {e:?}")),
                    },
                    ConnH::L(cn) => match sacc.accept(cn).await {
                        Ok(mut s) => s.end().await.map_err(|e| format!("end: {e:?}")),
                        Err(e) => Err(format!("session accept: {e:?}")),
                    },
                };
                let _ = reply.send(res);
            }
            Some(Cmd::Close(reply)) => {
                let res = match &mut conn {
                    ConnH::C(cn) => cn.close().await.map_err(|e| format!("{e:?}")),
                    ConnH::L(cn) => cn.close().await.map_err(|e| format!("{e:?}")),
                };
                let _ = reply.send(res);
                return;
            }
        }
    }
}

pub async fn run_b(c: &CaseB) -> Result<InfoB, String> {
    let mut info = InfoB::default();
    let pipe = PipeCfg { cap: 1 << 22, caps: Some([c.out_cap, 1 << 22]), ..PipeCfg::default() };
    let t_start = Instant::now();
    let (conn, mut peer, ctl) = open_pair(c.role, None, c.local_idle, None, c.remote_idle, pipe).await?;
    let conn = match conn {
        Ok(c) => c,
        Err(e) => return Err(format!("open failed: {e}")),
    };
    let l = c.local_idle.filter(|x| *x > 0).map(|x| Duration::from_millis(x as u64));
    let r = c.remote_idle.filter(|x| *x > 0).map(|x| Duration::from_millis(x as u64));
    let torn: Torn = Default::default();
    let (tx, rx) = tokio::sync::mpsc::channel::<Cmd>(4);
    let app = tokio::spawn(app_b(conn, rx, torn.clone()));
    let mut last_stall_end = t_start;
    let mut stalls: Vec<(Instant, Instant)> = Vec::new();
    let slack = Duration::from_millis(2);
    let mut next_pch = 1u16;
    // exact time of the peer's last write, from the transport's tap
    let last_peer_write = |ctl: &simnet::PipeCtl| ctl.tap(1).last().map(|t| t.0).unwrap_or(t_start);
    macro_rules! lb {
        () => {
            l.map(|l| last_peer_write(&ctl) + l)
        };
    }
    macro_rules! ub {
        () => {
            l.map(|l| last_peer_write(&ctl).max(last_stall_end) + l + slack)
        };
    }
    macro_rules! torn_now {
        () => {{
            let g = torn.lock().unwrap().clone();
            g
        }};
    }
    let mut done_early = false;
    for (i, st) in c.steps.iter().enumerate() {
        let gap = match st {
            StepB::PeerEmpty { gap } | StepB::PeerEmptyCh { gap } | StepB::Silence { gap } | StepB::AppSession { gap } => *gap,
            StepB::Stall { .. } => 0,
        };
        for edge in [c.local_idle, c.remote_idle].into_iter().flatten() {
            if gap.abs_diff(edge) <= 1 && edge > 0 {
                info.near_boundary = true;
            }
        }
        peer.read_until(Instant::now() + Duration::from_millis(gap as u64)).await;
        if let Some((t, why)) = torn_now!() {
            check_teardown(i, t, &why, lb!(), ub!(), c)?;
            done_early = true;
            break;
        } else if let Some(ub) = ub!() {
            if Instant::now() > ub {
                return Err(format!("step {i}: nothing has arrived for {:?} (local idle time-out {:?}) but the connection was not torn down / the application was not told", Instant::now() - last_peer_write(&ctl), l.unwrap()));
            }
        }
        match st {
            StepB::PeerEmpty { .. } => {
                let _ = peer.send_empty_frame().await;
            }
            StepB::PeerEmptyCh { .. } => {
                let _ = peer.send_bytes(&[0, 0, 0, 8, 2, 0, 0, 7]).await;
            }
            StepB::Silence { .. } => {}
            StepB::AppSession { .. } => {
                let pch = next_pch;
                next_pch += 1;
                let (rtx, rrx) = tokio::sync::oneshot::channel();
                if tx.send(Cmd::Session(rtx)).await.is_err() {
                    // the application task already stopped: torn down
                    peer.settle().await;
                } else {
                    let pa = async {
                        if c.role == 0 {
                            peer.accept_begin(pch, 0, 2048, 2048).await?;
                        } else {
                            peer.send_frame(pch, &Peer::begin_body(None, 0, 2048, 2048, None), &[]).await?;
                            peer.wait_for("begin").await?;
                        }
                        peer.wait_for("end").await?;
                        peer.send_frame(pch, &Peer::end_body(None), &[]).await
                    };
                    let (res, p) = tokio::join!(rrx, pa);
                    let res = res.unwrap_or_else(|_| Err("application task stopped".into())).and(p);
                    if let Err(e) = res {
                        // only legitimate if the connection is being torn down for the time-out right now
                        peer.read_until(Instant::now() + Duration::from_millis(3)).await;
                        match torn_now!() {
                            Some((t, why)) => {
                                check_teardown(i, t, &why, lb!(), ub!(), c)?;
                                done_early = true;
                                break;
                            }
                            None => return Err(format!("step {i}: a session begin/end on the open connection failed: {e}")),
                        }
                    }
                }
            }
            StepB::Stall { dur, every } => {
                info.stalled = true;
                let t0 = Instant::now();
                let end = t0 + Duration::from_millis(*dur as u64);
                while Instant::now() + Duration::from_millis(*every as u64) <= end {
                    tokio::time::sleep(Duration::from_millis(*every as u64)).await;
                    let _ = peer.send_empty_frame().await;
                }
                tokio::time::sleep_until(end).await;
                last_stall_end = end;
                stalls.push((t0, end));
            }
        }
    }
    // ---- end of the timeline
    peer.settle().await;
    let open_until: Instant;
    match torn_now!() {
        Some((t, why)) => {
            info.timeout_due = true;
            if !done_early {
                check_teardown(c.steps.len(), t, &why, lb!(), ub!(), c)?;
            }
            open_until = t;
        }
        None => {
            if let Some(ub) = ub!() {
                if Instant::now() > ub {
                    return Err(format!("end: nothing has arrived for {:?} (local idle time-out {:?}) but the connection was not torn down", Instant::now() - last_peer_write(&ctl), l.unwrap()));
                }
            }
            open_until = Instant::now();
            // alive: a clean close must work (unless the time-out is about due right now)
            let due_now = lb!().map(|lb| Instant::now() + slack >= lb).unwrap_or(false);
            let (rtx, rrx) = tokio::sync::oneshot::channel();
            let sent = tx.send(Cmd::Close(rtx)).await.is_ok();
            let pa = async {
                peer.wait_for("close").await?;
                peer.send_frame(0, &Peer::close_body(None), &[]).await
            };
            let (rr, p) = tokio::join!(rrx, pa);
            if !due_now {
                if !sent {
                    return Err("end: the connection should be alive, but the application was told it closed".into());
                }
                p.map_err(|e| format!("end: the connection should be alive, but no close frame was written: {e}"))?;
                rr.unwrap_or_else(|_| Err("application task stopped".into())).map_err(|e| format!("end: the connection should be alive, but close() failed: {e}"))?;
            }
        }
    }
    drop(tx);
    let _ = app.await;
    // ---- heartbeats: frames written by the endpoint, with write times
    if let Some(r) = r {
        let tap = ctl.tap(0);
        let mut bytes = Vec::new();
        let mut times: Vec<(usize, Instant)> = Vec::new(); // (cumulative length, time)
        for (t, b) in &tap {
            bytes.extend_from_slice(b);
            times.push((bytes.len(), *t));
        }
        if let Ok((items, _)) = rframe::parse_stream(&bytes) {
            let mut ft: Vec<(Instant, &'static str)> = Vec::new();
            for it in &items {
                if let rframe::Item::Frame(f) = it {
                    let end = f.offset + f.size as usize;
                    if let Some((_, t)) = times.iter().find(|(cum, _)| *cum >= end) {
                        ft.push((*t, f.name()));
                    }
                }
            }
            info.heartbeats = ft.iter().filter(|f| f.1 == "empty").count() as u32;
            // the connection is open from the endpoint's open frame until its close frame (or teardown)
            let t_open = ft.iter().find(|f| f.1 == "open").map(|f| f.0);
            let t_close = ft.iter().find(|f| f.1 == "close").map(|f| f.0).unwrap_or(open_until).min(open_until);
            if let Some(t_open) = t_open {
                let mut prev = t_open;
                let mut pts: Vec<Instant> = ft.iter().map(|f| f.0).filter(|t| *t > t_open && *t <= t_close).collect();
                pts.push(t_close);
                for t in pts {
                    let gap = t.saturating_duration_since(prev);
                    let overlaps_stall = stalls.iter().any(|(a, b)| prev < *b + slack && t + slack > *a) && c.out_cap < (1 << 20);
                    if gap > r + slack && !overlaps_stall {
                        return Err(format!("the peer advertised idle-time-out {:?} but the endpoint wrote nothing between t={:?} and t={:?} ({:?}) while the connection was open", r, prev - t_start, t - t_start, gap));
                    }
                    prev = t;
                }
            }
        }
    }
    Ok(info)
}

fn check_teardown(step: usize, t: Instant, why: &str, lb: Option<Instant>, ub: Option<Instant>, c: &CaseB) -> Result<(), String> {
    match (lb, ub) {
        (Some(lb), Some(ub)) => {
            if t + Duration::from_millis(1) < lb {
                return Err(format!("step {step}: the connection was torn down ({why}) {:?} before the local idle time-out ({} ms after the peer's last frame) was due", lb - t, c.local_idle.unwrap_or(0)));
            }
            if t > ub {
                return Err(format!("step {step}: the connection was torn down ({why}) {:?} later than the local idle time-out allows", t - ub));
            }
            if !why.contains("IdleTimeout") {
                return Err(format!("step {step}: the local idle time-out elapsed but the application was told {why} instead of the time-out"));
            }
            Ok(())
        }
        _ => Err(format!("step {step}: the connection was torn down ({why}) although no local idle time-out is configured and the peer did nothing wrong")),
    }
}

// ---------------------------------------------------------------------------

fn run_sync<T>(seed: u64, fut: impl std::future::Future<Output = Result<T, String>>) -> Result<T, String> {
    match simnet::run_case(seed, fut).0 {
        CaseEnd::Done(r) => r,
        CaseEnd::Hang => Err(format!("HANG (virtual-time watchdog); wire so far:{}", simnet::describe_last_wire())),
    }
}

// ---------------------------------------------------------------------------
// (a') channel-max at the top of the range: every channel up to the agreed maximum is taken

#[derive(Clone, Debug, Serialize, Deserialize, Hash)]
pub struct CaseF {
    pub local_cm: u16,
    pub remote_cm: u16,
    /// which live session is ended before the final begin (scaled index)
    pub end_pick: u16,
    pub tokio_seed: u64,
}

/// A real client begins sessions until it is refused: exactly agreed+1 sessions on pairwise distinct
/// channels <= agreed; one more is refused locally without a frame; after one session ended a begin
/// succeeds again on a channel that no live session uses.
pub async fn run_full(c: &CaseF) -> Result<u32, String> {
    let (conn, mut peer, _ctl) = open_pair(0, Some(c.local_cm), None, Some(c.remote_cm), None, PipeCfg { cap: 1 << 22, ..PipeCfg::default() }).await?;
    let mut cn = match conn.map_err(|e| format!("open failed: {e}"))? {
        ConnH::C(c) => c,
        ConnH::L(_) => unreachable!(),
    };
    let agreed = c.local_cm.min(c.remote_cm) as u32;
    let mut used: std::collections::HashMap<u16, u16> = std::collections::HashMap::new(); // endpoint channel -> peer channel
    let mut sessions: Vec<(u16, SessionHandle<()>)> = Vec::new();
    let _ = peer.new_frames().await;
    for i in 0..=(agreed + 1) {
        let expect_ok = i <= agreed;
        let pch = i as u16;
        let fut = Session::builder().buffer_size(8).begin(&mut cn);
        let pa = async {
            let fs = peer.new_frames().await;
            let begins: Vec<RFrame> = fs.into_iter().filter(|f| f.name() == "begin").collect();
            if expect_ok {
                for b in &begins {
                    peer.send_frame(pch, &Peer::begin_body(Some(b.channel), 0, 2048, 2048, None), &[]).await?;
                }
            }
            Ok::<Vec<RFrame>, String>(begins)
        };
        let (r, begins) = if expect_ok {
            tokio::join!(fut, pa)
        } else {
            // a begin that is (wrongly) written must not be answered and must not hang the case
            tokio::pin!(fut);
            let begins = tokio::select! {
                biased;
                r = &mut fut => { let b = peer.new_frames().await.into_iter().filter(|f| f.name() == "begin").collect::<Vec<_>>(); (Some(r), Ok(b)) }
                b = pa => (None, b),
            };
            match begins {
                (Some(r), b) => (r, b),
                (None, b) => {
                    let b = b.map_err(|e| format!("HARNESS: {e}"))?;
                    if let Some(f) = b.first() {
                        return Err(format!(
                            "begin #{} was written on channel {} although all {} channels up to the agreed channel-max {agreed} carry live sessions (local channel-max {}, peer channel-max {}); channel {} {}",
                            i + 1,
                            f.channel,
                            agreed + 1,
                            c.local_cm,
                            c.remote_cm,
                            f.channel,
                            if used.contains_key(&f.channel) { "is still in use by a live session" } else { "is above the limit" }
                        ));
                    }
                    return Err(format!("begin #{} neither completed nor wrote a frame although no channel is free", i + 1));
                }
            }
        };
        let begins = begins.map_err(|e| format!("HARNESS: {e}"))?;
        for b in &begins {
            if b.channel as u32 > agreed {
                return Err(format!("a begin was written on channel {} above the agreed channel-max {agreed} (local channel-max {}, peer channel-max {})", b.channel, c.local_cm, c.remote_cm));
            }
            if used.contains_key(&b.channel) {
                return Err(format!("begin #{} was written on channel {} which a live session still uses ({} live sessions, agreed channel-max {agreed})", i + 1, b.channel, used.len()));
            }
        }
        match (r, begins.first(), expect_ok) {
            (Ok(s), Some(b), true) => {
                used.insert(b.channel, pch);
                sessions.push((b.channel, s));
            }
            (Err(_), None, false) => {}
            (Ok(_), _, false) | (_, Some(_), false) => return Err(format!("a session was begun although every channel up to the agreed channel-max {agreed} is in use ({} live sessions)", used.len())),
            (Err(e), _, true) => return Err(format!("begin #{} was refused ({e:?}) although a channel within the agreed channel-max {agreed} is free ({} live sessions)", i + 1, used.len())),
            (Ok(_), None, true) => return Err(format!("begin #{} completed without a begin frame on the wire", i + 1)),
        }
    }
    if used.len() as u32 != agreed + 1 {
        return Err(format!("{} sessions live, expected {}", used.len(), agreed + 1));
    }
    // end one session, then a begin succeeds again
    let k = (c.end_pick as usize * sessions.len()) >> 16;
    let (ech, mut s) = sessions.swap_remove(k);
    let pch = used.remove(&ech).unwrap();
    let pa = async {
        let e = peer.wait_for("end").await?;
        if e.channel != ech {
            return Err(format!("end written on channel {} for the session begun on channel {ech}", e.channel));
        }
        peer.send_frame(pch, &Peer::end_body(None), &[]).await
    };
    let (r, p) = tokio::join!(s.end(), pa);
    p?;
    r.map_err(|e| format!("end of the session on channel {ech} failed: {e:?}"))?;
    drop(s);
    let fut = Session::builder().buffer_size(8).begin(&mut cn);
    let pa = async {
        let fs = peer.new_frames().await;
        let begins: Vec<RFrame> = fs.into_iter().filter(|f| f.name() == "begin").collect();
        for b in &begins {
            peer.send_frame(pch, &Peer::begin_body(Some(b.channel), 0, 2048, 2048, None), &[]).await?;
        }
        Ok::<Vec<RFrame>, String>(begins)
    };
    let (r, begins) = tokio::join!(fut, pa);
    let begins = begins.map_err(|e| format!("HARNESS: {e}"))?;
    match (r, begins.first()) {
        (Ok(_s), Some(b)) => {
            if b.channel as u32 > agreed || used.contains_key(&b.channel) {
                return Err(format!("after a session ended, the next begin was written on channel {} (agreed channel-max {agreed}; in use: {})", b.channel, used.contains_key(&b.channel)));
            }
        }
        (Err(e), _) => return Err(format!("after a session ended (channel {ech} free again) begin was refused: {e:?}")),
        (Ok(_), None) => return Err("begin completed without a begin frame".into()),
    }
    Ok(agreed + 1)
}

fn sig(e: &str) -> String {
    if e.starts_with("HANG") {
        "hang".into()
    } else if e.contains("channel") {
        "channel-max".into()
    } else if e.contains("advertised idle-time-out") {
        "heartbeat".into()
    } else {
        "idle-timeout".into()
    }
}

fn run(ctx: &ShardCtx, rep: &mut Report) {
    MAX_SHRINK_ITERS.store(400, std::sync::atomic::Ordering::Relaxed);
    pt_run(ctx, rep, "channel-max", ctx.budget(60_000, 2_000_000), case_a_strategy(), |c, obs| match guarded(|| run_sync(c.tokio_seed, run_a(c))) {
        Ok(Ok(info)) => {
            obs.class(if c.role == 0 { "a:client" } else { "a:listener" });
            if info.limit_reached {
                obs.class("a:limit-reached");
            }
            if info.reused {
                obs.class("a:channel-reused");
            }
            if info.limit_reached || info.reused {
                obs.nontrivial(c);
            }
            Ok(())
        }
        Ok(Err(e)) => {
            obs.signature = Some(sig(&e));
            Err(e)
        }
        Err(p) => {
            obs.signature = Some(panic_signature(&p[0]));
            Err(format!("panic: {}", p.join(" | ")))
        }
    });
    pt_run(ctx, rep, "idle", ctx.budget(40_000, 2_000_000), case_b_strategy(), |c, obs| match guarded(|| run_sync(c.tokio_seed, run_b(c))) {
        Ok(Ok(info)) => {
            obs.class(if c.role == 0 { "b:client" } else { "b:listener" });
            for (b, n) in [(info.timeout_due, "b:timeout-fired"), (info.near_boundary, "b:gap-at-boundary"), (info.stalled, "b:peer-not-reading"), (info.heartbeats > 0, "b:heartbeats-seen")] {
                if b {
                    obs.class(n);
                }
            }
            if info.timeout_due || info.near_boundary || info.stalled {
                obs.nontrivial(c);
            }
            Ok(())
        }
        Ok(Err(e)) => {
            obs.signature = Some(sig(&e));
            Err(e)
        }
        Err(p) => {
            obs.signature = Some(panic_signature(&p[0]));
            Err(format!("panic: {}", p.join(" | ")))
        }
    });
    // (a') the top of the range: fixed cases spread over the shards (quick: the full range once)
    let full: Vec<CaseF> = match ctx.tier {
        Tier::Quick => vec![CaseF { local_cm: 65535, remote_cm: 65535, end_pick: (ctx.seed as u16).wrapping_mul(40503), tokio_seed: ctx.seed }],
        Tier::Thorough => vec![
            CaseF { local_cm: 65535, remote_cm: 65535, end_pick: (ctx.seed as u16).wrapping_mul(40503), tokio_seed: ctx.seed },
            CaseF { local_cm: 65535, remote_cm: 65534, end_pick: 0, tokio_seed: ctx.seed ^ 1 },
            CaseF { local_cm: 65534, remote_cm: 65535, end_pick: 65535, tokio_seed: ctx.seed ^ 2 },
            CaseF { local_cm: 40000, remote_cm: 65535, end_pick: 12345, tokio_seed: ctx.seed ^ 3 },
        ],
    };
    for (i, c) in full.iter().enumerate() {
        if (i as u32 + 3) % ctx.nshards != ctx.shard {
            continue;
        }
        ctx.journal("channel-max-full", &serde_json::to_value(c).unwrap());
        rep.evaluations += 1;
        match guarded(|| run_sync(c.tokio_seed, run_full(c))) {
            Ok(Ok(n)) => {
                rep.class("a':every-channel-in-use");
                rep.nontrivial.insert(hash_of(c));
                rep.nontrivial_evals += 1;
                if rep.samples.len() < 6 {
                    rep.sample(serde_json::json!({"case": c, "sessions_live_at_refusal": n}));
                }
            }
            Ok(Err(e)) => rep.violations.push(Violation { variant: "channel-max-full".into(), signature: sig(&e), detail: e, case: serde_json::to_value(c).unwrap() }),
            Err(p) => rep.violations.push(Violation { variant: "channel-max-full".into(), signature: panic_signature(&p[0]), detail: format!("panic: {}", p.join(" | ")), case: serde_json::to_value(c).unwrap() }),
        }
    }
    let _ = BTreeMap::<u8, u8>::new();
}

fn replay(variant: &str, case_json: &Json) -> Result<(), String> {
    let v = variant.strip_suffix("!raw").unwrap_or(variant);
    let r = if v == "channel-max" {
        let c: CaseA = serde_json::from_value(case_json.clone()).map_err(|e| format!("bad case: {e}"))?;
        guarded(|| run_sync(c.tokio_seed, run_a(&c)).map(|_| ()))
    } else if v == "channel-max-full" {
        let c: CaseF = serde_json::from_value(case_json.clone()).map_err(|e| format!("bad case: {e}"))?;
        guarded(|| run_sync(c.tokio_seed, run_full(&c)).map(|_| ()))
    } else {
        let c: CaseB = serde_json::from_value(case_json.clone()).map_err(|e| format!("bad case: {e}"))?;
        guarded(|| run_sync(c.tokio_seed, run_b(&c)).map(|_| ()))
    };
    match r {
        Ok(r) => r,
        Err(p) => Err(format!("panic: {}", p.join(" | "))),
    }
}
