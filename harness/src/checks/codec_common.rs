//! helpers shared by the codec properties (C03, C04, C05, C20)
use crate::refcodec::RValue;

/// does the value cross an 8/32-bit width boundary somewhere (var-width length >= 256 or compound > 255)?
pub fn crosses_width(r: &RValue) -> bool {
    match r {
        RValue::Binary(b) => b.len() >= 254,
        RValue::Str(s) | RValue::Sym(s) => s.len() >= 254,
        RValue::List(v) | RValue::Array(v) => v.len() >= 254 || v.iter().any(crosses_width),
        RValue::Map(v) => v.len() >= 127 || v.iter().any(|(k, x)| crosses_width(k) || crosses_width(x)),
        RValue::Described(d, v) => crosses_width(d) || crosses_width(v),
        _ => false,
    }
}

pub fn nontrivial_value(r: &RValue) -> bool {
    r.is_compound() || crosses_width(r)
}

pub fn class_of(r: &RValue) -> &'static str {
    match r {
        RValue::List(_) => "list",
        RValue::Map(_) => "map",
        RValue::Array(v) => match v.first() {
            None => "array-empty",
            Some(e) if e.is_compound() => "array-of-compound",
            Some(_) => "array-of-primitive",
        },
        RValue::Described(..) => "described",
        RValue::Str(_) | RValue::Sym(_) | RValue::Binary(_) => "variable-width",
        _ => "fixed-width",
    }
}

/// walk all nodes
pub fn any_node(r: &RValue, f: &dyn Fn(&RValue) -> bool) -> bool {
    if f(r) {
        return true;
    }
    match r {
        RValue::List(v) | RValue::Array(v) => v.iter().any(|x| any_node(x, f)),
        RValue::Map(v) => v.iter().any(|(k, x)| any_node(k, f) || any_node(x, f)),
        RValue::Described(d, v) => any_node(d, f) || any_node(v, f),
        _ => false,
    }
}

/// Rewrite the classes of open known findings out of a generated value (by construction,
/// not rejection); returns the ids of the findings whose class was present.
pub fn carve_known(r: &RValue, open: &[String], hit: &mut Vec<String>) -> RValue {
    let is_open = |id: &str| open.iter().any(|o| o == id);
    let rec = |x: &RValue, hit: &mut Vec<String>| carve_known(x, open, hit);
    match r {
        RValue::List(v) => RValue::List(v.iter().map(|x| rec(x, hit)).collect()),
        RValue::Map(v) => {
            // carving may make two keys equal; keep the first (a map has distinct keys)
            let mut out: Vec<(RValue, RValue)> = Vec::new();
            for (k, x) in v {
                let k2 = rec(k, hit);
                if !out.iter().any(|(e, _)| e == &k2) {
                    out.push((k2, rec(x, hit)));
                }
            }
            RValue::Map(out)
        }
        RValue::Described(d, v) => RValue::described(rec(d, hit), rec(v, hit)),
        RValue::Array(v) => {
            let elems: Vec<RValue> = v.iter().map(|x| rec(x, hit)).collect();
            let compound = elems.first().map(|e| e.is_compound()).unwrap_or(false);
            if compound && is_open("KF-codec-array-of-compound") {
                note(hit, "KF-codec-array-of-compound");
                return RValue::List(elems);
            }
            let zero_width = elems.first().map(|e| matches!(e, RValue::Null)).unwrap_or(false);
            if zero_width && is_open("KF-codec-array-of-null") {
                note(hit, "KF-codec-array-of-null");
                return RValue::List(elems);
            }
            if elems.is_empty() && is_open("KF-codec-empty-array-no-constructor") {
                note(hit, "KF-codec-empty-array-no-constructor");
                return RValue::Null;
            }
            RValue::Array(elems)
        }
        other => other.clone(),
    }
}

fn note(hit: &mut Vec<String>, id: &str) {
    if !hit.iter().any(|h| h == id) {
        hit.push(id.to_string());
    }
}

/// open finding ids relevant for a direction: findings that only concern what the encoder
/// emits are not carved out of decoder-side ("in") checks
pub fn open_for_decoder_side(open: &[String]) -> Vec<String> {
    open.iter().filter(|o| o.as_str() != "KF-codec-empty-array-no-constructor").cloned().collect()
}
