//! C04 — decoding untrusted bytes is total and resource-bounded
use crate::alloc;
use crate::checks::typed;
use crate::conv;
use crate::driver::*;
use crate::gen;
use crate::refcodec::{self, hex, unhex, Choices, MarkKind, RValue};
use crate::spec;
use bytes::BytesMut;
use fe2o3_amqp::frames;
use fe2o3_amqp_types::messaging::message::__private::{Deserializable, Serializable};
use fe2o3_amqp_types::messaging::{Body, Message};
use fe2o3_amqp_types::performatives::Performative;
use proptest::collection::vec;
use proptest::prelude::*;
use serde::{Deserialize, Serialize};
use serde_amqp::lazy::LazyValue;
use serde_amqp::read::{IoReader, SliceReader};
use serde_amqp::Value;
use serde_json::{json, Value as Json};
use std::sync::mpsc;
use tokio_util::codec::Decoder;

pub fn meta() -> PropMeta {
    PropMeta {
        id: "C04",
        level: "exploration",
        rule: "byte strings: (a) exhaustive: every string of length <=2 (quick) / <=3 (thorough), plus every 3-byte string starting with a variable/compound/array/described constructor; (b) structure-aware corruptions of valid encodings (reference- and implementation-encoded values, performatives, SASL bodies, messages): truncation at every offset, each size/count/length field (located by the reference decoder) replaced by 0, 1, v-1, v+1, 2v, 0x7f.., 0xff.., remaining+-1, constructor bytes replaced by every other code incl. unknown ones, invalid UTF-8, odd map counts; (c) nesting bombs (list8/list32/map/array/described chains, depth up to 64 KiB of input) ; each decoded as Value, Performative, SASL frame body, Message<Body<Value>>, LazyValue through slice and io readers and through FrameDecoder / sasl::FrameCodec, on a thread with a 2 MiB stack in a crash-isolated worker built with overflow checks. Oracle: Ok or Err, no panic, no abort/stack overflow (worker exit status + journal), decoded Value node count <= 16*len+64, peak allocation <= 512*len+64KiB and no single request > 256 MiB, and if Ok: decode(encode(v))==v. Non-trivial: input decodes to a compound, or is a corruption of a valid compound not rejected at its first byte; distinct by hash of (target, bytes).",
        assumptions: &[
            "engine tasks decode frames on tokio worker threads: 2 MiB stack is the budget used for 'never exhausts the stack'",
            "allocation is measured by a counting global allocator active only around the decode call on the decoding thread",
            "wall-clock is never a violation signal",
        ],
        nontrivial_floor: 0.05,
        run,
        replay,
        crashy: true,
    }
}

pub const N_TARGETS: u8 = 12;

pub fn target_name(t: u8) -> &'static str {
    match t {
        0 => "value/slice",
        1 => "value/reader",
        2 => "performative/slice",
        3 => "performative/reader",
        4 => "sasl-frame/slice",
        5 => "sasl-frame/reader",
        6 => "message/slice",
        7 => "message/reader",
        8 => "lazy/slice",
        9 => "lazy/reader",
        10 => "frame-decoder",
        _ => "sasl-frame-codec",
    }
}

#[derive(Debug)]
pub struct Outcome {
    /// "ok" or error kind
    pub kind: String,
    pub ok: bool,
    pub compound: bool,
}

type Msg = Message<Body<Value>>;

fn err_kind<E: std::fmt::Display>(e: E) -> String {
    let s = e.to_string();
    s.split(|c: char| c == ':' || c == '(').next().unwrap_or("").trim().chars().take(32).collect()
}

/// does the Debug rendering of a decoded value show an array class covered by an open known
/// finding (arrays of null / of compound elements do not re-encode faithfully)?
fn shows_known_array_class(dbg: &str) -> bool {
    if !SKIP_ARRAY_CLASSES.load(std::sync::atomic::Ordering::Relaxed) {
        return false;
    }
    ["Array([Null", "Array([List(", "Array([Map(", "Array([Array(", "Array([Described("].iter().any(|p| dbg.contains(p))
}
static SKIP_ARRAY_CLASSES: std::sync::atomic::AtomicBool = std::sync::atomic::AtomicBool::new(false);
pub static SKIPPED_KNOWN: std::sync::atomic::AtomicU64 = std::sync::atomic::AtomicU64::new(0);

fn reencode_check<T, F>(v: &T, dec: F) -> Result<(), String>
where
    T: Serialize + std::fmt::Debug,
    F: Fn(&[u8]) -> Result<T, String>,
{
    if shows_known_array_class(&format!("{v:?}")) {
        SKIPPED_KNOWN.fetch_add(1, std::sync::atomic::Ordering::Relaxed);
        return Ok(());
    }
    let b2 = match serde_amqp::to_vec(v) {
        Ok(b) => b,
        // a decoded value the encoder refuses is not a round-trip failure of decode∘encode
        Err(_) => return Ok(()),
    };
    let v2 = dec(&b2).map_err(|e| format!("decoded value does not decode again after re-encoding: {e}; value={v:?} re-encoded={}", hex(&b2)))?;
    let (a, b) = (format!("{v:?}"), format!("{v2:?}"));
    if a != b {
        return Err(format!("decode(encode(v)) != v: v={a} again={b} re-encoded={}", hex(&b2)));
    }
    Ok(())
}

/// decode `bytes` as target `t`; Err = property violation (not a decode error)
pub fn decode_target(t: u8, bytes: &[u8]) -> Result<Outcome, String> {
    let len = bytes.len();
    let w = alloc::begin();
    let res: Result<(bool, Option<usize>, Box<dyn FnOnce() -> Result<(), String>>), String> = match t {
        0 | 1 => {
            let r: Result<Value, _> = if t == 0 { serde_amqp::from_slice(bytes) } else { serde_amqp::from_reader(bytes) };
            match r {
                Ok(v) => {
                    let rv = conv::from_value(&v);
                    let nodes = rv.node_count();
                    let compound = rv.is_compound();
                    Ok((compound, Some(nodes), Box::new(move || reencode_check(&v, |b| serde_amqp::from_slice::<Value>(b).map_err(|e| e.to_string())))))
                }
                Err(e) => Err(err_kind(e)),
            }
        }
        2 | 3 => {
            let r: Result<Performative, _> = if t == 2 { serde_amqp::from_slice(bytes) } else { serde_amqp::from_reader(bytes) };
            match r {
                Ok(v) => Ok((true, None, Box::new(move || reencode_check(&v, |b| serde_amqp::from_slice::<Performative>(b).map_err(|e| e.to_string()))))),
                Err(e) => Err(err_kind(e)),
            }
        }
        4 | 5 => {
            let r: Result<frames::sasl::Frame, _> = if t == 4 { serde_amqp::from_slice(bytes) } else { serde_amqp::from_reader(bytes) };
            match r {
                Ok(v) => Ok((true, None, Box::new(move || reencode_check(&v, |b| serde_amqp::from_slice::<frames::sasl::Frame>(b).map_err(|e| e.to_string()))))),
                Err(e) => Err(err_kind(e)),
            }
        }
        6 | 7 => {
            let r: Result<Deserializable<Msg>, _> = if t == 6 { serde_amqp::from_slice(bytes) } else { serde_amqp::from_reader(bytes) };
            match r {
                Ok(v) => {
                    let m = v.0;
                    Ok((
                        true,
                        None,
                        Box::new(move || {
                            if shows_known_array_class(&format!("{m:?}")) {
                                SKIPPED_KNOWN.fetch_add(1, std::sync::atomic::Ordering::Relaxed);
                                return Ok(());
                            }
                            let b2 = match serde_amqp::to_vec(&Serializable(&m)) {
                                Ok(b) => b,
                                Err(_) => return Ok(()),
                            };
                            let again: Deserializable<Msg> = serde_amqp::from_slice(&b2).map_err(|e| format!("decoded message does not decode again: {e}; {m:?} re-encoded={}", hex(&b2)))?;
                            if again.0 != m {
                                // KF-message-empty-body: a body without any section (Empty, or a batch of zero data /
                                // sequence sections) does not survive re-encoding
                                let no_section = match &m.body {
                                    Body::Empty => true,
                                    Body::Data(v) => v.is_empty(),
                                    Body::Sequence(v) => v.is_empty(),
                                    _ => false,
                                };
                                if no_section && SKIP_EMPTY_BODY_GLOBAL.load(std::sync::atomic::Ordering::Relaxed) {
                                    SKIPPED_KNOWN.fetch_add(1, std::sync::atomic::Ordering::Relaxed);
                                    return Ok(());
                                }
                                return Err(format!("decode(encode(m)) != m: {m:?} vs {:?}", again.0));
                            }
                            Ok(())
                        }),
                    ))
                }
                Err(e) => Err(err_kind(e)),
            }
        }
        8 | 9 => {
            let r = if t == 8 {
                let mut sr = SliceReader::new(bytes);
                LazyValue::from_reader(&mut sr)
            } else {
                let mut ir = IoReader::new(bytes);
                LazyValue::from_reader(&mut ir)
            };
            match r {
                Ok(l) => {
                    if l.as_slice().len() > len {
                        return Err(format!("LazyValue holds {} bytes from a {}-byte input", l.as_slice().len(), len));
                    }
                    Ok((l.as_slice().first().map(|b| *b >= 0xc0 || *b == 0).unwrap_or(false), None, Box::new(|| Ok(()))))
                }
                Err(e) => Err(err_kind(e)),
            }
        }
        10 => {
            let mut src = BytesMut::from(bytes);
            let mut d = frames::amqp::FrameDecoder {};
            match d.decode(&mut src) {
                Ok(_) => Ok((true, None, Box::new(|| Ok(())))),
                Err(e) => Err(err_kind(e)),
            }
        }
        _ => {
            let mut src = BytesMut::from(bytes);
            let mut d = frames::sasl::FrameCodec {};
            match d.decode(&mut src) {
                Ok(_) => Ok((true, None, Box::new(|| Ok(())))),
                Err(e) => Err(err_kind(e)),
            }
        }
    };
    let (peak, maxreq) = w.end();
    let budget = 512 * len + (64 << 10);
    if peak > budget {
        return Err(format!("ALLOC: peak allocation {} bytes (largest single request {}) while decoding a {}-byte input as {} (budget {})", peak, maxreq, len, target_name(t), budget));
    }
    match res {
        Ok((compound, nodes, recheck)) => {
            if let Some(n) = nodes {
                if n > 16 * len + 64 {
                    return Err(format!("WORK: decoded value has {} nodes from a {}-byte input as {}", n, len, target_name(t)));
                }
            }
            recheck()?;
            Ok(Outcome { kind: "ok".into(), ok: true, compound })
        }
        Err(kind) => Ok(Outcome { kind, ok: false, compound: false }),
    }
}

// ---------------------------------------------------------------------------
// decoding thread with a realistic stack

pub struct Runner {
    tx: mpsc::Sender<(String, Vec<(u8, Vec<u8>)>)>,
    rx: mpsc::Receiver<Vec<Result<Outcome, (String, String)>>>,
}

pub const DECODE_STACK: usize = 2 << 20;

fn journal_line(path: &str, file: &mut Option<std::fs::File>, t: u8, bytes: &[u8]) {
    use std::os::unix::fs::FileExt;
    if path.is_empty() {
        return;
    }
    if file.is_none() {
        *file = std::fs::OpenOptions::new().create(true).write(true).open(path).ok();
    }
    if let Some(f) = file.as_mut() {
        // one pwrite per case; the parent reads the first line only
        let line = format!("{{\"variant\":\"bytes\",\"case\":{{\"target\":{},\"hex\":\"{}\",\"how\":\"journal\"}}}}\n", t, hex(bytes));
        let _ = f.write_at(line.as_bytes(), 0);
    }
}

fn classify(t: u8, r: Result<Result<Outcome, String>, Vec<String>>) -> Result<Outcome, (String, String)> {
    match r {
        Ok(Ok(o)) => Ok(o),
        Ok(Err(v)) => {
            let sig = if v.starts_with("ALLOC") {
                "alloc-budget".to_string()
            } else if v.starts_with("WORK") {
                "work-budget".to_string()
            } else {
                format!("reencode:{}", target_name(t))
            };
            Err((sig, v))
        }
        Err(p) => Err((panic_signature(&p[0]), format!("panic while decoding as {}: {}", target_name(t), p.join(" | ")))),
    }
}

impl Runner {
    pub fn new() -> Runner {
        let (tx, rxw) = mpsc::channel::<(String, Vec<(u8, Vec<u8>)>)>();
        let (txw, rx) = mpsc::channel();
        std::thread::Builder::new()
            .stack_size(DECODE_STACK)
            .name("decode".into())
            .spawn(move || {
                let mut jf: Option<std::fs::File> = None;
                while let Ok((journal, batch)) = rxw.recv() {
                    let mut out = Vec::with_capacity(batch.len());
                    for (t, bytes) in batch {
                        journal_line(&journal, &mut jf, t, &bytes);
                        let r = guarded(|| decode_target(t, &bytes));
                        out.push(classify(t, r));
                    }
                    if txw.send(out).is_err() {
                        break;
                    }
                }
            })
            .expect("spawn decode thread");
        Runner { tx, rx }
    }
    pub fn run_batch(&self, journal: &str, batch: Vec<(u8, Vec<u8>)>) -> Vec<Result<Outcome, (String, String)>> {
        self.tx.send((journal.to_string(), batch)).expect("decode thread alive");
        self.rx.recv().expect("decode thread alive")
    }
    pub fn run(&self, journal: &str, t: u8, bytes: &[u8]) -> Result<Outcome, (String, String)> {
        self.run_batch(journal, vec![(t, bytes.to_vec())]).pop().unwrap()
    }
}

thread_local! {
    static RUNNER: Runner = Runner::new();
    /// open known finding KF-message-empty-body: Body::Empty re-encodes as amqp-value(null)
    pub static SKIP_EMPTY_BODY: std::cell::Cell<bool> = const { std::cell::Cell::new(false) };
}
static SKIP_EMPTY_BODY_GLOBAL: std::sync::atomic::AtomicBool = std::sync::atomic::AtomicBool::new(false);

#[derive(Clone, Debug, Serialize, Deserialize, Hash)]
pub struct Case {
    pub target: u8,
    pub hex: String,
    /// how the input was made (for the reader)
    pub how: String,
}

fn run_case(ctx: &ShardCtx, c: &Case, obs: &mut Obs, base_compound: bool) -> Result<(), String> {
    let bytes = unhex(&c.hex);
    let r = RUNNER.with(|r| r.run(&ctx.journal, c.target, &bytes));
    digest(c, r, obs, base_compound)
}

fn digest(c: &Case, r: Result<Outcome, (String, String)>, obs: &mut Obs, base_compound: bool) -> Result<(), String> {
    match r {
        Ok(o) => {
            obs.class(&format!("outcome:{}", if o.ok { "ok".to_string() } else { format!("err:{}", o.kind) }));
            if o.compound || (base_compound && o.kind != "Invalid format code") {
                obs.nontrivial(&(c.target, &c.hex));
            }
            Ok(())
        }
        Err((sig, detail)) => {
            obs.signature = Some(sig);
            Err(format!("{detail}; input={}", c.hex))
        }
    }
}

// ---------------------------------------------------------------------------
// generators

#[derive(Clone, Debug)]
enum Mutation {
    Truncate(u16),
    Field(u16, u8),
    Cons(u16, u8),
    Flip(u16, u8),
    BadUtf8(u16),
    None,
}

fn mutation() -> BoxedStrategy<Mutation> {
    prop_oneof![
        3 => any::<u16>().prop_map(Mutation::Truncate),
        6 => (any::<u16>(), 0u8..10).prop_map(|(i, k)| Mutation::Field(i, k)),
        3 => (any::<u16>(), any::<u8>()).prop_map(|(i, b)| Mutation::Cons(i, b)),
        2 => (any::<u16>(), any::<u8>()).prop_map(|(i, b)| Mutation::Flip(i, b)),
        1 => any::<u16>().prop_map(Mutation::BadUtf8),
        1 => Just(Mutation::None),
    ]
    .boxed()
}

fn idx(i: u16, len: usize) -> usize {
    ((i as usize) * len) >> 16
}

fn apply(base: &[u8], m: &Mutation) -> (Vec<u8>, String) {
    let mut b = base.to_vec();
    if b.is_empty() {
        return (b, "empty".into());
    }
    let marks = refcodec::marks(base).unwrap_or_default();
    match m {
        Mutation::None => (b, "valid".into()),
        Mutation::Truncate(i) => {
            let at = idx(*i, b.len());
            b.truncate(at);
            (b, format!("truncate@{at}"))
        }
        Mutation::Flip(i, x) => {
            let at = idx(*i, b.len());
            b[at] ^= x | 1;
            (b, format!("flip@{at}"))
        }
        Mutation::BadUtf8(i) => {
            let at = idx(*i, b.len());
            b[at] = [0xff, 0xc0, 0xed, 0xf8][at % 4];
            (b, format!("badbyte@{at}"))
        }
        Mutation::Cons(i, x) => {
            let cons: Vec<_> = marks.iter().filter(|m| matches!(m.kind, MarkKind::Cons | MarkKind::DescMarker)).collect();
            if cons.is_empty() {
                return (b, "valid".into());
            }
            let m = cons[idx(*i, cons.len())];
            b[m.pos] = *x;
            (b, format!("cons@{}={:#x}", m.pos, x))
        }
        Mutation::Field(i, k) => {
            let fields: Vec<_> = marks.iter().filter(|m| !matches!(m.kind, MarkKind::Cons | MarkKind::DescMarker)).collect();
            if fields.is_empty() {
                return (b, "valid".into());
            }
            let m = fields[idx(*i, fields.len())];
            let wide = matches!(m.kind, MarkKind::Size32 | MarkKind::Count32 | MarkKind::Len32);
            let remaining = (base.len() - m.pos) as u32;
            let v = m.val;
            let newv: u32 = match k {
                0 => 0,
                1 => 1,
                2 => v.wrapping_sub(1),
                3 => v.wrapping_add(1),
                4 => v.wrapping_mul(2),
                5 => 0x7fff_ffff,
                6 => 0xffff_ffff,
                7 => remaining.wrapping_add(1),
                8 => remaining.wrapping_sub(if wide { 5 } else { 2 }),
                _ => v.wrapping_add(if wide { 1 << 16 } else { 16 }),
            };
            if wide {
                b[m.pos..m.pos + 4].copy_from_slice(&newv.to_be_bytes());
            } else {
                b[m.pos] = newv as u8;
            }
            (b, format!("{:?}@{}:{}->{}", m.kind, m.pos, v, if wide { newv } else { newv & 0xff }))
        }
    }
}

/// (target, valid encoding, is-compound)
fn base_encoding() -> BoxedStrategy<(u8, Vec<u8>, bool)> {
    let val = (gen::rvalue(gen::GenCfg { depth: 4, breadth: 4, big: false, size: 24 }), gen::choices_bytes(), 0u8..2, prop_oneof![Just(0u8), Just(1), Just(8), Just(9)]).prop_map(|(r, ch, who, t)| {
        let bytes = if who == 0 {
            refcodec::encode(&r, &mut Choices::new(ch))
        } else {
            // the encoder's own defects are C03/C05 matter: fall back to the reference encoding
            match guarded(|| serde_amqp::to_vec(&conv::to_value(&r))) {
                Ok(Ok(b)) => b,
                _ => refcodec::encode_compact(&r),
            }
        };
        (t, bytes, r.is_compound())
    });
    let perf = ((0usize..9).prop_flat_map(|i| spec::composite_value(spec::PERFORMATIVES[i], 0)), gen::choices_bytes(), prop_oneof![Just(2u8), Just(3), Just(10), Just(0), Just(8)]).prop_map(|(r, ch, t)| {
        let body = refcodec::encode(&r, &mut Choices::new(ch));
        let bytes = if t == 10 {
            let mut f = vec![2u8, 0, 0, 0];
            f.extend_from_slice(&body);
            f
        } else {
            body
        };
        (t, bytes, true)
    });
    let sasl = ((0usize..5).prop_flat_map(|i| spec::composite_value(spec::SASL_BODIES[i], 0)), gen::choices_bytes(), prop_oneof![Just(4u8), Just(5), Just(11)]).prop_map(|(r, ch, t)| {
        let body = refcodec::encode(&r, &mut Choices::new(ch));
        let bytes = if t == 11 {
            let mut f = vec![2u8, 1, 0, 0];
            f.extend_from_slice(&body);
            f
        } else {
            body
        };
        (t, bytes, true)
    });
    let msg = (typed::message_sections(gen::rvalue(gen::GenCfg { depth: 3, breadth: 3, big: false, size: 12 })), gen::choices_bytes(), prop_oneof![Just(6u8), Just(7)]).prop_map(|(secs, ch, t)| {
        let mut c = Choices::new(ch);
        let mut bytes = Vec::new();
        for s in &secs {
            refcodec::encode_into(s, &mut c, &mut bytes);
        }
        (t, bytes, true)
    });
    prop_oneof![4 => val, 3 => perf, 1 => sasl, 2 => msg].boxed()
}

fn corruption_case() -> BoxedStrategy<(Case, bool)> {
    (base_encoding(), mutation())
        .prop_map(|((t, base, compound), m)| {
            let (bytes, how) = apply(&base, &m);
            (Case { target: t, hex: hex(&bytes), how }, compound)
        })
        .boxed()
}

/// deeply nested inputs: chains of compound/described constructors
fn bomb_case() -> BoxedStrategy<Case> {
    (0u8..7, prop_oneof![Just(64usize), Just(300), Just(1000), Just(5000), Just(20000), 1usize..65000], 0u8..N_TARGETS)
        .prop_map(|(kind, depth, t)| {
            let mut b: Vec<u8> = Vec::new();
            if t == 10 {
                b.extend_from_slice(&[2, 0, 0, 0]);
            }
            if t == 11 {
                b.extend_from_slice(&[2, 1, 0, 0]);
            }
            match kind {
                // described chains: 00 <descriptor> <value = described ...>
                0 => {
                    for _ in 0..depth.min(21000) {
                        b.extend_from_slice(&[0x00, 0x44]);
                    }
                    b.push(0x40);
                }
                // descriptor chains: 00 00 00 ... (descriptor is itself described)
                1 => {
                    b.extend(std::iter::repeat(0x00).take(depth));
                    b.push(0x40);
                }
                // list8 chain with bogus (large) sizes so that nesting is not limited by the size byte
                2 => {
                    for _ in 0..depth.min(21000) {
                        b.extend_from_slice(&[0xc0, 0xff, 0x01]);
                    }
                    b.push(0x40);
                }
                // properly sized list32 nesting
                3 => {
                    let d = depth.min(7000);
                    let mut inner = vec![0x45u8];
                    for _ in 0..d {
                        let mut o = vec![0xd0];
                        o.extend_from_slice(&((inner.len() + 4) as u32).to_be_bytes());
                        o.extend_from_slice(&1u32.to_be_bytes());
                        o.extend_from_slice(&inner);
                        inner = o;
                        if inner.len() > 64000 {
                            break;
                        }
                    }
                    b.extend_from_slice(&inner);
                }
                // map chain
                4 => {
                    for _ in 0..depth.min(16000) {
                        b.extend_from_slice(&[0xc1, 0xff, 0x02, 0x40]);
                    }
                    b.push(0x40);
                }
                // array of arrays
                5 => {
                    for _ in 0..depth.min(21000) {
                        b.extend_from_slice(&[0xe0, 0xff, 0x01]);
                    }
                    b.push(0x40);
                }
                // amqp-value section / composite nesting: described lists
                _ => {
                    for _ in 0..depth.min(12000) {
                        b.extend_from_slice(&[0x00, 0x53, 0x77, 0xc0, 0xff, 0x01]);
                    }
                    b.push(0x40);
                }
            }
            b.truncate(65536);
            Case { target: t, hex: hex(&b), how: format!("bomb kind={kind} depth={depth}") }
        })
        .boxed()
}

/// allocation bombs: huge declared lengths/counts with almost no data
fn length_bomb_case() -> BoxedStrategy<Case> {
    (
        prop_oneof![Just(0xb0u8), Just(0xb1), Just(0xb3), Just(0xd0), Just(0xd1), Just(0xf0)],
        prop_oneof![Just(0xffff_ffffu32), Just(0x7fff_ffff), Just(0x1000_0000), Just(0x0100_0000), Just(65537), any::<u32>()],
        prop_oneof![Just(0u32), Just(1), Just(65536), Just(65537), Just(0x7fff_ffff), any::<u32>()],
        vec(any::<u8>(), 0..8),
        0u8..N_TARGETS,
        any::<bool>(),
    )
        .prop_map(|(code, len, count, tail, t, wrap)| {
            let mut v = vec![code];
            v.extend_from_slice(&len.to_be_bytes());
            if code >= 0xd0 {
                v.extend_from_slice(&count.to_be_bytes());
            }
            v.extend_from_slice(&tail);
            let mut b = Vec::new();
            if t == 10 {
                b.extend_from_slice(&[2, 0, 0, 0]);
            }
            if t == 11 {
                b.extend_from_slice(&[2, 1, 0, 0]);
            }
            if wrap {
                // inside a described performative-like list so that typed targets reach it
                b.extend_from_slice(&[0x00, 0x53, 0x14, 0xc0, 0xff, 0x02, 0x43]);
            }
            b.extend_from_slice(&v);
            Case { target: t, hex: hex(&b), how: format!("length-bomb code={code:#x} len={len} count={count}") }
        })
        .boxed()
}

fn exhaustive(ctx: &ShardCtx, rep: &mut Report) {
    let interesting_first: Vec<u8> = vec![0x00, 0xa0, 0xa1, 0xa3, 0xb0, 0xb1, 0xb3, 0xc0, 0xc1, 0xd0, 0xd1, 0xe0, 0xf0];
    let mut seen_sig = std::collections::HashSet::new();
    let mut n: u64 = 0;
    let mut batch: Vec<(u8, Vec<u8>)> = Vec::with_capacity(4096);
    let mut flush = |batch: &mut Vec<(u8, Vec<u8>)>, rep: &mut Report| {
        if batch.is_empty() {
            return;
        }
        let cases: Vec<(u8, Vec<u8>)> = std::mem::take(batch);
        let results = RUNNER.with(|r| r.run_batch(&ctx.journal, cases.clone()));
        for ((t, bytes), r) in cases.into_iter().zip(results) {
            let c = Case { target: t, hex: hex(&bytes), how: "exhaustive".into() };
            let mut obs = Obs::default();
            let r = digest(&c, r, &mut obs, bytes.first().map(|b| *b >= 0xc0 || *b == 0).unwrap_or(false));
            rep.evaluations += 1;
            if let Some(h) = obs.nontrivial {
                rep.nontrivial.insert(h);
            }
            for cl in &obs.classes {
                rep.class(cl);
            }
            if let Err(e) = r {
                let sig = obs.signature.clone().unwrap_or_else(|| "exhaustive".into());
                if seen_sig.insert(sig.clone()) {
                    rep.violations.push(Violation { variant: "bytes".into(), signature: sig, detail: e, case: serde_json::to_value(&c).unwrap() });
                }
            }
        }
    };
    let mut exec = |bytes: &[u8], targets: &[u8], rep: &mut Report| {
        for t in targets {
            n += 1;
            if n % ctx.nshards as u64 != ctx.shard as u64 {
                continue;
            }
            batch.push((*t, bytes.to_vec()));
            if batch.len() >= 4096 {
                flush(&mut batch, rep);
            }
        }
    };
    let all: Vec<u8> = (0..N_TARGETS).collect();
    // 3-byte strings in the quick tier: one representative per decoding path
    let quick3: Vec<u8> = vec![0, 3, 6, 9, 10];
    exec(&[], &all, rep);
    for a in 0..=255u8 {
        exec(&[a], &all, rep);
        for b in 0..=255u8 {
            exec(&[a, b], &all, rep);
        }
    }
    match ctx.tier {
        Tier::Quick => {
            for a in &interesting_first {
                for b in 0..=255u8 {
                    for c in 0..=255u8 {
                        exec(&[*a, b, c], &quick3, rep);
                    }
                }
            }
        }
        Tier::Thorough => {
            for a in 0..=255u8 {
                for b in 0..=255u8 {
                    for c in 0..=255u8 {
                        exec(&[a, b, c], &all, rep);
                    }
                }
            }
        }
    }
    drop(exec);
    flush(&mut batch, rep);
    rep.notes.push(match ctx.tier {
        Tier::Quick => "exhaustive: all strings of length <=2 x 12 targets, and all 3-byte strings with a variable/compound/array/described first byte x 5 targets (value/slice, performative/reader, message/slice, lazy/reader, frame-decoder)".to_string(),
        Tier::Thorough => "exhaustive: all strings of length <=3 x 12 targets".to_string(),
    });
    rep.exhaustive = true;
}

fn run(ctx: &ShardCtx, rep: &mut Report) {
    SKIP_EMPTY_BODY_GLOBAL.store(ctx.is_open("KF-message-empty-body"), std::sync::atomic::Ordering::Relaxed);
    SKIP_ARRAY_CLASSES.store(ctx.is_open("KF-codec-array-of-null") || ctx.is_open("KF-codec-array-of-compound"), std::sync::atomic::Ordering::Relaxed);
    exhaustive(ctx, rep);
    pt_run(ctx, rep, "corruption", ctx.budget(400_000, 30_000_000), corruption_case(), |c, o| {
        o.class(&format!("mut:{}", c.0.how.split('@').next().unwrap_or("?").split(':').next().unwrap_or("?")));
        run_case(ctx, &c.0, o, c.1)
    });
    pt_run(ctx, rep, "bomb", ctx.budget(3_000, 100_000), bomb_case(), |c, o| {
        o.class("bomb");
        run_case(ctx, c, o, true)
    });
    pt_run(ctx, rep, "length-bomb", ctx.budget(20_000, 1_000_000), length_bomb_case(), |c, o| {
        o.class("length-bomb");
        run_case(ctx, c, o, true)
    });
    let sk = SKIPPED_KNOWN.load(std::sync::atomic::Ordering::Relaxed);
    if sk > 0 {
        *rep.excluded.entry("re-encode sub-oracle skipped: decoded value shows an open known array class".into()).or_insert(0) += sk;
    }
}

fn replay(variant: &str, case: &Json) -> Result<(), String> {
    let raw = variant.ends_with("!raw");
    SKIP_EMPTY_BODY_GLOBAL.store(!raw && open_ids_for("C04").iter().any(|o| o == "KF-message-empty-body"), std::sync::atomic::Ordering::Relaxed);
    let open = open_ids_for("C04");
    SKIP_ARRAY_CLASSES.store(!raw && open.iter().any(|o| o == "KF-codec-array-of-null" || o == "KF-codec-array-of-compound"), std::sync::atomic::Ordering::Relaxed);
    let variant = variant.strip_suffix("!raw").unwrap_or(variant);
    let c: Case = match variant {
        "corruption" => serde_json::from_value::<(Case, bool)>(case.clone()).map_err(|e| format!("bad case: {e}"))?.0,
        _ => serde_json::from_value(case.clone()).map_err(|e| format!("bad case: {e}"))?,
    };
    let bytes = unhex(&c.hex);
    match RUNNER.with(|r| r.run("", c.target, &bytes)) {
        Ok(_) => Ok(()),
        Err((_, d)) => Err(d),
    }
}

/// seed inputs for the coverage-guided target: one small valid encoding per decode target and the
/// committed regression inputs
pub fn fuzz_seeds() -> Vec<Vec<u8>> {
    let mut out: Vec<Vec<u8>> = Vec::new();
    let golden: &[&str] = &[
        "40", "41", "5201", "70000186a0", "a10568656c6c6f", "a3046e616d65", "a00401020304", "c0050243405201", "c105025201a10161", "e0060271000000010000000002", "005310c0080143a1016143",
        "005311c00804405201435264", "005312c01507a1016c4342500050020028c0080140404040404040", "005313c00b0743526443526443435264", "005314c00905430a0000a0017443", "005315c0060441430052415324c00100",
        "005316c0030243410a", "005317c00100", "005318c00100", "005340c0070101e00402a305504c41494e", "005341c00b02a305504c41494ea0030061006200", "005344c0020150000a",
        "005370c0030141500400", "005373c00d02a1016d40", "005375a003616263", "005377a1026869", "00537452015201",
    ];
    for t in 0..N_TARGETS {
        for g in golden {
            let mut v = vec![t];
            v.extend(unhex(g));
            out.push(v);
        }
    }
    if let Ok(rd) = std::fs::read_dir("/verif/replays/regress/C04") {
        for e in rd.flatten() {
            if let Ok(b) = std::fs::read(e.path()) {
                if let Ok(j) = serde_json::from_slice::<Json>(&b) {
                    if let (Some(t), Some(h)) = (j["case"]["target"].as_u64(), j["case"]["hex"].as_str()) {
                        let mut v = vec![t as u8];
                        v.extend(unhex(h));
                        out.push(v);
                    }
                }
            }
        }
    }
    out
}

/// entry point of the coverage-guided target (fuzz/fuzz_targets/c04_decode.rs)
pub fn fuzz_one(t: u8, bytes: &[u8]) -> Result<(), String> {
    static INIT: std::sync::Once = std::sync::Once::new();
    INIT.call_once(|| {
        crate::driver::install_panic_hook();
        let open = open_ids_for("C04");
        SKIP_EMPTY_BODY_GLOBAL.store(open.iter().any(|o| o == "KF-message-empty-body"), std::sync::atomic::Ordering::Relaxed);
        SKIP_ARRAY_CLASSES.store(open.iter().any(|o| o == "KF-codec-array-of-null" || o == "KF-codec-array-of-compound"), std::sync::atomic::Ordering::Relaxed);
        crate::refcodec::AVOID_ZERO_WIDTH_DEFAULT.store(open.iter().any(|o| o == "KF-codec-array-of-null"), std::sync::atomic::Ordering::Relaxed);
    });
    match RUNNER.with(|r| r.run("", t % N_TARGETS, bytes)) {
        Ok(_) => Ok(()),
        Err((_, d)) => Err(d),
    }
}

#[allow(dead_code)]
fn _j() -> Json {
    json!(null)
}
