//! C01 — end-to-end delivery: intact, once, in order
use crate::checks::codec_common::carve_known;
use crate::checks::typed::{message_from_sections, message_sections};
use crate::driver::*;
use crate::duo::{self, Credit, DuoCfg, LinkCfg};
use crate::gen;
use crate::refcodec::{hex, RValue};
use crate::rframe;
use crate::simnet::{self, CaseEnd};
use fe2o3_amqp::link::delivery::Sendable;
use fe2o3_amqp::types::messaging::message::__private::Serializable;
use fe2o3_amqp::types::messaging::{Body, Message, Outcome};
use fe2o3_amqp::types::primitives::Value;
use fe2o3_amqp::{Receiver, Sender};
use proptest::collection::vec;
use proptest::prelude::*;
use serde::{Deserialize, Serialize};
use serde_json::Value as Json;

pub fn meta() -> PropMeta {
    PropMeta {
        id: "C01",
        level: "exploration",
        rule: "generated (config, 1-3 links, message sequences, transport/schedule perturbation) cases run on two real endpoints (client <-> ConnectionAcceptor) over the harness pipe under tokio's paused clock: max-frame-size per side in [512,65536], session windows 1..5000, next-outgoing-id incl. values near 2^32, channel buffers from 1, credit Auto(n)/Manual grants, all snd/rcv settle modes, auto-accept on/off, both directions, send vs send_batchable, bodies Value/Data batch/Sequence batch with every section subset and sizes around k*frame-body. Oracle: per link the list returned by recv equals the list sent (typed and byte equality), nothing extra arrives afterwards, no operation hangs (virtual-time watchdog), and the transfer payloads on the wire (independent frame parser) concatenate to the sender's encoded messages. Non-trivial: a message spans >=2 frames or window/credit < number of messages; distinct by hash of the case.",
        assumptions: &[
            "single-threaded runtime; interleavings varied by pipe chunking/stalls, buffer capacities, seeded select! and batchable sends",
            "bodies are drawn from the round-trip-clean subset of the value space (open codec findings carved out)",
        ],
        nontrivial_floor: 0.3,
        run,
        replay,
        crashy: true,
    }
}

#[derive(Clone, Debug, Serialize, Deserialize, Hash)]
pub struct MsgCase {
    pub sections: Vec<RValue>,
    /// pre-settled flag used when the link is in mixed mode
    pub settled: bool,
    pub batchable: bool,
    /// 0 accept, 1 reject, 2 release, 3 modify
    pub outcome: u8,
}

#[derive(Clone, Debug, Serialize, Deserialize, Hash)]
pub struct LinkCase {
    pub cfg: LinkCfg,
    pub msgs: Vec<MsgCase>,
}

#[derive(Clone, Debug, Serialize, Deserialize, Hash)]
pub struct Case {
    pub duo: DuoCfg,
    pub links: Vec<LinkCase>,
}

/// body sizes around multiples of a frame body
fn sized_binary() -> BoxedStrategy<Vec<u8>> {
    (prop_oneof![Just(512usize), Just(1024), Just(4096)], 0usize..4, -40i64..6, any::<u8>())
        .prop_map(|(b, k, d, fill)| {
            let n = ((b * k) as i64 + d).max(0) as usize;
            vec![fill; n]
        })
        .boxed()
}

fn msg_case() -> BoxedStrategy<MsgCase> {
    let small = gen::rvalue(gen::GenCfg { depth: 2, breadth: 3, big: false, size: 8 });
    let body_value = prop_oneof![3 => small, 2 => sized_binary().prop_map(RValue::Binary), 1 => sized_binary().prop_map(|b| RValue::Str(String::from_utf8(b.iter().map(|x| b'a' + x % 26).collect()).unwrap()))].boxed();
    (message_sections(body_value), any::<bool>(), any::<bool>(), 0u8..4)
        .prop_map(|(sections, settled, batchable, outcome)| MsgCase { sections, settled, batchable, outcome })
        .boxed()
}

fn link_case() -> BoxedStrategy<LinkCase> {
    (duo::link_cfg(), vec(msg_case(), 1..10), prop_oneof![3 => Just(None), 1 => prop_oneof![Just(100u64), Just(600), Just(2000), 64u64..5000].prop_map(Some)]).prop_map(|(mut cfg, msgs, mms)| {
        cfg.initiator = 0;
        // the sending link splits a message larger than its max-message-size into several transfers
        cfg.max_message_size = mms;
        // manual credit: the grants must be able to cover the stream (the last grant repeats)
        LinkCase { cfg, msgs }
    })
    .boxed()
}

pub fn case_strategy() -> BoxedStrategy<Case> {
    (duo::duo_cfg(), vec(link_case(), 1..4)).prop_map(|(duo, links)| Case { duo, links }).boxed()
}

type Msg = Message<Body<Value>>;

fn encode_msg(m: &Msg) -> Result<Vec<u8>, String> {
    serde_amqp::to_vec(&Serializable(m)).map_err(|e| format!("HARNESS: message does not encode: {e}"))
}

async fn sender_task(mut s: Sender, lc: LinkCase, msgs: Vec<Msg>) -> Result<Sender, String> {
    let mut futs = Vec::new();
    for (i, (mc, m)) in lc.msgs.iter().zip(msgs.into_iter()).enumerate() {
        let settled = match lc.cfg.snd_settle {
            1 => Some(true),
            0 => None,
            _ => Some(mc.settled),
        };
        let sendable: Sendable<Body<Value>> = Sendable::builder().message(m).settled(settled).build();
        if mc.batchable {
            let f = s.send_batchable(sendable).await.map_err(|e| format!("send_batchable #{i} failed: {e:?}"))?;
            futs.push((i, f));
        } else {
            let o = s.send(sendable).await.map_err(|e| format!("send #{i} failed: {e:?}"))?;
            check_outcome(i, mc, &lc, settled, &o)?;
        }
    }
    for (i, f) in futs {
        let o = f.await.map_err(|e| format!("batchable send #{i} outcome failed: {e:?}"))?;
        let mc = &lc.msgs[i];
        let settled = match lc.cfg.snd_settle {
            1 => Some(true),
            0 => None,
            _ => Some(mc.settled),
        };
        check_outcome(i, mc, &lc, settled, &o)?;
    }
    Ok(s)
}

fn check_outcome(i: usize, mc: &MsgCase, lc: &LinkCase, settled: Option<bool>, o: &Outcome) -> Result<(), String> {
    let pre = settled == Some(true);
    let expect = if pre || lc.cfg.auto_accept { 0 } else { mc.outcome };
    let got = match o {
        Outcome::Accepted(_) => 0,
        Outcome::Rejected(_) => 1,
        Outcome::Released(_) => 2,
        Outcome::Modified(_) => 3,
        _ => 9,
    };
    if got != expect {
        return Err(format!("send #{i} resolved with outcome kind {got} but the receiver applied {expect} (pre-settled={pre}, auto_accept={})", lc.cfg.auto_accept));
    }
    Ok(())
}

async fn receiver_task(mut r: Receiver, lc: LinkCase, expect: Vec<Msg>) -> Result<Receiver, String> {
    let n = expect.len();
    let mut grants: Vec<u32> = match &lc.cfg.credit {
        Credit::Manual(g) => g.clone(),
        _ => vec![],
    };
    let manual = matches!(lc.cfg.credit, Credit::Manual(_));
    let mut credit_left: u64 = if manual && lc.cfg.dir == 1 { 0 } else { u64::MAX };
    // a listener-side receiver starts with the acceptor's default credit; only a client-side manual
    // receiver starts at zero
    let mut gi = 0;
    for i in 0..n {
        if manual && credit_left == 0 {
            let g = if gi < grants.len() { grants[gi] } else { *grants.last().unwrap_or(&1) };
            gi += 1;
            r.set_credit(g).await.map_err(|e| format!("set_credit failed: {e:?}"))?;
            credit_left = g as u64;
        }
        let d = r.recv::<Body<Value>>().await.map_err(|e| format!("recv #{i} failed: {e:?}"))?;
        if credit_left != u64::MAX {
            credit_left -= 1;
        }
        if d.message() != &expect[i] {
            return Err(format!("delivery #{i} differs from what was sent:\n sent={:?}\n got ={:?}", expect[i], d.message()));
        }
        let (a, b) = (encode_msg(d.message())?, encode_msg(&expect[i])?);
        if a != b {
            return Err(format!("delivery #{i} is not byte-for-byte equal: sent {} got {}", hex(&b), hex(&a)));
        }
        if !lc.cfg.auto_accept {
            let res = match lc.msgs[i].outcome {
                0 => r.accept(&d).await,
                1 => r.reject(&d, None).await,
                2 => r.release(&d).await,
                _ => r.modify(&d, fe2o3_amqp::types::messaging::Modified { delivery_failed: Some(true), undeliverable_here: None, message_annotations: None }).await,
            };
            res.map_err(|e| format!("disposition of #{i} failed: {e:?}"))?;
        }
    }
    grants.clear();
    Ok(r)
}

pub fn build_msgs(lc: &LinkCase, open: &[String]) -> Result<Vec<Msg>, String> {
    lc.msgs
        .iter()
        .map(|m| {
            let secs: Vec<RValue> = m.sections.iter().map(|s| carve_known(s, open, &mut vec![])).collect();
            message_from_sections(&secs)
        })
        .collect()
}

pub struct Info {
    pub multi_frame: bool,
    pub engaged: bool,
}

pub async fn run_async(c: &Case, open: &[String]) -> Result<Info, String> {
    let mut duo = duo::connect(&c.duo).await?;
    let (mut cs, mut ls) = duo::begin_pair(&c.duo, &mut duo).await?;
    let mut info = Info { multi_frame: false, engaged: false };
    let mut tasks = Vec::new();
    let mut sent_bytes: Vec<(u8, Vec<Vec<u8>>)> = Vec::new();
    for (k, lc) in c.links.iter().enumerate() {
        let msgs = build_msgs(lc, open)?;
        let name = format!("link-{k}");
        let (s, r) = duo::attach_pair(&name, &lc.cfg, &mut cs, &mut ls).await?;
        let enc: Vec<Vec<u8>> = msgs.iter().map(encode_msg).collect::<Result<_, _>>()?;
        let peer_mfs = c.duo.max_frame_size[0].min(c.duo.max_frame_size[1]) as usize;
        if enc.iter().any(|e| e.len() + 64 > peer_mfs) {
            info.multi_frame = true;
        }
        let n = msgs.len() as u32;
        let win = c.duo.incoming_window.iter().chain(c.duo.outgoing_window.iter()).copied().min().unwrap_or(1);
        let credit_small = match &lc.cfg.credit {
            Credit::Auto(x) => *x < n,
            Credit::Manual(_) => true,
        };
        if win < n || credit_small {
            info.engaged = true;
        }
        sent_bytes.push((lc.cfg.dir, enc));
        let st = tokio::spawn(sender_task(s, lc.clone(), msgs.clone()));
        let rt = tokio::spawn(receiver_task(r, lc.clone(), msgs));
        tasks.push((k, st, rt));
    }
    let mut receivers = Vec::new();
    let mut senders = Vec::new();
    for (k, st, rt) in tasks {
        let r = rt.await.map_err(|e| format!("receiver task of link {k} panicked: {e}"))?.map_err(|e| format!("link {k}: {e}"))?;
        let s = st.await.map_err(|e| format!("sender task of link {k} panicked: {e}"))?.map_err(|e| format!("link {k}: {e}"))?;
        receivers.push(r);
        senders.push(s);
    }
    // nothing extra may arrive
    simnet::settle().await;
    for (k, r) in receivers.iter_mut().enumerate() {
        tokio::select! {
            biased;
            d = r.recv::<Body<Value>>() => {
                return Err(format!("link {k}: an extra delivery arrived after everything sent was received: {:?}", d.map(|d| format!("{:?}", d.message()))));
            }
            _ = tokio::time::sleep(std::time::Duration::from_millis(5)) => {}
        }
    }
    // wire cross-check: payloads per delivery, per direction, in order per handle
    for dir in 0..2usize {
        let bytes = duo.ctl.bytes(dir);
        let (items, used) = rframe::parse_stream(&bytes).map_err(|e| format!("wire (dir {dir}) does not parse: {e}"))?;
        if used != bytes.len() {
            return Err(format!("wire (dir {dir}) ends with an incomplete frame at a quiescent point: {} of {} bytes parsed", used, bytes.len()));
        }
        // group transfer payloads by handle
        let mut per_handle: std::collections::BTreeMap<u32, Vec<Vec<u8>>> = Default::default();
        let mut open_delivery: std::collections::BTreeMap<u32, Vec<u8>> = Default::default();
        for f in rframe::frames_of(&items) {
            if f.code() == Some(0x14) {
                let h = rframe::uint(&f.field(0)).ok_or("transfer without handle")?;
                let more = rframe::boolean(&f.field(5)).unwrap_or(false);
                let acc = open_delivery.entry(h).or_default();
                acc.extend_from_slice(&f.payload);
                if !more {
                    let done = open_delivery.remove(&h).unwrap();
                    per_handle.entry(h).or_default().push(done);
                }
            }
        }
        let expected: Vec<&Vec<Vec<u8>>> = sent_bytes.iter().filter(|(d, _)| *d as usize == dir).map(|(_, e)| e).collect();
        let mut got: Vec<Vec<Vec<u8>>> = per_handle.into_values().collect();
        for e in expected {
            match got.iter().position(|g| g == e) {
                Some(p) => {
                    got.remove(p);
                }
                None => return Err(format!("wire (dir {dir}): no link carries exactly the encoded messages of one sending link in order ({} messages); sender-side framing differs from what was sent", e.len())),
            }
        }
        if !got.is_empty() {
            return Err(format!("wire (dir {dir}): {} link(s) carried deliveries nobody sent", got.len()));
        }
    }
    drop(senders);
    drop(receivers);
    let _ = (&mut cs, &mut ls);
    Ok(info)
}

pub fn run_case(c: &Case, open: &[String]) -> Result<Info, String> {
    let (end, _alive) = simnet::run_case(c.duo.tokio_seed, run_async(c, open));
    match end {
        CaseEnd::Done(r) => r,
        CaseEnd::Hang => Err(format!("HANG: the exchange never completed although the receiver keeps granting credit (virtual-time watchdog); wire so far:{}", simnet::describe_last_wire())),
    }
}

/// carve-out of KF-engine-backpressure-deadlock: keep the transport buffers larger than the traffic
pub fn widen_pipe(c: &Case, open: &[String], excluded: &mut Vec<String>) -> Case {
    let mut c = c.clone();
    if open.iter().any(|o| o == "KF-engine-backpressure-deadlock") && c.duo.pipe.cap < (1 << 22) {
        c.duo.pipe.cap = 1 << 22;
        excluded.push("KF-engine-backpressure-deadlock".into());
    }
    if open.iter().any(|o| o == "KF-engine-channel-deadlock") {
        let mut hit = false;
        // with a window of a few frames the session answers (almost) every incoming frame with a flow, so a
        // delivery of n frames puts about n frames into the opposite channels: the buffers have to exceed
        // the longest delivery, not just a constant
        let tiny_window = c.duo.incoming_window.iter().any(|w| *w < 8);
        let floor = if tiny_window { 4096 } else { 32 };
        for b in c.duo.conn_buf.iter_mut().chain(c.duo.sess_buf.iter_mut()) {
            if *b < floor {
                *b = floor;
                hit = true;
            }
        }
        for l in c.links.iter_mut() {
            if l.cfg.link_buf < floor {
                l.cfg.link_buf = floor;
                hit = true;
            }
        }
        if hit {
            excluded.push("KF-engine-channel-deadlock".into());
        }
    }
    c
}

fn case(ctx: &ShardCtx, c: &Case, obs: &mut Obs) -> Result<(), String> {
    let open = ctx.open_findings.clone();
    let c = &widen_pipe(c, &open, &mut obs.excluded);
    let r = guarded(|| run_case(c, &open));
    match r {
        Ok(Ok(info)) => {
            if info.multi_frame {
                obs.class("multi-frame");
            }
            if info.engaged {
                obs.class("flow-control-engaged");
            }
            obs.class(&format!("links:{}", c.links.len()));
            if info.multi_frame || info.engaged {
                obs.nontrivial(c);
            }
            Ok(())
        }
        Ok(Err(e)) => {
            obs.signature = Some(if e.starts_with("HANG") { "hang".into() } else { "delivery".into() });
            Err(e)
        }
        Err(p) => {
            if p.iter().all(|x| is_harness_panic(x)) {
                obs.signature = Some("harness-panic".into());
            } else {
                obs.signature = Some(panic_signature(&p[0]));
            }
            Err(format!("panic: {}", p.join(" | ")))
        }
    }
}

fn run(ctx: &ShardCtx, rep: &mut Report) {
    MAX_SHRINK_ITERS.store(400, std::sync::atomic::Ordering::Relaxed);
    pt_run(ctx, rep, "duo", ctx.budget(40_000, 2_000_000), case_strategy(), |c, o| case(ctx, c, o));
}

fn replay(variant: &str, case_json: &Json) -> Result<(), String> {
    let raw = variant.ends_with("!raw");
    let c: Case = serde_json::from_value(case_json.clone()).map_err(|e| format!("bad case: {e}"))?;
    let open = if raw { vec![] } else { open_ids_for("C01") };
    let c = widen_pipe(&c, &open, &mut vec![]);
    run_case(&c, &open).map(|_| ())
}
