//! Shared scenario of C08 and C11: a sending link that is detached (not closed) and resumed, while the
//! scripted peer is free to re-attach its end under a different handle and to hand the old handle
//! number to another link. C08 reads it for the credit clause (a send that waits for credit on the
//! resumed link completes once credit is granted); C11 reads it for the routing clause (the
//! disposition of a delivery sent after the resume reaches the resumed link, not the link that now
//! holds the old handle number).
use crate::peer::{self, ClientRig, Peer, RigCfg};
use crate::refcodec::RValue;
use crate::simnet::{self, CaseEnd};
use fe2o3_amqp::link::delivery::Sendable;
use fe2o3_amqp::types::definitions::SenderSettleMode;
use fe2o3_amqp::types::messaging::{AmqpValue, Body, Message, Outcome};
use fe2o3_amqp::types::primitives::Value;
use fe2o3_amqp::Sender;
use proptest::prelude::*;
use serde::{Deserialize, Serialize};
use std::time::Duration;

pub const HANDLES: [u32; 5] = [0, 1, 7, 1000, u32::MAX];

#[derive(Clone, Debug, Serialize, Deserialize, Hash)]
pub struct Case {
    /// index into HANDLES: the peer's handle for the first attachment
    pub h1: u8,
    /// the peer's handle for the second attachment (may equal h1)
    pub h2: u8,
    /// while the link is detached the peer gives the old handle number to another link ("b") that has
    /// an unsettled delivery in flight
    pub reuse_old: bool,
    /// the send after the resume starts before credit is granted
    pub wait_for_credit: bool,
    /// an explicit zero-credit flow precedes the waiting send
    pub zero_flow_first: bool,
    /// snd-settle-mode unsettled (the outcome comes from the peer's disposition) or settled
    pub unsettled: bool,
    /// deliveries sent (and settled) before the detach
    pub n_before: u8,
    /// sends after the resume
    pub n_after: u8,
    pub tokio_seed: u64,
}

pub fn case_strategy(force_wait: Option<bool>, force_unsettled: Option<bool>) -> BoxedStrategy<Case> {
    (0u8..5, 0u8..5, any::<bool>(), any::<bool>(), any::<bool>(), any::<bool>(), 0u8..3, 1u8..4, any::<u64>())
        .prop_map(move |(h1, h2, reuse_old, wait, zero_flow_first, unsettled, n_before, n_after, tokio_seed)| Case {
            h1,
            h2,
            reuse_old: reuse_old && h1 != h2,
            wait_for_credit: force_wait.unwrap_or(wait),
            zero_flow_first,
            unsettled: force_unsettled.unwrap_or(unsettled),
            n_before,
            n_after,
            tokio_seed,
        })
        .boxed()
}

fn msg(seq: u32) -> Sendable<Body<Value>> {
    Sendable::builder().message(Message::builder().body(Body::Value(AmqpValue(Value::Uint(seq)))).build()).build()
}

fn outcome_str(o: &Outcome) -> String {
    match o {
        Outcome::Accepted(_) => "accepted".into(),
        Outcome::Rejected(r) => format!("rejected({})", r.error.as_ref().and_then(|e| e.description.clone()).unwrap_or_default()),
        Outcome::Released(_) => "released".into(),
        Outcome::Modified(_) => "modified".into(),
        #[allow(unreachable_patterns)]
        _ => "other".into(),
    }
}

pub struct Info {
    pub handle_changed: bool,
    pub waited: bool,
}

pub async fn run_async(c: &Case) -> Result<Info, String> {
    let h1 = HANDLES[c.h1 as usize % HANDLES.len()];
    let h2 = HANDLES[c.h2 as usize % HANDLES.len()];
    let ClientRig { conn, mut sess, mut peer, my_ch, .. } = peer::client_rig(RigCfg::default()).await?;
    let ssm = if c.unsettled { SenderSettleMode::Unsettled } else { SenderSettleMode::Settled };
    let mode = if c.unsettled { 0u8 } else { 1 };
    let mut transfers_seen: u32 = 0;
    let nb = c.n_before as u32;
    let (mut a, att1) = peer::answer_attach(&mut peer, my_ch, Sender::builder().name("a").target("q").sender_settle_mode(ssm.clone()).attach(&mut sess), |_a| Peer::attach_body("a", h1, true, Some(mode), None, None, None, false), |_a| {
        vec![Peer::flow_body(Some(0), 100_000, 0, 100_000, Some(h1), Some(0), Some(nb), false, false)]
    })
    .await?;
    // deliveries before the detach, each settled by the peer
    for i in 0..nb {
        let snd = async { tokio::time::timeout(Duration::from_secs(600), a.send(msg(i))).await };
        let pr = async {
            let t = peer.wait_for("transfer").await?;
            if c.unsettled {
                let did = peer::as_uint(&t.field(1)).ok_or("transfer without delivery-id")?;
                peer.send_frame(my_ch, &Peer::disposition_body(true, did, None, true, Some(Peer::accepted())), &[]).await?;
            }
            Ok::<(), String>(())
        };
        let (s, p) = tokio::join!(snd, pr);
        p?;
        transfers_seen += 1;
        match s {
            Err(_) => return Err(format!("HANG: send #{i} before the detach never completed")),
            Ok(Err(e)) => return Err(format!("send #{i} before the detach failed: {e:?}")),
            Ok(Ok(_)) => {}
        }
    }
    // detach (not closing), answered in kind
    let det = async { tokio::time::timeout(Duration::from_secs(600), a.detach()).await };
    let pr = async {
        let d = peer.wait_for("detach").await?;
        peer.send_frame(my_ch, &Peer::detach_body(h1, false, None), &[]).await?;
        Ok::<_, String>(d)
    };
    let (d, p) = tokio::join!(det, pr);
    p?;
    let detached = match d {
        Err(_) => return Err("HANG: detach() never completed".into()),
        Ok(Err((_d, e))) => return Err(format!("detach() failed: {e:?}")),
        Ok(Ok(d)) => d,
    };
    // optionally the old handle number goes to another link with an unsettled delivery in flight
    let mut b_link: Option<(Sender, tokio::task::JoinHandle<Result<String, String>>, u32)> = None;
    if c.reuse_old {
        let (mut b, _att) = peer::answer_attach(&mut peer, my_ch, Sender::builder().name("b").target("q").sender_settle_mode(SenderSettleMode::Unsettled).attach(&mut sess), |_a| Peer::attach_body("b", h1, true, Some(0), None, None, None, false), |_a| {
            vec![Peer::flow_body(Some(transfers_seen), 100_000, 0, 100_000, Some(h1), Some(0), Some(1), false, false)]
        })
        .await?;
        let fut = tokio::time::timeout(Duration::from_secs(600), b.send_batchable(msg(9000))).await;
        let fut = match fut {
            Err(_) => return Err("HANG: send_batchable on link b never completed".into()),
            Ok(Err(e)) => return Err(format!("send_batchable on link b failed: {e:?}")),
            Ok(Ok(f)) => f,
        };
        let t = peer.wait_for("transfer").await?;
        transfers_seen += 1;
        let did = peer::as_uint(&t.field(1)).ok_or("transfer without delivery-id")?;
        let jh = tokio::spawn(async move {
            match tokio::time::timeout(Duration::from_secs(3000), fut).await {
                Err(_) => Err("HANG: the outcome of link b's delivery never arrived".to_string()),
                Ok(Err(e)) => Err(format!("link b's delivery failed: {e:?}")),
                Ok(Ok(o)) => Ok(outcome_str(&o)),
            }
        });
        b_link = Some((b, jh, did));
    }
    // resume: the peer re-attaches its end under h2
    let res = async { tokio::time::timeout(Duration::from_secs(600), detached.resume()).await };
    let pr = async {
        let at = peer.wait_for("attach").await?;
        peer.send_frame(my_ch, &Peer::attach_body("a", h2, true, Some(mode), None, None, None, false), &[]).await?;
        Ok::<RValue, String>(at.field(9))
    };
    let (r, p) = tokio::join!(res, pr);
    let _idc2 = p?;
    // The scripted receiver keeps its link endpoint across the detach: its delivery-count continues from
    // the deliveries it has received on this link (the initial-delivery-count of the first attach plus
    // n_before), which is also the sender's own delivery-count. (The resuming attach of this
    // implementation repeats the original initial-delivery-count; a receiver that re-initialised from it
    // would grant credit the sender's formula does not see. That is outside the credit clause and is
    // only noted in DESIGN.md.)
    let idc = peer::as_uint(&att1.field(9)).unwrap_or(0).wrapping_add(nb);
    let mut a = match r {
        Err(_) => return Err("HANG: resume() never completed".into()),
        Ok(Err(e)) => return Err(format!("resume() failed although the peer answered the attach: {e:?}")),
        Ok(Ok(s)) => s,
    };
    let na = c.n_after as u32;
    let grant = Peer::flow_body(Some(transfers_seen), 100_000, 0, 100_000, Some(h2), Some(idc), Some(na), false, false);
    if !c.wait_for_credit {
        peer.send_frame(my_ch, &grant, &[]).await?;
        peer.settle().await;
    } else if c.zero_flow_first {
        peer.send_frame(my_ch, &Peer::flow_body(Some(transfers_seen), 100_000, 0, 100_000, Some(h2), Some(idc), Some(0), false, false), &[]).await?;
        peer.settle().await;
    }
    let _ = peer.new_frames().await;
    // the sends after the resume run in their own task
    let unsettled = c.unsettled;
    let app = tokio::spawn(async move {
        let mut outs = Vec::new();
        for i in 0..na {
            match tokio::time::timeout(Duration::from_secs(3000), a.send(msg(100 + i))).await {
                Err(_) => return (a, Err(format!("HANG: send #{i} after the resume never completed (credit was granted{})", if unsettled { " and the delivery disposed of" } else { "" }))),
                Ok(Err(e)) => return (a, Err(format!("send #{i} after the resume failed: {e:?}"))),
                Ok(Ok(o)) => outs.push(outcome_str(&o)),
            }
        }
        (a, Ok(outs))
    });
    if c.wait_for_credit {
        // no credit yet: nothing may go out
        let early = peer.new_frames().await;
        if let Some(t) = early.iter().find(|f| f.name() == "transfer") {
            return Err(format!("a transfer went out on the resumed link before any credit was granted: {:?}", t.body));
        }
        peer.send_frame(my_ch, &grant, &[]).await?;
    }
    // the peer answers each transfer of the resumed link
    let mut want = Vec::new();
    for i in 0..na {
        let t = match peer.wait_for("transfer").await {
            Ok(t) => t,
            Err(_) => {
                return Err(format!(
                    "the send #{i} on the resumed link was not woken: {} credit was granted (flow on the peer's handle {h2}) and the system is quiescent, but no transfer went out",
                    na
                ))
            }
        };
        let did = peer::as_uint(&t.field(1)).ok_or("transfer without delivery-id")?;
        if c.unsettled {
            let tag = format!("a-after-resume-{i}");
            want.push(format!("rejected({tag})"));
            peer.send_frame(my_ch, &Peer::disposition_body(true, did, None, true, Some(Peer::rejected(&tag))), &[]).await?;
        } else {
            want.push("accepted".to_string());
        }
    }
    peer.settle().await;
    // link b's delivery is still undecided: no disposition named it
    if let Some((_, jh, _)) = &b_link {
        if jh.is_finished() {
            let (_, jh, _) = b_link.take().unwrap();
            let r = jh.await.map_err(|e| format!("task: {e}"))?;
            return Err(format!("marker: the delivery of link b (which holds the peer's old handle {h1}) was resolved as {r:?} although no disposition named it; the dispositions were for deliveries of the resumed link"));
        }
    }
    let (a, outs) = match tokio::time::timeout(Duration::from_secs(4000), app).await {
        Err(_) => return Err("HANG: the sending task never finished".into()),
        Ok(Err(e)) => return Err(format!("the sending task panicked: {e}")),
        Ok(Ok(x)) => x,
    };
    let outs = outs?;
    if outs != want {
        return Err(format!("marker: the sends on the resumed link completed with {outs:?}, the peer disposed of them with {want:?}"));
    }
    if let Some((b, jh, did)) = b_link.take() {
        peer.send_frame(my_ch, &Peer::disposition_body(true, did, None, true, Some(Peer::released())), &[]).await?;
        match jh.await.map_err(|e| format!("task: {e}"))? {
            Ok(o) if o == "released" => {}
            other => return Err(format!("marker: link b's delivery was released by the peer, the send reported {other:?}")),
        }
        drop(b);
    }
    drop(a);
    let _ = (&conn, &sess);
    Ok(Info { handle_changed: h1 != h2, waited: c.wait_for_credit })
}

pub fn run_case(c: &Case) -> Result<Info, String> {
    match simnet::run_case(c.tokio_seed, run_async(c)).0 {
        CaseEnd::Done(r) => r,
        CaseEnd::Hang => Err(format!("HANG (virtual-time watchdog); wire so far:{}", simnet::describe_last_wire())),
    }
}
