//! C10 — reassembly is independent of how the peer fragments a delivery
use crate::checks::codec_common::carve_known;
use crate::checks::typed::{message_from_sections, message_sections};
use crate::driver::*;
use crate::gen;
use crate::peer::{self, ClientRig, Peer, RigCfg};
use crate::refcodec::{self, Choices, RValue};
use crate::simnet::{self, CaseEnd, PipeCfg};
use fe2o3_amqp::types::messaging::{Body, Message};
use fe2o3_amqp::types::primitives::Value;
use fe2o3_amqp::Receiver;
use proptest::collection::vec;
use proptest::prelude::*;
use serde::{Deserialize, Serialize};
use serde_json::Value as Json;
use std::sync::{Arc, Mutex};

pub fn meta() -> PropMeta {
    PropMeta {
        id: "C10",
        level: "exploration",
        rule: "a scripted sender delivers generated messages (every section subset and body kind, reference-encoded with variant choices = foreign encoding) to one or two real Receivers on one session. Each delivery is cut into 1..n transfer frames at generated offsets (inside section headers 00 53 7x, inside length fields, zero-length frames); on continuation frames delivery-id / delivery-tag / message-format / settled / rcv-settle-mode are independently omitted or repeated; frames of a delivery on the second link are interleaved frame by frame; optionally the delivery is aborted at frame j, or a continuation frame contradicts the first (different delivery-id, tag or message-format). Executed step-wise. Oracle: recv returns each complete delivery exactly once, equal to the original (typed equality against the model), only after its last frame arrived (not present at any earlier quiescent point), in order per link; an aborted delivery yields nothing and the next one is intact; a contradiction yields an error or nothing, never a message that is not one of the originals. Non-trivial: >=3 frames, or a cut within the first 3 bytes of a section, or interleaving, or abort; distinct by hash of the case.",
        assumptions: &["two multi-frame deliveries are never interleaved on the same link (illegal)", "continuation fields are only omitted or repeated equal unless the contradiction variant is selected"],
        nontrivial_floor: 0.3,
        run,
        replay,
        crashy: true,
    }
}

#[derive(Clone, Debug, Serialize, Deserialize, Hash)]
pub struct DeliveryCase {
    pub link: u8,
    pub sections: Vec<RValue>,
    pub choices: Vec<u8>,
    /// cut positions as fractions of the encoded length (0..=65535), deduplicated and sorted at run time
    pub cuts: Vec<u16>,
    /// extra zero-length frames inserted at these cut indices
    pub empty_at: Vec<u8>,
    /// per continuation frame: bit0 repeat id, bit1 repeat tag, bit2 repeat format, bit3 repeat settled, bit4 repeat rcv-settle-mode
    pub repeat_bits: Vec<u8>,
    /// 0 none, 1 abort at frame `at`, 2 different delivery-id, 3 different tag, 4 different message-format
    pub fault: u8,
    pub fault_at: u8,
    pub settled: bool,
    /// an aborting frame may still carry more=true (spec 2.7.5) and a junk payload
    #[serde(default)]
    pub abort_more: bool,
}

#[derive(Clone, Debug, Serialize, Deserialize, Hash)]
pub struct Case {
    pub deliveries: Vec<DeliveryCase>,
    pub two_links: bool,
    /// interleave deliveries of different links frame by frame
    pub interleave: bool,
    pub p0: u32,
    pub tokio_seed: u64,
    pub pipe: PipeCfg,
}

fn delivery() -> BoxedStrategy<DeliveryCase> {
    let body = gen::rvalue(gen::GenCfg { depth: 2, breadth: 3, big: false, size: 8 });
    (
        0u8..2,
        message_sections(body),
        gen::choices_bytes(),
        prop_oneof![1 => Just(vec![]), 2 => vec(any::<u16>(), 1..3), 2 => vec(any::<u16>(), 3..8), 1 => vec(0u16..600, 1..4)],
        vec(0u8..8, 0..2),
        vec(0u8..32, 0..8),
        prop_oneof![8 => Just(0u8), 2 => Just(1u8), 1 => Just(2u8), 1 => Just(3u8), 1 => Just(4u8)],
        0u8..6,
        (any::<bool>(), any::<bool>()),
    )
        .prop_map(|(link, sections, choices, cuts, empty_at, repeat_bits, fault, fault_at, (settled, abort_more))| DeliveryCase { link, sections, choices, cuts, empty_at, repeat_bits, fault, fault_at, settled, abort_more })
        .boxed()
}

pub fn case_strategy() -> BoxedStrategy<Case> {
    (vec(delivery(), 1..6), any::<bool>(), any::<bool>(), crate::duo::next_id(), any::<u64>(), simnet::strat::pipe_cfg())
        .prop_map(|(deliveries, two_links, interleave, p0, tokio_seed, pipe)| Case { deliveries, two_links, interleave, p0, tokio_seed, pipe: PipeCfg { cap: 1 << 22, ..pipe } })
        .boxed()
}

type Msg = Message<Body<Value>>;

#[derive(Clone, Debug)]
enum Got {
    Msg(String),
    Err(String),
}

async fn receiver_app(mut r: Receiver, sink: Arc<Mutex<Vec<Got>>>) {
    loop {
        match r.recv::<Body<Value>>().await {
            Ok(d) => {
                sink.lock().unwrap().push(Got::Msg(format!("{:?}", d.message())));
                let _ = r.accept(&d).await;
            }
            Err(e) => {
                sink.lock().unwrap().push(Got::Err(format!("{e:?}")));
                break;
            }
        }
    }
    std::future::pending::<()>().await;
}

#[derive(Clone)]
struct Frame {
    link: usize,
    delivery: usize,
    body: RValue,
    payload: Vec<u8>,
    last: bool,
}

pub struct Info {
    pub frames3: bool,
    pub header_cut: bool,
    pub interleaved: bool,
    pub aborted: bool,
    pub contradiction: bool,
}

pub async fn run_async(c: &Case, open: &[String]) -> Result<Info, String> {
    let cfg = RigCfg { pipe: c.pipe.clone(), peer_next_outgoing_id: c.p0, ..RigCfg::default() };
    let ClientRig { conn, mut sess, mut peer, my_ch, .. } = peer::client_rig(cfg).await?;
    let n_links = if c.two_links { 2 } else { 1 };
    let mut sinks = Vec::new();
    let handles = [31u32, 7];
    for i in 0..n_links {
        let name = format!("r{i}");
        let ph = handles[i];
        let (r, _a) = peer::answer_attach(&mut peer, my_ch, Receiver::builder().name(name.clone()).source("q").attach(&mut sess), |_a| Peer::attach_body(&name, ph, false, None, None, Some(0), None, false), |_a| vec![]).await?;
        let sink = Arc::new(Mutex::new(Vec::new()));
        tokio::spawn(receiver_app(r, sink.clone()));
        sinks.push(sink);
    }
    let _ = peer.new_frames().await;
    let mut info = Info { frames3: false, header_cut: false, interleaved: false, aborted: false, contradiction: false };

    // build the frame lists per delivery
    let mut expected: Vec<Vec<Option<String>>> = vec![Vec::new(); n_links]; // per link, in order: Some(msg) for intact deliveries
    let mut per_delivery: Vec<Vec<Frame>> = Vec::new();
    let mut next_id = c.p0;
    let mut broken_link = vec![false; n_links];
    for (di, d) in c.deliveries.iter().enumerate() {
        let li = (d.link as usize) % n_links;
        let secs: Vec<RValue> = d.sections.iter().map(|s| carve_known(s, open, &mut vec![])).collect();
        let msg: Msg = message_from_sections(&secs)?;
        let mut ch = Choices::new(d.choices.clone());
        let mut enc = Vec::new();
        let mut section_starts = Vec::new();
        for s in &secs {
            section_starts.push(enc.len());
            refcodec::encode_into(s, &mut ch, &mut enc);
        }
        let mut cuts: Vec<usize> = d.cuts.iter().map(|x| if d.cuts.iter().all(|y| *y < 600) { (*x as usize).min(enc.len()) } else { (*x as usize * (enc.len() + 1)) >> 16 }).collect();
        cuts.sort();
        cuts.dedup();
        cuts.retain(|x| *x > 0 && *x < enc.len());
        if cuts.iter().any(|x| section_starts.iter().any(|s| *x > *s && *x < *s + 3)) {
            info.header_cut = true;
        }
        let mut parts: Vec<Vec<u8>> = Vec::new();
        let mut prev = 0;
        for x in cuts.iter().chain(std::iter::once(&enc.len())) {
            parts.push(enc[prev..*x].to_vec());
            prev = *x;
        }
        for e in &d.empty_at {
            let at = (*e as usize) % (parts.len() + 1);
            if at > 0 {
                parts.insert(at.min(parts.len() - 1).max(1), Vec::new());
            }
        }
        if parts.len() >= 3 {
            info.frames3 = true;
        }
        let tag = [(di as u8), 0xaa, li as u8];
        let id = next_id;
        next_id = next_id.wrapping_add(1);
        let nparts = parts.len();
        let fault_at = if nparts >= 2 { 1 + (d.fault_at as usize) % (nparts - 1) } else { 0 };
        let mut frames = Vec::new();
        let mut intact = true;
        for (fi, part) in parts.into_iter().enumerate() {
            let last = fi + 1 == nparts;
            let bits = if fi == 0 { 0xff } else { d.repeat_bits.get((fi - 1) % d.repeat_bits.len().max(1)).copied().unwrap_or(0) };
            let mut fid = if bits & 1 != 0 { Some(id) } else { None };
            let mut ftag: Option<Vec<u8>> = if bits & 2 != 0 { Some(tag.to_vec()) } else { None };
            let mut ffmt = if bits & 4 != 0 { Some(0u32) } else { None };
            let fsettled = if bits & 8 != 0 { Some(d.settled) } else { None };
            let mut aborted = false;
            if d.fault != 0 && nparts >= 2 && fi == fault_at {
                match d.fault {
                    1 => {
                        aborted = true;
                    }
                    2 => fid = Some(id.wrapping_add(77)),
                    3 => ftag = Some(vec![0xde, 0xad]),
                    _ => ffmt = Some(12345),
                }
            }
            let more_flag = if aborted { d.abort_more } else { !last };
            let body = Peer::transfer_body(handles[li], fid, ftag.as_deref(), ffmt, fsettled, more_flag, None, aborted);
            // an aborting frame with more=true also carries (junk) payload that must be ignored
            frames.push(Frame { link: li, delivery: di, body, payload: if aborted && !d.abort_more { vec![] } else { part }, last: last || aborted });
            if aborted {
                intact = false;
                info.aborted = true;
                break;
            }
        }
        if d.fault >= 2 && nparts >= 2 {
            intact = false;
            info.contradiction = true;
        }
        if broken_link[li] {
            // after a contradiction the link may be gone: later deliveries on it are not sent
            continue;
        }
        if d.fault >= 2 && nparts >= 2 {
            broken_link[li] = true;
        }
        expected[li].push(if intact { Some(format!("{:?}", msg)) } else { None });
        per_delivery.push(frames);
    }

    // schedule: sequential per link; across links optionally interleaved frame by frame
    let mut queues: Vec<std::collections::VecDeque<Frame>> = vec![Default::default(); n_links];
    for frames in per_delivery {
        for f in frames {
            let l = f.link;
            queues[l].push_back(f);
        }
    }
    let mut order: Vec<Frame> = Vec::new();
    if c.interleave && n_links == 2 {
        let mut turn = 0;
        while queues.iter().any(|q| !q.is_empty()) {
            if let Some(f) = queues[turn % 2].pop_front() {
                order.push(f);
            }
            turn += 1;
        }
        if !order.is_empty() && order.windows(2).any(|w| w[0].link != w[1].link && !w[0].last) {
            info.interleaved = true;
        }
    } else {
        // deliveries in generation order
        let mut all: Vec<Frame> = queues.into_iter().flatten().collect();
        all.sort_by_key(|f| f.delivery);
        order = all;
    }

    // expected prefix tracking: number of intact deliveries completed per link so far
    let mut completed: Vec<Vec<Option<String>>> = vec![Vec::new(); n_links];
    let mut idx_in_link: Vec<usize> = vec![0; n_links];
    for (k, f) in order.iter().enumerate() {
        peer.send_frame(my_ch, &f.body, &f.payload).await?;
        peer.settle().await;
        if f.last {
            let e = expected[f.link][idx_in_link[f.link]].clone();
            idx_in_link[f.link] += 1;
            completed[f.link].push(e);
        }
        // compare per link
        for li in 0..n_links {
            let got = sinks[li].lock().unwrap().clone();
            let want: Vec<&String> = completed[li].iter().flatten().collect();
            let mut gi = 0;
            for g in &got {
                match g {
                    Got::Msg(m) => {
                        if gi >= want.len() {
                            // is it one of the originals at all?
                            let any_orig = expected[li].iter().flatten().any(|e| e == m);
                            return Err(format!(
                                "after frame {k} (delivery {} on link {}): recv returned a message {} — {}",
                                f.delivery,
                                f.link,
                                if any_orig { "before its last frame arrived or a second time" } else { "that is not one of the originals (spliced)" },
                                &m[..m.len().min(300)]
                            ));
                        }
                        if m != want[gi] {
                            return Err(format!("after frame {k}: delivery #{gi} on link {li} differs from the original:\n want {}\n got  {}", &want[gi][..want[gi].len().min(600)], &m[..m.len().min(600)]));
                        }
                        gi += 1;
                    }
                    Got::Err(e) => {
                        let contradiction_sent = c.deliveries.iter().any(|d| (d.link as usize) % n_links == li && d.fault >= 2);
                        if !contradiction_sent {
                            return Err(format!("after frame {k}: recv on link {li} failed although every frame was legal: {e}"));
                        }
                    }
                }
            }
            let errored = got.iter().any(|g| matches!(g, Got::Err(_)));
            if gi < want.len() && !errored {
                return Err(format!("after frame {k}: {} complete deliveries arrived on link {li} but recv returned only {}", want.len(), gi));
            }
        }
    }
    let _ = (&conn, &sess);
    Ok(info)
}

pub fn run_case(c: &Case, open: &[String]) -> Result<Info, String> {
    match simnet::run_case(c.tokio_seed, run_async(c, open)).0 {
        CaseEnd::Done(r) => r,
        CaseEnd::Hang => Err(format!("HANG (virtual-time watchdog); wire so far:{}", simnet::describe_last_wire())),
    }
}

fn case(ctx: &ShardCtx, c: &Case, obs: &mut Obs) -> Result<(), String> {
    let open = ctx.open_findings.clone();
    match guarded(|| run_case(c, &open)) {
        Ok(Ok(info)) => {
            for (b, n) in [(info.frames3, ">=3-frames"), (info.header_cut, "cut-inside-section-header"), (info.interleaved, "interleaved-links"), (info.aborted, "aborted"), (info.contradiction, "contradiction")] {
                if b {
                    obs.class(n);
                }
            }
            if info.frames3 || info.header_cut || info.interleaved || info.aborted {
                obs.nontrivial(c);
            }
            Ok(())
        }
        Ok(Err(e)) => {
            obs.signature = Some("reassembly".into());
            Err(e)
        }
        Err(p) => {
            obs.signature = Some(panic_signature(&p[0]));
            Err(format!("panic: {}", p.join(" | ")))
        }
    }
}

fn run(ctx: &ShardCtx, rep: &mut Report) {
    MAX_SHRINK_ITERS.store(400, std::sync::atomic::Ordering::Relaxed);
    pt_run(ctx, rep, "fragments", ctx.budget(80_000, 4_000_000), case_strategy(), |c, o| case(ctx, c, o));
}

fn replay(variant: &str, case_json: &Json) -> Result<(), String> {
    let c: Case = serde_json::from_value(case_json.clone()).map_err(|e| format!("bad case: {e}"))?;
    let open = if variant.ends_with("!raw") { vec![] } else { open_ids_for("C10") };
    run_case(&c, &open).map(|_| ())
}
