//! C06 — frames on the wire: intact, within max-frame-size, under any fragmentation
use crate::checks::codec_common::carve_known;
use crate::checks::typed::FromR;
use crate::driver::*;
use crate::gen;
use crate::refcodec::{Choices, RValue};
use crate::rframe::{self, RFrame};
use crate::simnet::{self, CaseEnd, PipeCfg};
use crate::spec;
use bytes::Bytes;
use fe2o3_amqp::frames::amqp::{Frame, FrameBody};
use fe2o3_amqp::transport::Transport;
use fe2o3_amqp_types::performatives::Performative;
use futures_util::{SinkExt, StreamExt};
use proptest::collection::vec;
use proptest::prelude::*;
use serde::{Deserialize, Serialize};
use serde_json::Value as Json;
use tokio::io::{AsyncReadExt, AsyncWriteExt};

pub fn meta() -> PropMeta {
    PropMeta {
        id: "C06",
        level: "exploration",
        rule: "the public transport::Transport is used directly as Sink/Stream over the harness pipe. Outbound: generated (peer max-frame-size in [512,65536] incl. boundary values, channel, any of the nine performatives with independent field presence; transfers with payload lengths around k*frame-body (k<=5), tag length 0..32, optional fields, pre-set more flag) x write chunk schedule; the bytes written are parsed by the independent frame parser: complete frames only, each size <= peer max and >= 8, doff 2, type 0, right channel; a non-transfer is exactly one frame whose body equals the model; a transfer is n>=1 frames with more=true on all but the last (last = original flag), payloads concatenating to the original, first frame carrying id/tag/format and continuation frames the same values or none. Inbound: reference-encoded frames (variant choices) are fed through every generated read partition (1-byte reads, cuts inside the 8-byte header): decoded frames must equal the single-chunk decoding and the model. Non-trivial: transfer split into >=2 frames or a partition that cuts inside a frame header; distinct by hash of the case.",
        assumptions: &["non-transfer performatives are generated small enough to fit one frame (precondition every caller of the transport respects); the peer max-frame-size is raised to fit otherwise"],
        nontrivial_floor: 0.2,
        run,
        replay,
        crashy: true,
    }
}

#[derive(Clone, Debug, Serialize, Deserialize, Hash)]
pub struct Case {
    pub peer_max: u32,
    pub channel: u16,
    /// performative model (described list)
    pub perf: RValue,
    pub payload_len: usize,
    pub payload_fill: u8,
    pub pipe: PipeCfg,
    pub choices: Vec<u8>,
    /// read partition for the inbound check
    pub read_chunks: Vec<u16>,
}

fn peer_max() -> BoxedStrategy<u32> {
    prop_oneof![3 => Just(512u32), 1 => Just(513), 1 => Just(515), 1 => Just(1024), 1 => Just(4096), 1 => Just(65536), 2 => 512u32..3000].boxed()
}

fn transfer_model() -> BoxedStrategy<RValue> {
    (
        gen::u32_edge(),
        proptest::option::of(gen::u32_edge()),
        proptest::option::of(vec(any::<u8>(), 0..=32)),
        proptest::option::of(prop_oneof![Just(0u32), any::<u32>()]),
        proptest::option::of(any::<bool>()),
        any::<bool>(),
        proptest::option::of(0u8..2),
        (any::<bool>(), any::<bool>(), any::<bool>()),
    )
        .prop_map(|(handle, id, tag, fmt, settled, more, rsm, (resume, aborted, batchable))| {
            let o = |x: Option<RValue>| x.unwrap_or(RValue::Null);
            RValue::described(
                RValue::Ulong(0x14),
                RValue::List(vec![
                    RValue::Uint(handle),
                    o(id.map(RValue::Uint)),
                    o(tag.map(RValue::Binary)),
                    o(fmt.map(RValue::Uint)),
                    o(settled.map(RValue::Bool)),
                    RValue::Bool(more),
                    o(rsm.map(RValue::Ubyte)),
                    RValue::Null,
                    RValue::Bool(resume),
                    RValue::Bool(aborted),
                    RValue::Bool(batchable),
                ]),
            )
        })
        .boxed()
}

pub fn case_strategy() -> BoxedStrategy<Case> {
    let perf = prop_oneof![
        5 => transfer_model(),
        4 => (0usize..9).prop_flat_map(|i| spec::composite_value(spec::PERFORMATIVES[i], 1)),
    ];
    (
        peer_max(),
        prop_oneof![Just(0u16), Just(1), Just(255), Just(65535), any::<u16>()],
        perf,
        (0usize..6, -12i64..12, any::<bool>()),
        any::<u8>(),
        simnet::strat::pipe_cfg(),
        gen::choices_bytes(),
        prop_oneof![Just(vec![1u16]), Just(vec![3]), Just(vec![7, 1]), Just(vec![8]), Just(vec![4, 4, 1000]), vec(1u16..40, 1..5), Just(vec![])],
    )
        .prop_map(|(peer_max, channel, perf, (k, d, small), payload_fill, pipe, choices, read_chunks)| {
            let b = peer_max as i64 - 30;
            // keep the byte volume bounded for large frame sizes (1-byte read partitions)
            let k = if peer_max > 4096 { k.min(2) } else { k };
            let payload_len = if small { (k as i64 + d).max(0) as usize } else { ((k as i64) * b + d).max(0) as usize };
            Case { peer_max, channel, perf, payload_len, payload_fill, pipe, choices, read_chunks }
        })
        .boxed()
}

fn is_transfer(p: &RValue) -> bool {
    matches!(p, RValue::Described(d, _) if **d == RValue::Ulong(0x14))
}

fn to_frame(channel: u16, perf: &Performative, payload: &[u8]) -> Frame {
    let body = match perf.clone() {
        Performative::Open(p) => FrameBody::Open(p),
        Performative::Begin(p) => FrameBody::Begin(p),
        Performative::Attach(p) => FrameBody::Attach(p),
        Performative::Flow(p) => FrameBody::Flow(p),
        Performative::Transfer(p) => FrameBody::Transfer { performative: p, payload: Bytes::copy_from_slice(payload) },
        Performative::Disposition(p) => FrameBody::Disposition(p),
        Performative::Detach(p) => FrameBody::Detach(p),
        Performative::End(p) => FrameBody::End(p),
        Performative::Close(p) => FrameBody::Close(p),
    };
    Frame::new(channel, body)
}

pub struct Info {
    pub frames: usize,
    pub header_cut: bool,
}

fn check_outbound(c: &Case, model: &RValue, payload: &[u8], peer_max: u32, frames: &[RFrame]) -> Result<(), String> {
    if frames.is_empty() {
        return Err("nothing was written for the frame".into());
    }
    for f in frames {
        if f.size > peer_max {
            return Err(format!("a frame of {} bytes was written although the peer's max-frame-size is {}", f.size, peer_max));
        }
        if f.doff != 2 || f.ftype != 0 {
            return Err(format!("frame header doff={} type={}", f.doff, f.ftype));
        }
        if f.channel != c.channel {
            return Err(format!("frame on channel {} instead of {}", f.channel, c.channel));
        }
    }
    let spec_of = |v: &RValue| match v {
        RValue::Described(d, _) => match &**d {
            RValue::Ulong(code) => spec::spec_by_code(*code),
            _ => None,
        },
        _ => None,
    };
    let sp = spec_of(model).ok_or("HARNESS: model is not a performative")?;
    let want = spec::canon_composite_as(sp, model);
    if !is_transfer(model) {
        if frames.len() != 1 {
            return Err(format!("a {} performative was written as {} frames", sp.name, frames.len()));
        }
        let got = spec::canon_composite_as(sp, frames[0].body.as_ref().ok_or("empty frame written")?);
        if got != want {
            return Err(format!("frame body differs from the performative sent:\n want {want:?}\n got  {got:?}"));
        }
        if !frames[0].payload.is_empty() {
            return Err("a non-transfer frame carries trailing bytes".into());
        }
        return Ok(());
    }
    let wf = match &want {
        RValue::Described(_, l) => match &**l {
            RValue::List(f) => f.clone(),
            _ => vec![],
        },
        _ => vec![],
    };
    let mut cat = Vec::new();
    for (i, f) in frames.iter().enumerate() {
        if f.code() != Some(0x14) {
            return Err(format!("frame {i} of a transfer is a {}", f.name()));
        }
        let ff = f.fields();
        let last = i + 1 == frames.len();
        let more = rframe::boolean(&ff[5]).unwrap_or(false);
        let want_more = if last { rframe::boolean(&wf[5]).unwrap_or(false) } else { true };
        if more != want_more {
            return Err(format!("frame {i}/{} of a transfer has more={more}, expected {want_more}", frames.len()));
        }
        if ff[0] != wf[0] {
            return Err(format!("frame {i} carries handle {:?}, expected {:?}", ff[0], wf[0]));
        }
        for (idx, name) in [(1usize, "delivery-id"), (2, "delivery-tag"), (3, "message-format"), (4, "settled"), (6, "rcv-settle-mode")] {
            let ok = if i == 0 { ff[idx] == wf[idx] } else { ff[idx] == wf[idx] || ff[idx] == RValue::Null };
            if !ok {
                return Err(format!("frame {i} of the transfer carries {name}={:?}, the transfer had {:?}", ff[idx], wf[idx]));
            }
        }
        for (idx, name) in [(8usize, "resume"), (9, "aborted"), (10, "batchable")] {
            if ff[idx] != wf[idx] {
                return Err(format!("frame {i} of the transfer carries {name}={:?}, the transfer had {:?}", ff[idx], wf[idx]));
            }
        }
        cat.extend_from_slice(&f.payload);
    }
    if cat != payload {
        return Err(format!("transfer payloads concatenate to {} bytes that differ from the {} bytes sent (first difference at {:?})", cat.len(), payload.len(), cat.iter().zip(payload.iter()).position(|(a, b)| a != b)));
    }
    Ok(())
}

async fn read_all_frames(io: crate::simnet::Endpoint, local_max: usize, n_expected: usize) -> Result<Vec<String>, String> {
    let mut t: Transport<_, Frame> = Transport::bind(io, local_max, None);
    let mut out = Vec::new();
    for _ in 0..n_expected {
        match t.next().await {
            Some(Ok(f)) => out.push(format!("{:?}", f)),
            Some(Err(e)) => return Err(format!("transport decode error: {e:?}")),
            None => return Err(format!("transport stream ended after {} of {} frames", out.len(), n_expected)),
        }
    }
    Ok(out)
}

pub async fn run_async(c: &Case, open: &[String]) -> Result<Info, String> {
    let model = carve_known(&c.perf, open, &mut vec![]);
    let perf = Performative::from_r(&model)?;
    let payload: Vec<u8> = if is_transfer(&model) { (0..c.payload_len).map(|i| c.payload_fill.wrapping_add((i % 251) as u8)).collect() } else { vec![] };
    // precondition: a non-transfer performative fits one frame
    let enc_len = serde_amqp::serialized_size(&perf).map_err(|e| format!("HARNESS: size: {e}"))?;
    // (for a transfer: the performative itself plus some payload per frame)
    let peer_max = if is_transfer(&model) { c.peer_max.max(512).max(enc_len as u32 + 72) } else { c.peer_max.max(512).max(enc_len as u32 + 8) };

    // ---- outbound
    let (a, mut b, _ctl) = simnet::pipe(c.pipe.clone());
    let mut t: Transport<_, Frame> = Transport::bind(a, 65536, None);
    t.set_encoder_max_frame_size(peer_max as usize);
    let frame = to_frame(c.channel, &perf, &payload);
    let sender = async {
        t.send(frame).await.map_err(|e| format!("transport send failed: {e:?}"))?;
        SinkExt::<Frame>::close(&mut t).await.map_err(|e| format!("transport close failed: {e:?}"))?;
        Ok::<(), String>(())
    };
    let reader = async {
        let mut bytes = Vec::new();
        b.read_to_end(&mut bytes).await.map_err(|e| format!("raw read failed: {e}"))?;
        Ok::<Vec<u8>, String>(bytes)
    };
    let (s, r) = tokio::join!(sender, reader);
    s?;
    let bytes = r?;
    let (items, used) = rframe::parse_stream(&bytes).map_err(|e| format!("bytes written do not parse as frames: {e}"))?;
    if used != bytes.len() {
        return Err(format!("bytes written end with an incomplete frame ({} of {} bytes parsed)", used, bytes.len()));
    }
    let frames = rframe::frames_of(&items);
    check_outbound(c, &model, &payload, peer_max, &frames)?;

    // ---- inbound: the same frames, reference-encoded with variant choices, under a read partition
    let mut ch = Choices::new(c.choices.clone());
    let mut wire = Vec::new();
    let mut biggest = 0usize;
    for f in &frames {
        let fb = rframe::build_frame(0, f.channel, f.body.as_ref(), &f.payload, &mut ch);
        biggest = biggest.max(fb.len());
        wire.extend_from_slice(&fb);
    }
    // the variant encodings may be a few bytes longer than the implementation's own
    let local_max = (peer_max as usize).max(biggest);
    let mut decoded = Vec::new();
    for chunks in [vec![], c.read_chunks.clone()] {
        let cfg = PipeCfg { chunks: [chunks.clone(), chunks.clone()], ..PipeCfg::default() };
        let (mut w, rd, _ctl) = simnet::pipe(cfg);
        let n = frames.len();
        let wire2 = wire.clone();
        let writer = async move {
            w.write_all(&wire2).await.map_err(|e| format!("raw write failed: {e}"))?;
            w.shutdown().await.ok();
            Ok::<(), String>(())
        };
        let (wr, got) = tokio::join!(writer, read_all_frames(rd, local_max, n));
        wr?;
        decoded.push(got.map_err(|e| format!("inbound (chunks {:?}): {e}", chunks))?);
    }
    if decoded[0] != decoded[1] {
        return Err(format!("incoming frames decode differently under read partition {:?}:\n single: {:?}\n split:  {:?}", c.read_chunks, decoded[0], decoded[1]));
    }
    // and they equal what the model says
    for (i, f) in frames.iter().enumerate() {
        let p = Performative::from_r(f.body.as_ref().ok_or("empty")?)?;
        let want = format!("{:?}", to_frame(f.channel, &p, &f.payload));
        if decoded[0][i] != want {
            return Err(format!("incoming frame {i} decoded as\n {}\n expected\n {}", decoded[0][i], want));
        }
    }
    let header_cut = c.read_chunks.iter().any(|x| *x > 0 && *x < 8);
    Ok(Info { frames: frames.len(), header_cut })
}

pub fn run_case(c: &Case, open: &[String]) -> Result<Info, String> {
    match simnet::run_case(0, run_async(c, open)).0 {
        CaseEnd::Done(r) => r,
        CaseEnd::Hang => Err("HANG: transport send/receive never completed".into()),
    }
}

fn case(ctx: &ShardCtx, c: &Case, obs: &mut Obs) -> Result<(), String> {
    let open = ctx.open_findings.clone();
    match guarded(|| run_case(c, &open)) {
        Ok(Ok(info)) => {
            obs.class(if is_transfer(&c.perf) { "transfer" } else { "non-transfer" });
            obs.class(&format!("frames:{}", info.frames.min(6)));
            if info.frames >= 2 || info.header_cut {
                obs.nontrivial(c);
            }
            Ok(())
        }
        Ok(Err(e)) => {
            obs.signature = Some("framing".into());
            Err(e)
        }
        Err(p) => {
            obs.signature = Some(panic_signature(&p[0]));
            Err(format!("panic: {}", p.join(" | ")))
        }
    }
}

fn run(ctx: &ShardCtx, rep: &mut Report) {
    MAX_SHRINK_ITERS.store(400, std::sync::atomic::Ordering::Relaxed);
    pt_run(ctx, rep, "transport", ctx.budget(60_000, 3_000_000), case_strategy(), |c, o| case(ctx, c, o));
}

fn replay(variant: &str, case_json: &Json) -> Result<(), String> {
    let raw = variant.ends_with("!raw");
    let c: Case = serde_json::from_value(case_json.clone()).map_err(|e| format!("bad case: {e}"))?;
    let open = if raw { vec![] } else { open_ids_for("C06") };
    run_case(&c, &open).map(|_| ())
}
