//! C06 — frames on the wire: intact, within max-frame-size, under any fragmentation
use crate::checks::codec_common::carve_known;
use crate::checks::typed::FromR;
use crate::driver::*;
use crate::gen;
use crate::refcodec::{Choices, RValue};
use crate::rframe::{self, RFrame};
use crate::simnet::{self, CaseEnd, PipeCfg};
use crate::spec;
use bytes::Bytes;
use fe2o3_amqp::frames::amqp::{Frame, FrameBody};
use fe2o3_amqp::transport::Transport;
use fe2o3_amqp_types::performatives::Performative;
use futures_util::{SinkExt, StreamExt};
use proptest::collection::vec;
use proptest::prelude::*;
use serde::{Deserialize, Serialize};
use serde_json::Value as Json;
use tokio::io::{AsyncReadExt, AsyncWriteExt};

pub fn meta() -> PropMeta {
    PropMeta {
        id: "C06",
        level: "exploration",
        rule: "(transport) the public transport::Transport is used directly as Sink/Stream over the harness pipe. Outbound: generated (peer max-frame-size in [512,65536] incl. boundary values, channel, any of the nine performatives with independent field presence; transfers with payload lengths around k*frame-body (k<=5), tag length 0..32, optional fields, pre-set more flag) x write chunk schedule; the bytes written are parsed by the independent frame parser: complete frames only, each size <= peer max and >= 8, doff 2, type 0, right channel; a non-transfer is exactly one frame whose body equals the model; a transfer is n>=1 frames with more=true on all but the last (last = original flag), payloads concatenating to the original, first frame carrying id/tag/format and continuation frames the same values or none. Inbound: reference-encoded frames (variant choices) are fed through every generated read partition (1-byte reads, cuts inside the 8-byte header): decoded frames must equal the single-chunk decoding and the model. Non-trivial: transfer split into >=2 frames or a partition that cuts inside a frame header. (endpoint) a real client (own max-frame-size 512..4096) opened towards a scripted peer advertising 512..65536: messages sent by the client must arrive in frames no larger than the peer's value with payloads concatenating to the message; deliveries sent by the peer in frames of exactly (endpoint's max-frame-size - k), k=0..8, must be decoded and reassembled. Non-trivial: an outgoing split or an incoming frame of exactly the maximum size. Distinct by hash of the case.",
        assumptions: &["non-transfer performatives are generated small enough to fit one frame (precondition every caller of the transport respects); the peer max-frame-size is raised to fit otherwise"],
        nontrivial_floor: 0.2,
        run,
        replay,
        crashy: true,
    }
}

#[derive(Clone, Debug, Serialize, Deserialize, Hash)]
pub struct Case {
    pub peer_max: u32,
    pub channel: u16,
    /// performative model (described list)
    pub perf: RValue,
    pub payload_len: usize,
    pub payload_fill: u8,
    pub pipe: PipeCfg,
    pub choices: Vec<u8>,
    /// read partition for the inbound check
    pub read_chunks: Vec<u16>,
}

fn peer_max() -> BoxedStrategy<u32> {
    prop_oneof![3 => Just(512u32), 1 => Just(513), 1 => Just(515), 1 => Just(1024), 1 => Just(4096), 1 => Just(65536), 2 => 512u32..3000].boxed()
}

fn transfer_model() -> BoxedStrategy<RValue> {
    (
        gen::u32_edge(),
        proptest::option::of(gen::u32_edge()),
        proptest::option::of(vec(any::<u8>(), 0..=32)),
        proptest::option::of(prop_oneof![Just(0u32), any::<u32>()]),
        proptest::option::of(any::<bool>()),
        any::<bool>(),
        proptest::option::of(0u8..2),
        (any::<bool>(), any::<bool>(), any::<bool>()),
    )
        .prop_map(|(handle, id, tag, fmt, settled, more, rsm, (resume, aborted, batchable))| {
            let o = |x: Option<RValue>| x.unwrap_or(RValue::Null);
            RValue::described(
                RValue::Ulong(0x14),
                RValue::List(vec![
                    RValue::Uint(handle),
                    o(id.map(RValue::Uint)),
                    o(tag.map(RValue::Binary)),
                    o(fmt.map(RValue::Uint)),
                    o(settled.map(RValue::Bool)),
                    RValue::Bool(more),
                    o(rsm.map(RValue::Ubyte)),
                    RValue::Null,
                    RValue::Bool(resume),
                    RValue::Bool(aborted),
                    RValue::Bool(batchable),
                ]),
            )
        })
        .boxed()
}

pub fn case_strategy() -> BoxedStrategy<Case> {
    let perf = prop_oneof![
        5 => transfer_model(),
        4 => (0usize..9).prop_flat_map(|i| spec::composite_value(spec::PERFORMATIVES[i], 1)),
    ];
    (
        peer_max(),
        prop_oneof![Just(0u16), Just(1), Just(255), Just(65535), any::<u16>()],
        perf,
        (0usize..6, -12i64..12, any::<bool>()),
        any::<u8>(),
        simnet::strat::pipe_cfg(),
        gen::choices_bytes(),
        prop_oneof![Just(vec![1u16]), Just(vec![3]), Just(vec![7, 1]), Just(vec![8]), Just(vec![4, 4, 1000]), vec(1u16..40, 1..5), Just(vec![])],
    )
        .prop_map(|(peer_max, channel, perf, (k, d, small), payload_fill, pipe, choices, read_chunks)| {
            let b = peer_max as i64 - 30;
            // keep the byte volume bounded for large frame sizes (1-byte read partitions)
            let k = if peer_max > 4096 { k.min(2) } else { k };
            let payload_len = if small { (k as i64 + d).max(0) as usize } else { ((k as i64) * b + d).max(0) as usize };
            Case { peer_max, channel, perf, payload_len, payload_fill, pipe, choices, read_chunks }
        })
        .boxed()
}

fn is_transfer(p: &RValue) -> bool {
    matches!(p, RValue::Described(d, _) if **d == RValue::Ulong(0x14))
}

fn to_frame(channel: u16, perf: &Performative, payload: &[u8]) -> Frame {
    let body = match perf.clone() {
        Performative::Open(p) => FrameBody::Open(p),
        Performative::Begin(p) => FrameBody::Begin(p),
        Performative::Attach(p) => FrameBody::Attach(p),
        Performative::Flow(p) => FrameBody::Flow(p),
        Performative::Transfer(p) => FrameBody::Transfer { performative: p, payload: Bytes::copy_from_slice(payload) },
        Performative::Disposition(p) => FrameBody::Disposition(p),
        Performative::Detach(p) => FrameBody::Detach(p),
        Performative::End(p) => FrameBody::End(p),
        Performative::Close(p) => FrameBody::Close(p),
    };
    Frame::new(channel, body)
}

pub struct Info {
    pub frames: usize,
    pub header_cut: bool,
}

fn check_outbound(c: &Case, model: &RValue, payload: &[u8], peer_max: u32, frames: &[RFrame]) -> Result<(), String> {
    if frames.is_empty() {
        return Err("nothing was written for the frame".into());
    }
    for f in frames {
        if f.size > peer_max {
            return Err(format!("a frame of {} bytes was written although the peer's max-frame-size is {}", f.size, peer_max));
        }
        if f.doff != 2 || f.ftype != 0 {
            return Err(format!("frame header doff={} type={}", f.doff, f.ftype));
        }
        if f.channel != c.channel {
            return Err(format!("frame on channel {} instead of {}", f.channel, c.channel));
        }
    }
    let spec_of = |v: &RValue| match v {
        RValue::Described(d, _) => match &**d {
            RValue::Ulong(code) => spec::spec_by_code(*code),
            _ => None,
        },
        _ => None,
    };
    let sp = spec_of(model).ok_or("HARNESS: model is not a performative")?;
    let want = spec::canon_composite_as(sp, model);
    if !is_transfer(model) {
        if frames.len() != 1 {
            return Err(format!("a {} performative was written as {} frames", sp.name, frames.len()));
        }
        let got = spec::canon_composite_as(sp, frames[0].body.as_ref().ok_or("empty frame written")?);
        if got != want {
            return Err(format!("frame body differs from the performative sent:\n want {want:?}\n got  {got:?}"));
        }
        if !frames[0].payload.is_empty() {
            return Err("a non-transfer frame carries trailing bytes".into());
        }
        return Ok(());
    }
    let wf = match &want {
        RValue::Described(_, l) => match &**l {
            RValue::List(f) => f.clone(),
            _ => vec![],
        },
        _ => vec![],
    };
    let mut cat = Vec::new();
    for (i, f) in frames.iter().enumerate() {
        if f.code() != Some(0x14) {
            return Err(format!("frame {i} of a transfer is a {}", f.name()));
        }
        let ff = f.fields();
        let last = i + 1 == frames.len();
        let more = rframe::boolean(&ff[5]).unwrap_or(false);
        let want_more = if last { rframe::boolean(&wf[5]).unwrap_or(false) } else { true };
        if more != want_more {
            return Err(format!("frame {i}/{} of a transfer has more={more}, expected {want_more}", frames.len()));
        }
        if ff[0] != wf[0] {
            return Err(format!("frame {i} carries handle {:?}, expected {:?}", ff[0], wf[0]));
        }
        for (idx, name) in [(1usize, "delivery-id"), (2, "delivery-tag"), (3, "message-format"), (4, "settled"), (6, "rcv-settle-mode")] {
            let ok = if i == 0 { ff[idx] == wf[idx] } else { ff[idx] == wf[idx] || ff[idx] == RValue::Null };
            if !ok {
                return Err(format!("frame {i} of the transfer carries {name}={:?}, the transfer had {:?}", ff[idx], wf[idx]));
            }
        }
        for (idx, name) in [(8usize, "resume"), (9, "aborted"), (10, "batchable")] {
            if ff[idx] != wf[idx] {
                return Err(format!("frame {i} of the transfer carries {name}={:?}, the transfer had {:?}", ff[idx], wf[idx]));
            }
        }
        cat.extend_from_slice(&f.payload);
    }
    if cat != payload {
        return Err(format!("transfer payloads concatenate to {} bytes that differ from the {} bytes sent (first difference at {:?})", cat.len(), payload.len(), cat.iter().zip(payload.iter()).position(|(a, b)| a != b)));
    }
    Ok(())
}

async fn read_all_frames(io: crate::simnet::Endpoint, local_max: usize, n_expected: usize) -> Result<Vec<String>, String> {
    let mut t: Transport<_, Frame> = Transport::bind(io, local_max, None);
    let mut out = Vec::new();
    for _ in 0..n_expected {
        match t.next().await {
            Some(Ok(f)) => out.push(format!("{:?}", f)),
            Some(Err(e)) => return Err(format!("transport decode error: {e:?}")),
            None => return Err(format!("transport stream ended after {} of {} frames", out.len(), n_expected)),
        }
    }
    Ok(out)
}

pub async fn run_async(c: &Case, open: &[String]) -> Result<Info, String> {
    let model = carve_known(&c.perf, open, &mut vec![]);
    let perf = Performative::from_r(&model)?;
    let payload: Vec<u8> = if is_transfer(&model) { (0..c.payload_len).map(|i| c.payload_fill.wrapping_add((i % 251) as u8)).collect() } else { vec![] };
    // precondition: a non-transfer performative fits one frame
    let enc_len = serde_amqp::serialized_size(&perf).map_err(|e| format!("HARNESS: size: {e}"))?;
    // (for a transfer: the performative itself plus some payload per frame)
    let peer_max = if is_transfer(&model) { c.peer_max.max(512).max(enc_len as u32 + 72) } else { c.peer_max.max(512).max(enc_len as u32 + 8) };

    // ---- outbound
    let (a, mut b, _ctl) = simnet::pipe(c.pipe.clone());
    let mut t: Transport<_, Frame> = Transport::bind(a, 65536, None);
    t.set_encoder_max_frame_size(peer_max as usize);
    let frame = to_frame(c.channel, &perf, &payload);
    let sender = async {
        t.send(frame).await.map_err(|e| format!("transport send failed: {e:?}"))?;
        SinkExt::<Frame>::close(&mut t).await.map_err(|e| format!("transport close failed: {e:?}"))?;
        Ok::<(), String>(())
    };
    let reader = async {
        let mut bytes = Vec::new();
        b.read_to_end(&mut bytes).await.map_err(|e| format!("raw read failed: {e}"))?;
        Ok::<Vec<u8>, String>(bytes)
    };
    let (s, r) = tokio::join!(sender, reader);
    s?;
    let bytes = r?;
    let (items, used) = rframe::parse_stream(&bytes).map_err(|e| format!("bytes written do not parse as frames: {e}"))?;
    if used != bytes.len() {
        return Err(format!("bytes written end with an incomplete frame ({} of {} bytes parsed)", used, bytes.len()));
    }
    let frames = rframe::frames_of(&items);
    check_outbound(c, &model, &payload, peer_max, &frames)?;

    // ---- inbound: the same frames, reference-encoded with variant choices, under a read partition
    let mut ch = Choices::new(c.choices.clone());
    let mut wire = Vec::new();
    let mut biggest = 0usize;
    for f in &frames {
        let fb = rframe::build_frame(0, f.channel, f.body.as_ref(), &f.payload, &mut ch);
        biggest = biggest.max(fb.len());
        wire.extend_from_slice(&fb);
    }
    // the variant encodings may be a few bytes longer than the implementation's own
    let local_max = (peer_max as usize).max(biggest);
    let mut decoded = Vec::new();
    for chunks in [vec![], c.read_chunks.clone()] {
        let cfg = PipeCfg { chunks: [chunks.clone(), chunks.clone()], ..PipeCfg::default() };
        let (mut w, rd, _ctl) = simnet::pipe(cfg);
        let n = frames.len();
        let wire2 = wire.clone();
        let writer = async move {
            w.write_all(&wire2).await.map_err(|e| format!("raw write failed: {e}"))?;
            w.shutdown().await.ok();
            Ok::<(), String>(())
        };
        let (wr, got) = tokio::join!(writer, read_all_frames(rd, local_max, n));
        wr?;
        decoded.push(got.map_err(|e| format!("inbound (chunks {:?}): {e}", chunks))?);
    }
    if decoded[0] != decoded[1] {
        return Err(format!("incoming frames decode differently under read partition {:?}:\n single: {:?}\n split:  {:?}", c.read_chunks, decoded[0], decoded[1]));
    }
    // and they equal what the model says
    for (i, f) in frames.iter().enumerate() {
        let p = Performative::from_r(f.body.as_ref().ok_or("empty")?)?;
        let want = format!("{:?}", to_frame(f.channel, &p, &f.payload));
        if decoded[0][i] != want {
            return Err(format!("incoming frame {i} decoded as\n {}\n expected\n {}", decoded[0][i], want));
        }
    }
    let header_cut = c.read_chunks.iter().any(|x| *x > 0 && *x < 8);
    Ok(Info { frames: frames.len(), header_cut })
}

pub fn run_case(c: &Case, open: &[String]) -> Result<Info, String> {
    match simnet::run_case(0, run_async(c, open)).0 {
        CaseEnd::Done(r) => r,
        CaseEnd::Hang => Err("HANG: transport send/receive never completed".into()),
    }
}

fn case(ctx: &ShardCtx, c: &Case, obs: &mut Obs) -> Result<(), String> {
    let open = ctx.open_findings.clone();
    match guarded(|| run_case(c, &open)) {
        Ok(Ok(info)) => {
            obs.class(if is_transfer(&c.perf) { "transfer" } else { "non-transfer" });
            obs.class(&format!("frames:{}", info.frames.min(6)));
            if info.frames >= 2 || info.header_cut {
                obs.nontrivial(c);
            }
            Ok(())
        }
        Ok(Err(e)) => {
            obs.signature = Some("framing".into());
            Err(e)
        }
        Err(p) => {
            obs.signature = Some(panic_signature(&p[0]));
            Err(format!("panic: {}", p.join(" | ")))
        }
    }
}

// ---------------------------------------------------------------------------
// endpoint variant: the negotiated sizes as a connection applies them (outgoing frames bounded by the
// peer's max-frame-size, incoming frames accepted up to the endpoint's own)

#[derive(Clone, Debug, Serialize, Deserialize, Hash)]
pub struct CaseE {
    pub ep_mfs: u32,
    pub peer_mfs: u32,
    /// body sizes of messages the endpoint sends
    pub out_sizes: Vec<u32>,
    /// for each incoming delivery: every non-final frame is exactly ep_mfs - k bytes long
    pub in_k: Vec<u8>,
    pub tokio_seed: u64,
    pub choices: Vec<u8>,
}

pub fn case_e_strategy() -> BoxedStrategy<CaseE> {
    (
        prop_oneof![Just(512u32), Just(1000), Just(1024), Just(4096), 512u32..3000],
        prop_oneof![Just(512u32), Just(600), Just(1024), Just(4096), Just(65536), 512u32..3000],
        vec(prop_oneof![0u32..64, (prop_oneof![Just(512u32), Just(1024), Just(4096)], 0u32..4, -40i64..8).prop_map(|(b, k, d)| ((b * k) as i64 + d).max(0) as u32)], 1..4),
        vec(0u8..9, 1..4),
        any::<u64>(),
        gen::choices_bytes(),
    )
        .prop_map(|(ep_mfs, peer_mfs, out_sizes, in_k, tokio_seed, choices)| CaseE { ep_mfs, peer_mfs, out_sizes, in_k, tokio_seed, choices })
        .boxed()
}

fn data_message(seq: u32, len: u32) -> (fe2o3_amqp::types::messaging::Message<fe2o3_amqp::types::messaging::Body<fe2o3_amqp::types::primitives::Value>>, Vec<u8>) {
    use fe2o3_amqp::types::messaging::{message::__private::Serializable, Body, Data, Message};
    let mut v = seq.to_le_bytes().to_vec();
    v.extend((0..len).map(|i| (i.wrapping_mul(13).wrapping_add(seq) % 251) as u8));
    let m = Message::builder().data(serde_amqp::primitives::Binary::from(v)).build().map_body(|d: Data| Body::Data(vec![d].into()));
    let enc = serde_amqp::to_vec(&Serializable(&m)).expect("encode");
    (m, enc)
}

pub async fn run_endpoint(c: &CaseE) -> Result<(bool, bool), String> {
    use crate::peer::{answer_attach, as_bool, as_uint, client_rig, ClientRig, Peer, RigCfg};
    use fe2o3_amqp::types::messaging::Body;
    use fe2o3_amqp::types::primitives::Value;
    use fe2o3_amqp::{Receiver, Sender};
    let cfg = RigCfg { peer_mfs: c.peer_mfs, ep_mfs: c.ep_mfs, choices: c.choices.clone(), ..RigCfg::default() };
    let ClientRig { conn, mut sess, mut peer, my_ch, .. } = client_rig(cfg).await?;
    let (mut sender, _a) = answer_attach(&mut peer, my_ch, Sender::builder().name("s").target("q").sender_settle_mode(fe2o3_amqp::types::definitions::SenderSettleMode::Settled).attach(&mut sess), |_a| Peer::attach_body("s", 4, true, None, None, None, None, false), |_a| vec![Peer::flow_body(Some(0), 100_000, 0, 100_000, Some(4), Some(0), Some(1000), false, false)]).await?;
    let (mut receiver, _a) = answer_attach(&mut peer, my_ch, Receiver::builder().name("r").source("q").attach(&mut sess), |_a| Peer::attach_body("r", 9, false, None, None, Some(0), None, false), |_a| vec![]).await?;
    let _ = peer.new_frames().await;
    let limit = c.peer_mfs.min(c.ep_mfs.max(512)); // what both sides may rely on for the endpoint's output is the peer's value
    let _ = limit;
    let mut split_out = false;
    // ---- outgoing: every frame within the peer's max-frame-size, payloads concatenate
    for (i, sz) in c.out_sizes.iter().enumerate() {
        let (m, enc) = data_message(i as u32, *sz);
        sender.send(m).await.map_err(|e| format!("send #{i} failed: {e:?}"))?;
        let fs = peer.new_frames().await;
        let mut payload = Vec::new();
        let mut n = 0;
        let mut last_more = true;
        for f in fs.iter().filter(|f| f.name() == "transfer") {
            n += 1;
            if f.size > c.peer_mfs {
                return Err(format!("send #{i} ({} encoded bytes): the endpoint wrote a transfer frame of {} bytes, the peer advertised max-frame-size {} (the endpoint's own is {})", enc.len(), f.size, c.peer_mfs, c.ep_mfs));
            }
            payload.extend_from_slice(&f.payload);
            last_more = as_bool(&f.field(5)).unwrap_or(false);
        }
        if last_more {
            return Err(format!("send #{i}: the last transfer frame has more=true (or no transfer was written)"));
        }
        if payload != enc {
            return Err(format!("send #{i}: the payloads of its {} transfer frames do not concatenate to the message ({} vs {} bytes)", n, payload.len(), enc.len()));
        }
        if n > 1 {
            split_out = true;
        }
    }
    // ---- incoming: frames of exactly ep_mfs - k bytes are legal and must be decoded
    let mut did: u32 = 0;
    let mut full_in = false;
    for (i, k) in c.in_k.iter().enumerate() {
        let total = c.ep_mfs as usize - *k as usize;
        let (_m, enc) = data_message(1000 + i as u32, c.ep_mfs * 2 + 37);
        let mut off = 0;
        let mut first = true;
        while off < enc.len() {
            let perf = if first { Peer::transfer_body(9, Some(did), Some(&did.to_be_bytes()), Some(0), Some(true), true, None, false) } else { Peer::transfer_body(9, None, None, None, None, true, None, false) };
            let plen = crate::refcodec::encode_compact(&perf).len();
            let room = total - 8 - plen;
            let take = room.min(enc.len() - off);
            let last = off + take == enc.len();
            let perf = if last {
                if first { Peer::transfer_body(9, Some(did), Some(&did.to_be_bytes()), Some(0), Some(true), false, None, false) } else { Peer::transfer_body(9, None, None, None, None, false, None, false) }
            } else {
                perf
            };
            // compact encoding so that the frame size is exactly what was planned
            let mut ch = Choices::new(vec![]);
            let fr = rframe::build_frame(0, my_ch, Some(&perf), &enc[off..off + take], &mut ch);
            if !last && fr.len() != total {
                return Err(format!("HARNESS: planned a frame of {total} bytes, built {}", fr.len()));
            }
            if !last && *k == 0 {
                full_in = true;
            }
            peer.send_bytes(&fr).await?;
            off += take;
            first = false;
        }
        did = did.wrapping_add(1);
        let d = tokio::time::timeout(std::time::Duration::from_secs(30), receiver.recv::<Body<Value>>()).await.map_err(|_| format!("incoming delivery #{i} in frames of {total} bytes (endpoint's max-frame-size {}) was never returned by recv", c.ep_mfs))?.map_err(|e| format!("incoming delivery #{i} in frames of {total} bytes (the endpoint advertised max-frame-size {}): recv failed: {e:?}", c.ep_mfs))?;
        let got = serde_amqp::to_vec(&fe2o3_amqp::types::messaging::message::__private::Serializable(d.message())).map_err(|e| e.to_string())?;
        if got != enc {
            return Err(format!("incoming delivery #{i} in frames of {total} bytes was reassembled to a different message"));
        }
        receiver.accept(&d).await.map_err(|e| format!("accept failed: {e:?}"))?;
        let _ = peer.new_frames().await;
    }
    let _ = as_uint(&RValue::Null);
    drop((sender, receiver, sess, conn));
    Ok((split_out, full_in))
}

fn run(ctx: &ShardCtx, rep: &mut Report) {
    MAX_SHRINK_ITERS.store(400, std::sync::atomic::Ordering::Relaxed);
    pt_run(ctx, rep, "transport", ctx.budget(60_000, 3_000_000), case_strategy(), |c, o| case(ctx, c, o));
    pt_run(ctx, rep, "endpoint", ctx.budget(30_000, 1_500_000), case_e_strategy(), |c, obs| {
        let r = guarded(|| match simnet::run_case(c.tokio_seed, run_endpoint(c)).0 {
            CaseEnd::Done(r) => r,
            CaseEnd::Hang => Err(format!("HANG (virtual-time watchdog); wire so far:{}", simnet::describe_last_wire())),
        });
        match r {
            Ok(Ok((split_out, full_in))) => {
                if split_out {
                    obs.class("endpoint:outgoing-split-to-peer-size");
                }
                if full_in {
                    obs.class("endpoint:incoming-frame-of-exactly-max-size");
                }
                if c.peer_mfs < c.ep_mfs {
                    obs.class("endpoint:peer-size-smaller");
                }
                if split_out || full_in {
                    obs.nontrivial(c);
                }
                Ok(())
            }
            Ok(Err(e)) => {
                obs.signature = Some(if e.starts_with("HARNESS") { "harness".into() } else if e.starts_with("HANG") { "hang".into() } else { "endpoint-frame-size".into() });
                Err(e)
            }
            Err(p) => {
                obs.signature = Some(panic_signature(&p[0]));
                Err(format!("panic: {}", p.join(" | ")))
            }
        }
    });
}

fn replay(variant: &str, case_json: &Json) -> Result<(), String> {
    if variant.trim_end_matches("!raw") == "endpoint" {
        let c: CaseE = serde_json::from_value(case_json.clone()).map_err(|e| format!("bad case: {e}"))?;
        return match guarded(|| match simnet::run_case(c.tokio_seed, run_endpoint(&c)).0 {
            CaseEnd::Done(r) => r.map(|_| ()),
            CaseEnd::Hang => Err("HANG (virtual-time watchdog)".into()),
        }) {
            Ok(r) => r,
            Err(p) => Err(format!("panic: {}", p.join(" | "))),
        };
    }
    let raw = variant.ends_with("!raw");
    let c: Case = serde_json::from_value(case_json.clone()).map_err(|e| format!("bad case: {e}"))?;
    let open = if raw { vec![] } else { open_ids_for("C06") };
    run_case(&c, &open).map(|_| ())
}
