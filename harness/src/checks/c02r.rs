//! C02, hand-over variant — the receiver's disposition is applied by the session task *between* the moment
//! the sending task has handed the transfer to the session and the moment the sending task continues.
//!
//! On a multi-threaded runtime the session task runs concurrently with `send()`, so this ordering is an
//! ordinary one; on the harness's single-threaded runtime it is produced on purpose through the schedule
//! point `sender-transfer-handed-over` (cfg fe2o3_amqp_verif): the sending task is parked there, the scripted
//! receiver reads the transfer and settles it, the system is run to quiescence, and only then the sending task
//! goes on. Oracle (C02): every send completes exactly once with the outcome the receiver applied to that
//! delivery, however the disposition is ordered with the sender's own bookkeeping; in mode second the
//! sender's settling disposition follows.
use crate::driver::*;
use crate::gen;
use crate::peer::{self, as_bool, as_uint, ClientRig, Peer, RigCfg};
use crate::simnet::{self, CaseEnd, PipeCfg};
use fe2o3_amqp::link::delivery::Sendable;
use fe2o3_amqp::types::definitions::ReceiverSettleMode;
use fe2o3_amqp::types::messaging::{Body, Outcome};
use fe2o3_amqp::types::primitives::Value;
use fe2o3_amqp::Sender;
use proptest::collection::vec;
use proptest::prelude::*;
use serde::{Deserialize, Serialize};
use std::sync::atomic::{AtomicBool, AtomicUsize, Ordering};
use std::sync::Arc;
use tokio::sync::{mpsc, oneshot, Notify};

#[derive(Clone, Debug, Serialize, Deserialize, Hash)]
pub struct SendSpec {
    /// the sending task is held at the hand-over point until the disposition has been applied
    pub park: bool,
    /// 0 accepted 1 rejected 2 released 3 modified
    pub state: u8,
    /// message body length (bodies above the link's max-message-size are split by the link layer)
    pub len: u16,
    /// use send_batchable + await of the outcome future instead of send
    pub batchable: bool,
}

#[derive(Clone, Debug, Serialize, Deserialize, Hash)]
pub struct Case {
    pub rcv_second: bool,
    /// max-message-size the scripted receiver announces (0 = none)
    pub mms: u32,
    pub n0: u32,
    pub sends: Vec<SendSpec>,
    pub tokio_seed: u64,
    pub choices: Vec<u8>,
}

pub fn case_strategy() -> BoxedStrategy<Case> {
    let s = (prop::bool::weighted(0.7), 0u8..4, prop_oneof![Just(0u16), 1u16..300, 300u16..1500], any::<bool>()).prop_map(|(park, state, len, batchable)| SendSpec { park, state, len, batchable });
    (any::<bool>(), prop_oneof![3 => Just(0u32), 1 => Just(200u32)], crate::duo::next_id(), vec(s, 1..7), any::<u64>(), gen::choices_bytes())
        .prop_map(|(rcv_second, mms, n0, sends, tokio_seed, choices)| Case { rcv_second, mms, n0, sends, tokio_seed, choices })
        .boxed()
}

struct Gate {
    armed: AtomicBool,
    parked: AtomicUsize,
    release: Notify,
}

thread_local! {
    static GATE: std::cell::RefCell<Option<Arc<Gate>>> = const { std::cell::RefCell::new(None) };
}

pub fn install_hook() {
    fe2o3_amqp::verif::set_sched_hook(Some(Box::new(|name| {
        let gate = GATE.with(|g| g.borrow().clone());
        Box::pin(async move {
            if name != "sender-transfer-handed-over" {
                return;
            }
            if let Some(g) = gate {
                if g.armed.swap(false, Ordering::SeqCst) {
                    g.parked.fetch_add(1, Ordering::SeqCst);
                    g.release.notified().await;
                    g.parked.fetch_sub(1, Ordering::SeqCst);
                }
            }
        })
    })));
}

type Cmd = (u32, SendSpec, oneshot::Sender<String>);

fn render(o: &Result<Outcome, String>) -> String {
    match o {
        Ok(Outcome::Accepted(_)) => "accepted".into(),
        Ok(Outcome::Rejected(r)) => format!("rejected({})", r.error.as_ref().and_then(|e| e.description.clone()).unwrap_or_default()),
        Ok(Outcome::Released(_)) => "released".into(),
        Ok(Outcome::Modified(_)) => "modified".into(),
        Ok(o) => format!("other({o:?})"),
        Err(e) => format!("Err({e})"),
    }
}

async fn sender_app(mut s: Sender, mut rx: mpsc::Receiver<Cmd>) {
    while let Some((seq, spec, done)) = rx.recv().await {
        let mut bytes = seq.to_be_bytes().to_vec();
        bytes.extend((0..spec.len as usize).map(|i| (i % 251) as u8));
        let body = Body::Value(fe2o3_amqp::types::messaging::AmqpValue(Value::Binary(serde_bytes::ByteBuf::from(bytes))));
        let msg = fe2o3_amqp::types::messaging::Message::builder().body(body).build();
        let sendable: Sendable<Body<Value>> = Sendable::builder().message(msg).build();
        let r = if spec.batchable {
            match s.send_batchable(sendable).await {
                Ok(f) => f.await.map_err(|e| format!("{e:?}")),
                Err(e) => Err(format!("{e:?}")),
            }
        } else {
            s.send(sendable).await.map_err(|e| format!("{e:?}"))
        };
        let _ = done.send(render(&r));
    }
    std::future::pending::<()>().await;
}

pub struct Info {
    pub parked: usize,
    pub split: bool,
}

pub async fn run_async(c: &Case) -> Result<Info, String> {
    let gate = Arc::new(Gate { armed: AtomicBool::new(false), parked: AtomicUsize::new(0), release: Notify::new() });
    GATE.with(|g| *g.borrow_mut() = Some(gate.clone()));
    let cfg = RigCfg { pipe: PipeCfg { cap: 1 << 22, ..PipeCfg::default() }, choices: c.choices.clone(), ep_next_outgoing_id: c.n0, ..RigCfg::default() };
    let ClientRig { conn, mut sess, mut peer, my_ch, cfg, .. } = peer::client_rig(cfg).await?;
    let ph = 31u32;
    let rsm = if c.rcv_second { ReceiverSettleMode::Second } else { ReceiverSettleMode::First };
    let mms = if c.mms == 0 { None } else { Some(c.mms as u64) };
    let (s, _att) = peer::answer_attach(
        &mut peer,
        my_ch,
        Sender::builder().name("race").target("q").receiver_settle_mode(rsm).attach(&mut sess),
        |a| {
            let rs = match a.field(4) {
                crate::refcodec::RValue::Ubyte(x) => Some(x),
                _ => None,
            };
            Peer::attach_body("race", ph, true, None, rs, None, mms, false)
        },
        |_a| vec![Peer::flow_body(Some(cfg.ep_next_outgoing_id), 100_000, cfg.peer_next_outgoing_id, 100_000, Some(ph), Some(0), Some(100_000), false, false)],
    )
    .await?;
    let (tx, rx) = mpsc::channel(8);
    tokio::spawn(sender_app(s, rx));
    let mut info = Info { parked: 0, split: false };
    for (i, spec) in c.sends.iter().enumerate() {
        let what = format!("send #{i} {:?}", spec);
        if spec.park {
            gate.armed.store(true, Ordering::SeqCst);
        }
        let (dtx, mut drx) = oneshot::channel();
        tx.send((i as u32, spec.clone(), dtx)).await.map_err(|_| "sender app gone".to_string())?;
        // quiescence: the transfer is on the wire; the sending task is parked at the hand-over point (if armed)
        let frames = peer.new_frames().await;
        let was_parked = gate.parked.load(Ordering::SeqCst) > 0;
        if was_parked {
            info.parked += 1;
        }
        gate.armed.store(false, Ordering::SeqCst);
        let transfers: Vec<_> = frames.iter().filter(|f| f.name() == "transfer").collect();
        let first = transfers.first().ok_or_else(|| format!("{what}: no transfer on the wire at quiescence (frames: {:?})", frames.iter().map(|f| f.name()).collect::<Vec<_>>()))?;
        if transfers.len() > 1 {
            info.split = true;
        }
        if transfers.last().and_then(|f| as_bool(&f.field(5))).unwrap_or(false) {
            return Err(format!("{what}: the last transfer on the wire at quiescence still has more=true"));
        }
        let id = as_uint(&first.field(1)).ok_or_else(|| format!("{what}: first transfer without delivery-id"))?;
        if drx.try_recv().is_ok() {
            return Err(format!("{what}: the send completed before the receiver said anything about the unsettled delivery"));
        }
        // the receiver applies its outcome
        let tag = format!("t{i}");
        let (state, want) = match spec.state {
            0 => (Peer::accepted(), "accepted".to_string()),
            1 => (Peer::rejected(&tag), format!("rejected({tag})")),
            2 => (Peer::released(), "released".to_string()),
            _ => (Peer::modified(true, false), "modified".to_string()),
        };
        peer.send_frame(my_ch, &Peer::disposition_body(true, id, None, !c.rcv_second, Some(state)), &[]).await?;
        let after = peer.new_frames().await;
        // now the sending task goes on
        gate.release.notify_waiters();
        let more = peer.new_frames().await;
        let got = match tokio::time::timeout(std::time::Duration::from_secs(30), &mut drx).await {
            Ok(Ok(s)) => s,
            Ok(Err(_)) => return Err(format!("{what}: sender app dropped the reply")),
            Err(_) => {
                return Err(format!(
                    "{what}: the send never completed although the receiver reported {want} for delivery {id}{} (the disposition was applied {} the sending task continued after handing the transfer to the session)",
                    if c.rcv_second { " (unsettled, mode second)" } else { " and settled it" },
                    if was_parked { "before" } else { "after" }
                ))
            }
        };
        if got != want {
            return Err(format!("{what}: the send completed with {got}, the receiver applied {want} to delivery {id}"));
        }
        if c.rcv_second {
            let echoed = after.iter().chain(more.iter()).chain(peer.new_frames().await.iter()).any(|f| f.name() == "disposition" && as_uint(&f.field(1)) == Some(id) && as_bool(&f.field(3)) == Some(true));
            if !echoed {
                return Err(format!("{what}: mode second: no settling disposition from the sender for delivery {id} after the receiver reported {want}"));
            }
        }
    }
    drop(tx);
    let _ = (&conn, &sess);
    Ok(info)
}

pub fn run_case(c: &Case) -> Result<Info, String> {
    match simnet::run_case(c.tokio_seed, run_async(c)).0 {
        CaseEnd::Done(r) => r,
        CaseEnd::Hang => Err(format!("HANG (virtual-time watchdog); wire so far:{}", simnet::describe_last_wire())),
    }
}

pub fn run(ctx: &ShardCtx, rep: &mut Report) {
    install_hook();
    pt_run(ctx, rep, "handover", ctx.budget(24_000, 1_000_000), case_strategy(), |c, obs| match guarded(|| run_case(c)) {
        Ok(Ok(info)) => {
            if info.parked > 0 {
                obs.class("handover:disposition-before-the-sender-continues");
                obs.nontrivial(c);
            }
            if info.split {
                obs.class("handover:link-split-delivery");
            }
            Ok(())
        }
        Ok(Err(e)) => {
            obs.signature = Some(if e.contains("never completed") { "handover-send-never-completes".into() } else { "handover".into() });
            Err(e)
        }
        Err(p) => {
            obs.signature = Some(panic_signature(&p[0]));
            Err(format!("panic: {}", p.join(" | ")))
        }
    });
}

pub fn replay(case_json: &serde_json::Value) -> Result<(), String> {
    install_hook();
    let c: Case = serde_json::from_value(case_json.clone()).map_err(|e| format!("bad case: {e}"))?;
    run_case(&c).map(|_| ())
}
