//! C08 — sender link credit: never exceed granted credit; blocked sends always wake
use crate::driver::*;
use crate::duo;
use crate::gen;
use crate::peer::{self, as_bool, as_uint, ClientRig, Peer, RigCfg};
use crate::rframe::RFrame;
use crate::simnet::{self, CaseEnd, PipeCfg};
use fe2o3_amqp::link::delivery::Sendable;
use fe2o3_amqp::types::messaging::{Body, Data, Message};
use fe2o3_amqp::types::primitives::{Binary, Value};
use fe2o3_amqp::Sender;
use proptest::collection::vec;
use proptest::prelude::*;
use serde::{Deserialize, Serialize};
use serde_json::Value as Json;
use std::sync::atomic::{AtomicBool, AtomicUsize, Ordering};
use std::sync::Arc;
use tokio::sync::{mpsc, Notify};

pub fn meta() -> PropMeta {
    PropMeta {
        id: "C08",
        level: "exploration",
        rule: "a real Sender (initial-delivery-count incl. values near 2^32, small peer frame size so deliveries span frames) talks to a scripted receiver that executes a generated history step-wise: grants (delivery-count known / lagging by k / unset at any point, link-credit 0..), reductions to zero, drain on/off, echo requests, interleaved with queued send attempts; a schedule hook (cfg fe2o3_amqp_verif) can park a sender whose credit check just failed until the session task has applied the peer's next grant, so the grant lands between the check and the start of the wait. Oracle (peer-side model, serial arithmetic, frames processed in stream order): a delivery starts only while delivery-count_snd < delivery-count_rcv+link-credit_rcv of the last flow; one credit per delivery whatever its frame count; every flow from the sender reports delivery-count = initial + deliveries started (+ drained credit) and link-credit = limit - that; a drain is answered by a flow with credit 0 and delivery-count = limit and nothing is sent until a new grant; after every step the deliveries started equal min(queued sends, credit) — a send waiting for credit has produced its transfer by the quiescent point following a sufficient grant (a lost wake-up is a deterministic stall). Non-trivial: a send was blocked at least once, or drain, or counts crossed 2^32; distinct by hash of the case.",
        assumptions: &[
            "single-threaded runtime: the check/notify/wait race is reproduced through the schedule point, not by real parallelism",
            "step-wise execution makes the receiver's 'latest flow' unambiguous",
        ],
        nontrivial_floor: 0.3,
        run,
        replay,
        crashy: true,
    }
}

#[derive(Clone, Debug, Serialize, Deserialize, Hash)]
pub enum DcMode {
    Known,
    Lagging(u8),
    Unset,
}

#[derive(Clone, Debug, Serialize, Deserialize, Hash)]
pub enum Op {
    /// queue a send; `park`: if its credit check fails, hold it at the schedule point until the next grant was applied
    Send { len: u16, park: bool },
    Grant { credit: u32, dc: DcMode, drain: bool, echo: bool },
}

#[derive(Clone, Debug, Serialize, Deserialize, Hash)]
pub struct Case {
    pub i0: u32,
    pub peer_mfs: u32,
    pub ops: Vec<Op>,
    pub tokio_seed: u64,
    pub choices: Vec<u8>,
    pub pipe: PipeCfg,
}

fn op() -> BoxedStrategy<Op> {
    prop_oneof![
        5 => (prop_oneof![Just(0u16), 1u16..400, 400u16..3000], prop::bool::weighted(0.4)).prop_map(|(len, park)| Op::Send { len, park }),
        5 => (
            prop_oneof![3 => Just(0u32), 3 => Just(1u32), 3 => 2u32..6, 1 => Just(100u32)],
            prop_oneof![5 => Just(DcMode::Known), 2 => (1u8..4).prop_map(DcMode::Lagging), 2 => Just(DcMode::Unset)],
            prop::bool::weighted(0.2),
            any::<bool>()
        )
            .prop_map(|(credit, dc, drain, echo)| Op::Grant { credit, dc, drain, echo }),
    ]
    .boxed()
}

pub fn case_strategy() -> BoxedStrategy<Case> {
    (duo::next_id(), prop_oneof![Just(512u32), Just(4096)], vec(op(), 1..40), any::<u64>(), gen::choices_bytes(), simnet::strat::pipe_cfg())
        .prop_map(|(i0, peer_mfs, ops, tokio_seed, choices, pipe)| Case { i0, peer_mfs, ops, tokio_seed, choices, pipe: PipeCfg { cap: 1 << 22, ..pipe } })
        .boxed()
}

type Msg = Message<Body<Value>>;
fn make_msg(seq: u32, len: usize) -> Msg {
    let mut v = vec![(seq & 0xff) as u8, (seq >> 8) as u8];
    v.extend((0..len).map(|i| (i % 251) as u8));
    Message::builder().data(Binary::from(v)).build().map_body(|d: Data| Body::Data(vec![d].into()))
}

// ---- schedule hook plumbing ---------------------------------------------------------------

struct Gate {
    armed: AtomicBool,
    parked: AtomicUsize,
    release: Notify,
}

thread_local! {
    static GATE: std::cell::RefCell<Option<Arc<Gate>>> = const { std::cell::RefCell::new(None) };
}

fn install_hook() {
    // The hook runs on the thread that polls the sender; each worker is single-threaded and
    // looks its gate up in a thread local.
    fe2o3_amqp::verif::set_sched_hook(Some(Box::new(|name| {
        let gate = GATE.with(|g| g.borrow().clone());
        Box::pin(async move {
            if name != "sender-credit-check-failed" {
                return;
            }
            if let Some(g) = gate {
                if g.armed.swap(false, Ordering::SeqCst) {
                    g.parked.fetch_add(1, Ordering::SeqCst);
                    g.release.notified().await;
                    g.parked.fetch_sub(1, Ordering::SeqCst);
                }
            }
        })
    })));
}

async fn sender_app(mut s: Sender, mut rx: mpsc::Receiver<Msg>, queued_done: Arc<AtomicUsize>) {
    let mut futs = Vec::new();
    while let Some(m) = rx.recv().await {
        let sendable: Sendable<Body<Value>> = Sendable::builder().message(m).settled(true).build();
        match s.send_batchable(sendable).await {
            Ok(f) => futs.push(f),
            Err(_) => break,
        }
        queued_done.fetch_add(1, Ordering::SeqCst);
    }
    std::future::pending::<()>().await;
}

pub struct Info {
    pub blocked: bool,
    pub drained: bool,
    pub wrapped: bool,
    pub parked: bool,
    pub multi_frame: bool,
}

pub async fn run_async(c: &Case) -> Result<Info, String> {
    let gate = Arc::new(Gate { armed: AtomicBool::new(false), parked: AtomicUsize::new(0), release: Notify::new() });
    GATE.with(|g| *g.borrow_mut() = Some(gate.clone()));
    let cfg = RigCfg { pipe: c.pipe.clone(), choices: c.choices.clone(), peer_mfs: c.peer_mfs, ..RigCfg::default() };
    let ClientRig { conn, mut sess, mut peer, my_ch, cfg, .. } = peer::client_rig(cfg).await?;
    let ph = 5u32;
    let (sender, att) = peer::answer_attach(
        &mut peer,
        my_ch,
        Sender::builder().name("s").target("q").initial_delivery_count(c.i0).attach(&mut sess),
        |_a| Peer::attach_body("s", ph, true, None, None, None, None, false),
        |_a| vec![],
    )
    .await?;
    let eh = as_uint(&att.field(1)).ok_or("attach without handle")?;
    if as_uint(&att.field(9)) != Some(c.i0) {
        return Err(format!("attach carries initial-delivery-count {:?}, configured {}", att.field(9), c.i0));
    }
    let (tx, rx) = mpsc::channel::<Msg>(256);
    let accepted_by_link = Arc::new(AtomicUsize::new(0));
    tokio::spawn(sender_app(sender, rx, accepted_by_link.clone()));

    // model (offsets from i0)
    let mut dc_snd: u64 = 0;
    let mut limit: u64 = 0;
    let mut started: u64 = 0;
    let mut queued: u64 = 0;
    let mut frames_seen: u64 = 0;
    let mut drain_pending = false;
    let mut first_flow = true;
    let mut info = Info { blocked: false, drained: false, wrapped: false, parked: false, multi_frame: false };
    let mut in_delivery = false;

    macro_rules! step {
        ($what:expr, $is_drain:expr) => {{
            let frames: Vec<RFrame> = peer.new_frames().await;
            let before = started;
            let pending = queued - started;
            let avail = limit.saturating_sub(dc_snd);
            for f in &frames {
                match f.name() {
                    "transfer" => {
                        frames_seen += 1;
                        if as_uint(&f.field(0)) != Some(eh) {
                            return Err(format!("{}: transfer on handle {:?}", $what, f.field(0)));
                        }
                        let first = !in_delivery;
                        let more = as_bool(&f.field(5)).unwrap_or(false);
                        if first {
                            if drain_pending {
                                return Err(format!("{}: a delivery was started after a drain request and before the drain was answered", $what));
                            }
                            if dc_snd >= limit {
                                return Err(format!(
                                    "{}: delivery #{} started although the receiver's latest flow allows deliveries only below delivery-count {} (delivery-count_rcv + link-credit_rcv); sender is at {}",
                                    $what,
                                    started,
                                    c.i0.wrapping_add(limit as u32),
                                    c.i0.wrapping_add(dc_snd as u32)
                                ));
                            }
                            dc_snd += 1;
                            started += 1;
                            if c.i0 as u64 + dc_snd > u32::MAX as u64 {
                                info.wrapped = true;
                            }
                        } else {
                            info.multi_frame = true;
                        }
                        in_delivery = more;
                    }
                    "flow" => {
                        let ff = f.fields();
                        if as_uint(&ff[4]) != Some(eh) {
                            // session-only flow
                            continue;
                        }
                        let fdc = as_uint(&ff[5]).ok_or_else(|| format!("{}: sender's flow without delivery-count", $what))?;
                        let fcredit = as_uint(&ff[6]).unwrap_or(0);
                        if drain_pending {
                            let want = c.i0.wrapping_add(limit.max(dc_snd) as u32);
                            if fcredit != 0 || fdc != want {
                                return Err(format!("{}: after a drain request the sender's flow shows link-credit {} delivery-count {} (expected credit 0 and delivery-count {} = all credit used up or given back)", $what, fcredit, fdc, want));
                            }
                            dc_snd = limit.max(dc_snd);
                            limit = dc_snd;
                            drain_pending = false;
                            info.drained = true;
                        } else {
                            let want_dc = c.i0.wrapping_add(dc_snd as u32);
                            let want_credit = limit.saturating_sub(dc_snd) as u32;
                            if fdc != want_dc || fcredit != want_credit {
                                return Err(format!("{}: sender's flow reports delivery-count {} link-credit {}, the history implies {} and {}", $what, fdc, fcredit, want_dc, want_credit));
                            }
                        }
                    }
                    "disposition" => {}
                    other => return Err(format!("{}: unexpected {} frame", $what, other)),
                }
            }
            if in_delivery {
                return Err(format!("{}: a multi-frame delivery is incomplete at a quiescent point", $what));
            }
            if drain_pending {
                return Err(format!("{}: drain request was not answered with a flow", $what));
            }
            let exp_max = before + pending.min(avail);
            if $is_drain {
                if started > exp_max {
                    return Err(format!("{}: {} deliveries started, at most {} allowed", $what, started, exp_max));
                }
            } else if started != exp_max {
                return Err(format!(
                    "{}: {} deliveries started at quiescence, expected {} (queued {}, credit available {}, started before {}) — {}",
                    $what,
                    started,
                    exp_max,
                    queued,
                    avail,
                    before,
                    if started < exp_max { "a send waiting for credit was not woken by a sufficient grant" } else { "more deliveries than credit" }
                ));
            }
            if queued > started {
                info.blocked = true;
            }
        }};
    }

    step!("after attach", false);
    for (k, op) in c.ops.iter().enumerate() {
        let what = format!("step {k} {:?}", op);
        match op {
            Op::Send { len, park } => {
                if *park && gate.parked.load(Ordering::SeqCst) == 0 {
                    gate.armed.store(true, Ordering::SeqCst);
                }
                let m = make_msg(queued as u32, *len as usize);
                queued += 1;
                tx.send(m).await.map_err(|_| "app gone".to_string())?;
                step!(what, false);
                if gate.parked.load(Ordering::SeqCst) > 0 {
                    info.parked = true;
                }
                // not parked (credit was available): disarm
                gate.armed.store(false, Ordering::SeqCst);
            }
            Op::Grant { credit, dc, drain, echo } => {
                let dc_off = match dc {
                    DcMode::Known => Some(dc_snd),
                    DcMode::Lagging(k) => Some(dc_snd - (*k as u64).min(dc_snd)),
                    // unset delivery-count: the sender's initial delivery-count is what counts (spec 2.7.6),
                    // at any point of the history
                    DcMode::Unset => None,
                };
                first_flow = false;
                limit = dc_off.unwrap_or(0) + *credit as u64;
                if *drain {
                    drain_pending = true;
                }
                let body = Peer::flow_body(
                    Some(cfg.ep_next_outgoing_id.wrapping_add(frames_seen as u32)),
                    100_000,
                    cfg.peer_next_outgoing_id,
                    100_000,
                    Some(ph),
                    dc_off.map(|d| c.i0.wrapping_add(d as u32)),
                    Some(*credit),
                    *drain,
                    *echo,
                );
                peer.send_frame(my_ch, &body, &[]).await?;
                if gate.parked.load(Ordering::SeqCst) > 0 {
                    // let the session task apply the grant while the sender sits between its
                    // failed check and the start of its wait, then let it continue
                    peer.settle().await;
                    gate.release.notify_waiters();
                }
                step!(what, *drain);
            }
        }
    }
    // final: ample credit, everything queued must go out
    gate.armed.store(false, Ordering::SeqCst);
    gate.release.notify_waiters();
    limit = dc_snd + 1_000_000;
    let body = Peer::flow_body(Some(cfg.ep_next_outgoing_id.wrapping_add(frames_seen as u32)), 100_000, cfg.peer_next_outgoing_id, 100_000, Some(ph), Some(c.i0.wrapping_add(dc_snd as u32)), Some(1_000_000), false, false);
    peer.send_frame(my_ch, &body, &[]).await?;
    step!("final ample grant", false);
    drop(tx);
    let _ = (&conn, &sess);
    Ok(info)
}

pub fn run_case(c: &Case) -> Result<Info, String> {
    install_hook();
    match simnet::run_case(c.tokio_seed, run_async(c)).0 {
        CaseEnd::Done(r) => r,
        CaseEnd::Hang => Err(format!("HANG (virtual-time watchdog); wire so far:{}", simnet::describe_last_wire())),
    }
}

fn case(_ctx: &ShardCtx, c: &Case, obs: &mut Obs) -> Result<(), String> {
    match guarded(|| run_case(c)) {
        Ok(Ok(info)) => {
            for (b, n) in [(info.blocked, "send-blocked"), (info.drained, "drain"), (info.wrapped, "delivery-count-crossed-2^32"), (info.parked, "parked-between-check-and-wait"), (info.multi_frame, "multi-frame-delivery")] {
                if b {
                    obs.class(n);
                }
            }
            if info.blocked || info.drained || info.wrapped {
                obs.nontrivial(c);
            }
            Ok(())
        }
        Ok(Err(e)) => {
            obs.signature = Some(if e.contains("not woken") { "not-woken".into() } else if e.contains("started although") { "overrun".into() } else { "credit".into() });
            Err(e)
        }
        Err(p) => {
            obs.signature = Some(panic_signature(&p[0]));
            Err(format!("panic: {}", p.join(" | ")))
        }
    }
}

fn resume_case(_ctx: &ShardCtx, c: &super::resume::Case, obs: &mut Obs) -> Result<(), String> {
    match guarded(|| super::resume::run_case(c)) {
        Ok(Ok(info)) => {
            if info.handle_changed {
                obs.class("resumed-under-a-different-peer-handle");
            }
            if info.waited {
                obs.class("send-waited-for-credit-on-the-resumed-link");
            }
            if c.reuse_old {
                obs.class("old-handle-given-to-another-link");
            }
            if info.handle_changed || info.waited {
                obs.nontrivial(c);
            }
            Ok(())
        }
        Ok(Err(e)) => {
            obs.signature = Some(if e.contains("not woken") { "resume-not-woken".into() } else if e.contains("marker") { "resume-routing".into() } else if e.contains("HANG") { "resume-hang".into() } else { "resume".into() });
            Err(e)
        }
        Err(p) => {
            obs.signature = Some(panic_signature(&p[0]));
            Err(format!("panic: {}", p.join(" | ")))
        }
    }
}

fn run(ctx: &ShardCtx, rep: &mut Report) {
    MAX_SHRINK_ITERS.store(400, std::sync::atomic::Ordering::Relaxed);
    pt_run(ctx, rep, "credit-peer", ctx.budget(100_000, 4_000_000), case_strategy(), |c, o| case(ctx, c, o));
    pt_run(ctx, rep, "resume", ctx.budget(6_000, 300_000), super::resume::case_strategy(Some(true), None), |c, o| resume_case(ctx, c, o));
}

fn replay(variant: &str, case_json: &Json) -> Result<(), String> {
    if variant == "resume" {
        let c: super::resume::Case = serde_json::from_value(case_json.clone()).map_err(|e| format!("bad case: {e}"))?;
        return super::resume::run_case(&c).map(|_| ());
    }
    let c: Case = serde_json::from_value(case_json.clone()).map_err(|e| format!("bad case: {e}"))?;
    run_case(&c).map(|_| ())
}
