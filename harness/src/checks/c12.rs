//! C12 — connection lifecycle follows the AMQP open/close state machine
use crate::driver::*;
use crate::gen;
use crate::peer::Peer;
use crate::refcodec::RValue;
use crate::rframe::{self, Item};
use crate::simnet::{self, CaseEnd, PipeCfg};
use fe2o3_amqp::acceptor::ConnectionAcceptor;
use fe2o3_amqp::connection::{ConnectionHandle, Error as ConnError};
use fe2o3_amqp::types::definitions::{self, AmqpError};
use fe2o3_amqp::{Connection, Session};
use proptest::collection::vec;
use proptest::prelude::*;
use serde::{Deserialize, Serialize};
use serde_json::Value as Json;

pub fn meta() -> PropMeta {
    PropMeta {
        id: "C12",
        level: "exploration",
        rule: "a real client (peer in server role) or a real ConnectionAcceptor (peer in client role) executes a generated script of local operations (begin a session, close, close_with_error, drop of the handle) interleaved with generated peer behaviour (header/open immediately or after a virtual delay, close at any point with or without error, begin with an unknown remote-channel, end on an unmapped channel, a second open, a transfer/flow on an unmapped channel, frames after the endpoint closed with an error, silence, EOF), step-wise. Oracle: automaton over the bytes the endpoint writes — protocol header first; exactly one open, before any other frame; at most one close and nothing after it; a peer close is answered by a close; after close-with-error incoming frames are ignored until the peer's close (no reply, no begin answered); an illegal frame produces a close carrying an error condition and is not acted on; close()/on_close() returns Ok for a clean close and the peer's error (RemoteClosedWithError with the same condition) when the peer supplied one, RemoteClosed for a clean peer-initiated close. A positive control (clean open/close) runs in every shard. Non-trivial: peer-initiated close, an illegal frame, or close_with_error occurred; distinct by hash of the case.",
        assumptions: &["a silent peer legitimately keeps close() pending: completion is only asserted after the peer answered or the transport ended"],
        nontrivial_floor: 0.3,
        run,
        replay,
        crashy: true,
    }
}

#[derive(Clone, Debug, Serialize, Deserialize, Hash, PartialEq)]
pub enum Ev {
    LocalBegin,
    LocalClose { peer_err: bool },
    LocalCloseErr { junk_frames: u8 },
    LocalDrop,
    PeerClose { err: bool },
    /// 0 begin with unknown remote-channel, 1 end on unmapped channel, 2 second open,
    /// 3 transfer on unmapped channel, 4 flow on unmapped channel, 5 attach on unmapped channel
    PeerIllegal(u8),
    PeerEof,
    PeerEmptyFrame,
    /// local close; the peer reads it and ends the transport instead of answering
    LocalCloseEof,
}

#[derive(Clone, Debug, Serialize, Deserialize, Hash)]
pub struct Case {
    /// 0: endpoint is the client, 1: endpoint is the listener
    pub role: u8,
    /// virtual ms the peer waits before its header / open
    pub header_delay: u16,
    pub open_delay: u16,
    pub script: Vec<Ev>,
    pub tokio_seed: u64,
    pub choices: Vec<u8>,
    pub pipe: PipeCfg,
    /// idle-time-out (ms) the peer advertises in its open: the endpoint then sends heartbeats
    #[serde(default)]
    pub peer_idle: Option<u32>,
    /// virtual ms the peer lets pass (reading) before it answers the endpoint's close
    #[serde(default)]
    pub close_answer_delay: u16,
    /// first channel number the peer uses for its own end of sessions (the endpoint counts from 0)
    #[serde(default)]
    pub peer_ch0: u16,
    /// the peer sends this frame after its protocol header and before its open (0 begin, 1 flow, 2 empty,
    /// 3 close, 4 end, 5 attach); the script is not run in that case
    #[serde(default)]
    pub pre_open: Option<u8>,
    /// frames the peer sends after it has read the endpoint's (plain) close and before its own close:
    /// traffic that crossed the close on the wire (begin on a new channel, end on an unmapped channel, flow)
    #[serde(default)]
    pub crossing_frames: u8,
    /// at a peer-initiated close the application drops all its session handles in the same instant, so
    /// their end frames are queued when the close arrives: they are flushed before the answering close
    #[serde(default)]
    pub busy_at_peer_close: bool,
}

fn ev() -> BoxedStrategy<Ev> {
    prop_oneof![
        3 => Just(Ev::LocalBegin),
        3 => any::<bool>().prop_map(|peer_err| Ev::LocalClose { peer_err }),
        2 => (0u8..4).prop_map(|junk_frames| Ev::LocalCloseErr { junk_frames }),
        1 => Just(Ev::LocalDrop),
        3 => any::<bool>().prop_map(|err| Ev::PeerClose { err }),
        3 => (0u8..6).prop_map(Ev::PeerIllegal),
        1 => Just(Ev::PeerEof),
        1 => Just(Ev::PeerEmptyFrame),
        2 => Just(Ev::LocalCloseEof),
    ]
    .boxed()
}

pub fn case_strategy() -> BoxedStrategy<Case> {
    (0u8..2, prop_oneof![Just(0u16), Just(1), Just(500)], prop_oneof![Just(0u16), Just(1), Just(500)], vec(ev(), 1..6), any::<u64>(), gen::choices_bytes(), simnet::strat::pipe_cfg(), (prop_oneof![3 => Just(None), 1 => Just(Some(50u32)), 1 => Just(Some(400u32))], prop_oneof![3 => Just(0u16), 1 => Just(120u16), 1 => Just(1000u16)], prop_oneof![2 => Just(0u16), 1 => Just(3u16), 1 => Just(100u16)], proptest::option::weighted(0.08, 0u8..6), prop_oneof![3 => Just(0u8), 1 => 1u8..4], any::<bool>()))
        .prop_map(|(role, header_delay, open_delay, script, tokio_seed, choices, pipe, (peer_idle, close_answer_delay, peer_ch0, pre_open, crossing_frames, busy_at_peer_close))| Case { role, header_delay, open_delay, script, tokio_seed, choices, pipe: PipeCfg { cap: 1 << 22, ..pipe }, peer_idle, close_answer_delay, peer_ch0, pre_open, crossing_frames, busy_at_peer_close })
        .boxed()
}

/// the automaton over what the endpoint wrote
fn check_trace(items: &[Item], finished: bool) -> Result<(usize, usize), String> {
    let mut opens = 0;
    let mut closes = 0;
    for (i, it) in items.iter().enumerate() {
        match it {
            Item::Header(h) => {
                if i != 0 {
                    return Err(format!("a protocol header appears at position {i} of the endpoint's output"));
                }
                if *h != [0, 1, 0, 0] {
                    return Err(format!("protocol header {:?}", h));
                }
            }
            Item::Frame(f) => {
                if i == 0 {
                    return Err("the endpoint wrote a frame before the protocol header".into());
                }
                if closes > 0 {
                    return Err(format!("the endpoint wrote a {} frame after its close", f.name()));
                }
                match f.name() {
                    "open" => {
                        opens += 1;
                        if i != 1 {
                            return Err("open is not the first frame after the header".into());
                        }
                        if opens > 1 {
                            return Err("the endpoint sent a second open".into());
                        }
                    }
                    "close" => closes += 1,
                    "empty" => {
                        if opens == 0 {
                            return Err("an empty frame precedes the open".into());
                        }
                    }
                    other => {
                        if opens == 0 {
                            return Err(format!("a {} frame precedes the open", other));
                        }
                    }
                }
            }
        }
    }
    let _ = finished;
    Ok((opens, closes))
}

fn cond_of_close(items: &[Item]) -> Option<Option<String>> {
    items.iter().rev().find_map(|it| match it {
        Item::Frame(f) if f.name() == "close" => Some(match f.field(0) {
            RValue::Described(_, l) => match *l {
                RValue::List(ref fields) => match fields.first() {
                    Some(RValue::Sym(s)) => Some(s.clone()),
                    _ => Some("?".into()),
                },
                _ => None,
            },
            _ => None,
        }),
        _ => None,
    })
}

pub struct Info {
    pub peer_close: bool,
    pub illegal: bool,
    pub close_err: bool,
}

async fn drive<R: Send + 'static>(conn: ConnectionHandle<R>, mut peer: Peer, c: &Case, client_role: bool) -> Result<Info, String> {
    let mut info = Info { peer_close: false, illegal: false, close_err: false };
    let mut conn_opt: Option<ConnectionHandle<R>> = Some(conn);
    let mut closed = false;
    let mut sessions = Vec::new();
    let mut next_peer_ch = c.peer_ch0;
    let items = |peer: &Peer| -> Vec<Item> { peer.items.iter().map(|(_, i)| i.clone()).collect() };
    macro_rules! trace_ok {
        ($what:expr) => {{
            peer.settle().await;
            if let Some(e) = &peer.protocol_error {
                return Err(format!("{}: the endpoint wrote bytes that are not frames: {e}", $what));
            }
            check_trace(&items(&peer), closed).map_err(|e| format!("{}: {e}", $what))?
        }};
    }
    trace_ok!("after open");
    for (k, ev) in c.script.iter().enumerate() {
        if closed {
            break;
        }
        let what = format!("step {k} {:?}", ev);
        let conn = match conn_opt.as_mut() {
            Some(c) => c,
            None => break,
        };
        match ev {
            Ev::LocalBegin => {
                if !client_role {
                    continue;
                }
                // only the client handle type can begin sessions; handled by the caller through `begin_hook`
                if let Some(h) = begin_client(conn, &mut peer, next_peer_ch).await? {
                    sessions.push(h);
                    next_peer_ch += 1;
                }
                trace_ok!(what);
            }
            Ev::LocalClose { peer_err } => {
                let pe = async {
                    let _c = peer.wait_for("close").await?;
                    for j in 0..c.crossing_frames {
                        let body = match j % 3 {
                            0 => Peer::begin_body(None, 0, 10, 10, None),
                            1 => Peer::end_body(None),
                            _ => Peer::flow_body(Some(0), 10, 0, 10, None, None, None, false, true),
                        };
                        // the endpoint may already have given up on the connection: a failed write is fine
                        let _ = peer.send_frame(50 + j as u16, &body, &[]).await;
                    }
                    peer.read_until(tokio::time::Instant::now() + std::time::Duration::from_millis(c.close_answer_delay as u64)).await;
                    let err = if *peer_err { Some(Peer::error_body("amqp:resource-limit-exceeded", Some("peer says no"))) } else { None };
                    let w = peer.send_frame(0, &Peer::close_body(err), &[]).await;
                    if c.crossing_frames == 0 {
                        w?;
                    }
                    Ok::<(), String>(())
                };
                let (r, p) = tokio::join!(conn.close(), pe);
                p.map_err(|e| format!("{what}: {e}"))?;
                match (r, peer_err) {
                    (Ok(()), false) => {}
                    // with traffic crossing the close the result is not judged, only the wire (one close, nothing after)
                    (_, _) if c.crossing_frames > 0 => {}
                    (Err(ConnError::RemoteClosedWithError(e)), true) => {
                        if format!("{:?}", e.condition) != format!("{:?}", definitions::ErrorCondition::AmqpError(AmqpError::ResourceLimitExceeded)) {
                            return Err(format!("{what}: close() reports the peer's error with condition {:?}", e.condition));
                        }
                    }
                    (other, _) => return Err(format!("{what}: close() returned {:?} (peer's close carried an error: {})", other, peer_err)),
                }
                closed = true;
                let (_o, cl) = trace_ok!(what);
                if cl != 1 {
                    return Err(format!("{what}: {} close frames were sent", cl));
                }
            }
            Ev::LocalCloseErr { junk_frames } => {
                info.close_err = true;
                let before = items(&peer).len();
                let pe = async {
                    let cf = peer.wait_for("close").await?;
                    // frames sent now must be ignored by the endpoint
                    for j in 0..*junk_frames {
                        let body = match j % 3 {
                            0 => Peer::begin_body(None, 0, 10, 10, None),
                            1 => Peer::flow_body(Some(0), 10, 0, 10, None, None, None, false, true),
                            _ => Peer::end_body(None),
                        };
                        peer.send_frame(40 + j as u16, &body, &[]).await?;
                    }
                    peer.read_until(tokio::time::Instant::now() + std::time::Duration::from_millis(c.close_answer_delay as u64)).await;
                    peer.settle().await;
                    peer.send_frame(0, &Peer::close_body(None), &[]).await?;
                    Ok::<crate::rframe::RFrame, String>(cf)
                };
                let err = definitions::Error::new(AmqpError::InternalError, Some("local failure".to_string()), None);
                let (r, p) = tokio::join!(conn.close_with_error(err), pe);
                let cf = p.map_err(|e| format!("{what}: {e}"))?;
                if !matches!(cf.field(0), RValue::Described(..)) {
                    return Err(format!("{what}: close_with_error sent a close without an error"));
                }
                if let Err(e) = r {
                    return Err(format!("{what}: close_with_error returned {:?} although the peer answered with a clean close", e));
                }
                closed = true;
                trace_ok!(what);
                let after: Vec<Item> = items(&peer)[before..].to_vec();
                let n_frames = after.iter().filter(|i| matches!(i, Item::Frame(f) if f.body.is_some())).count();
                if n_frames != 1 {
                    return Err(format!("{what}: after closing with an error the endpoint wrote {} frames (only its close is allowed; incoming frames must be ignored)", n_frames));
                }
            }
            Ev::LocalDrop => {
                let c = conn_opt.take().unwrap();
                drop(c);
                let pe = async {
                    let _c = peer.wait_for("close").await?;
                    peer.send_frame(0, &Peer::close_body(None), &[]).await?;
                    Ok::<(), String>(())
                };
                pe.await.map_err(|e| format!("{what}: dropping the handle must close the connection: {e}"))?;
                closed = true;
                trace_ok!(what);
            }
            Ev::PeerClose { err } => {
                info.peer_close = true;
                let e = if *err { Some(Peer::error_body("amqp:connection:forced", Some("go away"))) } else { None };
                let busy = if c.busy_at_peer_close { sessions.len() } else { 0 };
                let before = items(&peer).len();
                if busy > 0 {
                    // the handles go away in the same instant: their end frames are queued, not yet written
                    sessions.clear();
                }
                peer.send_frame(0, &Peer::close_body(e), &[]).await?;
                let r = tokio::time::timeout(std::time::Duration::from_secs(10), conn.on_close()).await;
                if busy > 0 {
                    peer.settle().await;
                    let after: Vec<Item> = items(&peer)[before..].to_vec();
                    let names: Vec<&str> = after.iter().filter_map(|i| if let Item::Frame(f) = i { Some(f.name()) } else { None }).collect();
                    let ends_before_close = names.iter().take_while(|n| **n != "close").filter(|n| **n == "end").count();
                    if ends_before_close != busy {
                        return Err(format!("{what}: {busy} session handles were dropped just before the peer's close arrived, but {ends_before_close} end frames were flushed before the answering close (frames: {names:?})"));
                    }
                    if let Some(Item::Frame(cf)) = after.iter().find(|i| matches!(i, Item::Frame(f) if f.name() == "close")) {
                        if matches!(cf.field(0), RValue::Described(..)) {
                            return Err(format!("{what}: the peer's close was answered by a close carrying an error although nothing illegal happened (frames: {names:?})"));
                        }
                    }
                }
                match (r, err) {
                    (Ok(Err(ConnError::RemoteClosed)), false) => {}
                    (Ok(Err(ConnError::RemoteClosedWithError(e))), true) => {
                        if format!("{:?}", e.condition) != format!("{:?}", definitions::ErrorCondition::ConnectionError(definitions::ConnectionError::ConnectionForced)) {
                            return Err(format!("{what}: on_close() reports condition {:?}", e.condition));
                        }
                    }
                    (Ok(other), _) => return Err(format!("{what}: on_close() returned {:?} after a peer close (error supplied: {})", other, err)),
                    (Err(_), _) => return Err(format!("{what}: on_close() did not return after the peer's close")),
                }
                closed = true;
                let (_o, cl) = trace_ok!(what);
                if cl != 1 {
                    return Err(format!("{what}: the peer's close was answered by {} close frames", cl));
                }
            }
            Ev::PeerIllegal(kind) => {
                info.illegal = true;
                let before = items(&peer).len();
                let (ch, body, payload): (u16, RValue, Vec<u8>) = match kind {
                    0 => (50, Peer::begin_body(Some(999), 0, 10, 10, None), vec![]),
                    1 => (51, Peer::end_body(None), vec![]),
                    2 => (0, Peer::open_body("again", None, None, None), vec![]),
                    3 => (52, Peer::transfer_body(0, Some(0), Some(&[1]), Some(0), Some(true), false, None, false), vec![0x00, 0x53, 0x77, 0x40]),
                    4 => (53, Peer::flow_body(Some(0), 10, 0, 10, Some(0), Some(0), Some(5), false, false), vec![]),
                    _ => (54, Peer::attach_body("x", 0, false, None, None, Some(0), None, false), vec![]),
                };
                peer.send_frame(ch, &body, &payload).await?;
                peer.settle().await;
                let after: Vec<Item> = items(&peer)[before..].to_vec();
                let frames: Vec<&crate::rframe::RFrame> = after.iter().filter_map(|i| if let Item::Frame(f) = i { if f.body.is_some() { Some(f) } else { None } } else { None }).collect();
                // the frame must not be acted on: the only acceptable reaction is a close with an error
                match frames.as_slice() {
                    [f] if f.name() == "close" => {
                        if !matches!(f.field(0), RValue::Described(..)) {
                            return Err(format!("{what}: the illegal frame was answered by a close without an error condition"));
                        }
                        peer.send_frame(0, &Peer::close_body(None), &[]).await?;
                        let r = tokio::time::timeout(std::time::Duration::from_secs(10), conn.on_close()).await;
                        match r {
                            Ok(Err(_)) => {}
                            Ok(Ok(())) => return Err(format!("{what}: on_close() reports a clean close after the connection was closed because of an illegal frame")),
                            Err(_) => return Err(format!("{what}: on_close() did not return after the close exchange")),
                        }
                        closed = true;
                    }
                    [] => {
                        return Err(format!("{what}: a frame that is illegal in the current state was neither answered with a close carrying an error nor did it stop the connection (it was silently accepted)"));
                    }
                    other => {
                        return Err(format!("{what}: the illegal frame was acted on: the endpoint wrote {:?}", other.iter().map(|f| f.name()).collect::<Vec<_>>()));
                    }
                }
                trace_ok!(what);
            }
            Ev::PeerEof => {
                let Peer { io, .. } = std::mem::replace(&mut peer, dummy_peer());
                drop(io);
                let r = tokio::time::timeout(std::time::Duration::from_secs(10), conn.on_close()).await;
                match r {
                    Ok(Err(_)) => {}
                    Ok(Ok(())) => return Err(format!("{what}: on_close() reports a clean close after the transport ended without a close frame")),
                    Err(_) => return Err(format!("{what}: on_close() did not return after EOF")),
                }
                return Ok(info);
            }
            Ev::PeerEmptyFrame => {
                peer.send_empty_frame().await?;
                trace_ok!(what);
            }
            Ev::LocalCloseEof => {
                let pe = async {
                    let _c = peer.wait_for("close").await?;
                    Ok::<(), String>(())
                };
                let closing = conn.close();
                tokio::pin!(closing);
                let p = tokio::select! {
                    biased;
                    r = &mut closing => return Err(format!("{what}: close() returned {:?} before the peer answered or the transport ended", r)),
                    p = pe => p,
                };
                p.map_err(|e| format!("{what}: {e}"))?;
                let Peer { io, .. } = std::mem::replace(&mut peer, dummy_peer());
                drop(io);
                match tokio::time::timeout(std::time::Duration::from_secs(10), closing).await {
                    Ok(Err(_)) => {}
                    Ok(Ok(())) => return Err(format!("{what}: close() reports a clean close although the transport ended before the peer's close arrived")),
                    Err(_) => return Err(format!("{what}: close() did not return after EOF")),
                }
                return Ok(info);
            }
        }
    }
    let _ = sessions;
    Ok(info)
}

fn dummy_peer() -> Peer {
    let (a, _b, _c) = simnet::pipe(PipeCfg::default());
    Peer::new(a, vec![])
}

/// begin a session on a client handle (no-op for the listener handle type)
async fn begin_client<R: Send + 'static>(conn: &mut ConnectionHandle<R>, peer: &mut Peer, ch: u16) -> Result<Option<fe2o3_amqp::session::SessionHandle<()>>, String> {
    let any: &mut dyn std::any::Any = conn;
    if let Some(c) = any.downcast_mut::<ConnectionHandle<()>>() {
        let (s, p) = tokio::join!(Session::begin(c), peer.accept_begin(ch, 0, 100, 100));
        p?;
        return Ok(Some(s.map_err(|e| format!("begin failed: {e:?}"))?));
    }
    Ok(None)
}

/// a frame before the peer's open is illegal in that state: it is not acted on and the connection fails with an error
async fn run_pre_open(c: &Case, kind: u8) -> Result<Info, String> {
    let (a, b, _ctl) = simnet::pipe(c.pipe.clone());
    let mut peer = Peer::new(b, c.choices.clone());
    let role = c.role;
    enum H {
        C(ConnectionHandle<()>),
        L(fe2o3_amqp::acceptor::ListenerConnectionHandle),
    }
    let mut task = tokio::spawn(async move {
        if role == 0 {
            Connection::builder().container_id("verif-client").open_with_stream(a).await.map(H::C).map_err(|e| format!("{e:?}"))
        } else {
            ConnectionAcceptor::new("verif-listener").accept(a).await.map(H::L).map_err(|e| format!("{e:?}"))
        }
    });
    if role == 0 {
        peer.expect_header().await?;
    }
    peer.send_header(rframe::AMQP_HEADER).await?;
    let body = match kind % 6 {
        0 => Some(Peer::begin_body(None, 0, 100, 100, None)),
        1 => Some(Peer::flow_body(Some(0), 100, 0, 100, None, None, None, false, true)),
        2 => None,
        3 => Some(Peer::close_body(None)),
        4 => Some(Peer::end_body(None)),
        _ => Some(Peer::attach_body("early", 0, false, None, None, Some(0), None, false)),
    };
    match &body {
        Some(b) => peer.send_frame(0, b, &[]).await?,
        None => peer.send_empty_frame().await?,
    }
    peer.send_frame(0, &Peer::open_body("verif-peer", None, None, None), &[]).await?;
    peer.settle().await;
    // answer a close, then look at what happened
    let mut wrote: Vec<String> = Vec::new();
    let mut close_err: Option<bool> = None;
    for (_, it) in peer.items.clone() {
        if let Item::Frame(f) = it {
            wrote.push(f.name().to_string());
            if f.name() == "close" {
                close_err = Some(matches!(f.field(0), RValue::Described(..)));
            }
        }
    }
    if close_err.is_some() {
        let _ = peer.send_frame(0, &Peer::close_body(None), &[]).await;
    }
    if let Some(bad) = wrote.iter().find(|n| !matches!(n.as_str(), "open" | "close" | "empty")) {
        return Err(format!("pre-open frame kind {kind}: the endpoint acted on a frame that arrived before the peer's open: it wrote a {bad} frame (all: {wrote:?})"));
    }
    let res = match tokio::time::timeout(std::time::Duration::from_secs(60), &mut task).await {
        Ok(Ok(r)) => r,
        Ok(Err(e)) => return Err(format!("pre-open frame kind {kind}: the task inside open/accept panicked: {e}")),
        Err(_) => {
            // a connection attempt that is still pending must end once the peer hangs up
            drop(peer);
            match tokio::time::timeout(std::time::Duration::from_secs(600), &mut task).await {
                Ok(Ok(Err(_))) => return Ok(Info { peer_close: false, illegal: true, close_err: false }),
                Ok(Ok(Ok(_))) => return Err(format!("pre-open frame kind {kind}: open/accept succeeded after the peer hung up")),
                _ => return Err(format!("pre-open frame kind {kind}: open/accept never returned, even after the peer closed the transport")),
            }
        }
    };
    match res {
        Err(_) => {}
        Ok(h) => {
            // the connection was opened all the same: then the illegal frame must have closed it with an error
            let pa = async {
                loop {
                    match peer.next_frame().await {
                        Some(f) if f.name() == "close" => {
                            let _ = peer.send_frame(0, &Peer::close_body(None), &[]).await;
                        }
                        Some(_) => {}
                        None => tokio::time::sleep(std::time::Duration::from_millis(5)).await,
                    }
                }
            };
            let cl = async {
                match h {
                    H::C(mut c) => c.close().await.map_err(|e| format!("{e:?}")),
                    H::L(mut c) => c.close().await.map_err(|e| format!("{e:?}")),
                }
            };
            let r = tokio::select! {
                r = tokio::time::timeout(std::time::Duration::from_secs(60), cl) => r,
                _ = pa => unreachable!(),
            };
            match r {
                Err(_) => return Err(format!("pre-open frame kind {kind}: close() did not return")),
                Ok(Ok(())) => return Err(format!("pre-open frame kind {kind}: a frame before the peer's open was tolerated: the connection opened and closed cleanly (endpoint wrote {wrote:?})")),
                Ok(Err(_)) => {}
            }
        }
    }
    // (whether the close frame itself carries a condition is not judged here: the failure is reported to the
    // application by open/accept or by close())
    let _ = close_err;
    Ok(Info { peer_close: false, illegal: true, close_err: false })
}

pub async fn run_async(c: &Case) -> Result<Info, String> {
    if let Some(k) = c.pre_open {
        return run_pre_open(c, k).await;
    }
    let (a, b, _ctl) = simnet::pipe(c.pipe.clone());
    let mut peer = Peer::new(b, c.choices.clone());
    if c.role == 0 {
        let open_fut = Connection::builder().container_id("verif-client").open_with_stream(a);
        let hd = c.header_delay;
        let od = c.open_delay;
        let po = async {
            let h = peer.expect_header().await?;
            if h != [0, 1, 0, 0] {
                return Err(format!("client sent protocol header {:?}", h));
            }
            tokio::time::sleep(std::time::Duration::from_millis(hd as u64)).await;
            peer.send_header(rframe::AMQP_HEADER).await?;
            let _open = peer.expect_frame("open").await?;
            tokio::time::sleep(std::time::Duration::from_millis(od as u64)).await;
            peer.send_frame(0, &Peer::open_body("verif-peer", None, None, c.peer_idle), &[]).await?;
            Ok::<(), String>(())
        };
        let (conn, po) = tokio::join!(open_fut, po);
        po?;
        let conn = conn.map_err(|e| format!("client open failed: {e:?}"))?;
        drive(conn, peer, c, true).await
    } else {
        let acc = ConnectionAcceptor::new("verif-listener");
        let hd = c.header_delay;
        let od = c.open_delay;
        let po = async {
            tokio::time::sleep(std::time::Duration::from_millis(hd as u64)).await;
            peer.send_header(rframe::AMQP_HEADER).await?;
            tokio::time::sleep(std::time::Duration::from_millis(od as u64)).await;
            peer.send_frame(0, &Peer::open_body("verif-peer", None, None, c.peer_idle), &[]).await?;
            let h = peer.expect_header().await?;
            if h != [0, 1, 0, 0] {
                return Err(format!("listener sent protocol header {:?}", h));
            }
            peer.expect_frame("open").await?;
            Ok::<(), String>(())
        };
        let (conn, po) = tokio::join!(acc.accept(a), po);
        po?;
        let conn = conn.map_err(|e| format!("listener accept failed: {e:?}"))?;
        drive(conn, peer, c, false).await
    }
}

pub fn run_case(c: &Case) -> Result<Info, String> {
    match simnet::run_case(c.tokio_seed, run_async(c)).0 {
        CaseEnd::Done(r) => r,
        CaseEnd::Hang => Err(format!("HANG (virtual-time watchdog); wire so far:{}", simnet::describe_last_wire())),
    }
}

fn case(_ctx: &ShardCtx, c: &Case, obs: &mut Obs) -> Result<(), String> {
    match guarded(|| run_case(c)) {
        Ok(Ok(info)) => {
            obs.class(if c.role == 0 { "endpoint=client" } else { "endpoint=listener" });
            for (b, n) in [(info.peer_close, "peer-initiated-close"), (info.illegal, "illegal-frame"), (info.close_err, "close-with-error")] {
                if b {
                    obs.class(n);
                }
            }
            if info.peer_close || info.illegal || info.close_err {
                obs.nontrivial(c);
            }
            Ok(())
        }
        Ok(Err(e)) => {
            obs.signature = Some(if e.contains("illegal") { "illegal-frame".into() } else { "connection-lifecycle".into() });
            Err(e)
        }
        Err(p) => {
            obs.signature = Some(panic_signature(&p[0]));
            Err(format!("panic: {}", p.join(" | ")))
        }
    }
}

fn run(ctx: &ShardCtx, rep: &mut Report) {
    MAX_SHRINK_ITERS.store(400, std::sync::atomic::Ordering::Relaxed);
    // positive control: a clean open/close must produce the reference trace in both roles
    for role in 0..2u8 {
        let c = Case { role, header_delay: 0, open_delay: 0, script: vec![Ev::LocalClose { peer_err: false }], tokio_seed: 0, choices: vec![], pipe: PipeCfg { cap: 1 << 22, ..PipeCfg::default() }, peer_idle: None, close_answer_delay: 0, peer_ch0: 0, pre_open: None, crossing_frames: 0, busy_at_peer_close: false };
        if let Err(e) = run_case(&c) {
            rep.violations.push(Violation { variant: "lifecycle".into(), signature: "positive-control".into(), detail: format!("positive control (clean open/close, role {role}) failed: {e}"), case: serde_json::to_value(&c).unwrap() });
            return;
        }
    }
    pt_run(ctx, rep, "lifecycle", ctx.budget(300_000, 8_000_000), case_strategy(), |c, o| case(ctx, c, o));
}

fn replay(_variant: &str, case_json: &Json) -> Result<(), String> {
    let c: Case = serde_json::from_value(case_json.clone()).map_err(|e| format!("bad case: {e}"))?;
    run_case(&c).map(|_| ())
}
