//! C19 — SASL: no connection without successful authentication; SCRAM is mutual.
//!
//! Variant "listener": scripted (adversarial) clients against a real listener configured with PLAIN or
//! SCRAM-SHA-1/256/512. Variant "client": scripted (adversarial) servers against the real client.
use crate::driver::{guarded, panic_signature, pt_run, Obs, PropMeta, Report, ShardCtx, MAX_SHRINK_ITERS};
use crate::peer::Peer;
use crate::refcodec::RValue;
use crate::refscram::{self, Ver};
use crate::rframe::{self, Item, RFrame};
use crate::simnet::{self, CaseEnd, PipeCfg};
use fe2o3_amqp::acceptor::scram::SingleScramCredential;
use fe2o3_amqp::acceptor::{ConnectionAcceptor, SaslPlainMechanism};
use fe2o3_amqp::auth::scram::{ScramAuthenticator, ScramVersion};
use fe2o3_amqp::sasl_profile::{SaslProfile, SaslScramSha1, SaslScramSha256, SaslScramSha512};
use fe2o3_amqp::Connection;
use proptest::collection::vec;
use proptest::prelude::*;
use serde::{Deserialize, Serialize};
use serde_json::Value as Json;
use std::cell::RefCell;
use std::collections::HashMap;
use std::sync::Arc;
use std::time::Duration;

pub fn meta() -> PropMeta {
    PropMeta {
        id: "C19",
        level: "exploration",
        rule: "(listener) a real ConnectionAcceptor configured with PLAIN or SCRAM-SHA-1/256/512 (one acceptor object per mechanism, reused across cases as a server reuses it across connections) faces a scripted client executing a generated sequence of up to 7 steps from: protocol header (SASL, AMQP, TLS, garbage), sasl-init with a generated mechanism name (configured, other mechanisms, case variants, empty) and credentials (user and password each exact / prefix / extended / one byte changed / embedded NUL / empty / unknown; authzid present or not; extra NUL-separated field), sasl-response (valid proof for the actual exchange, proof for a wrong password, bit-flipped proof, wrong nonce, garbage, empty, a recorded response from an earlier successful exchange), server-direction SASL frames, an AMQP open during SASL, AMQP header + open, EOF; optionally after a complete valid exchange on a first connection whose client bytes are replayed on the second. A model decides whether the script is exactly one valid authentication (SASL header, init with the configured mechanism and exact credentials, for SCRAM the valid response to the listener's own challenge, then AMQP header + open). Oracle: accept() returns Ok iff the model says authenticated; otherwise accept() fails (and completes once the client goes away), the listener never writes an OK outcome, an AMQP protocol header or an AMQP frame; two server-first messages for the same client-first differ (fresh server nonce). (client) the real client with SaslProfile Plain / ScramSha1/256/512 faces a scripted server with generated behaviour: header kind, mechanism list, per client frame a reply from {challenge with nonce extending / not extending / equal to the client's, salt and iteration count, outcome with code 0..4 and additional-data = signature computed over the actual exchange with the sent salt/iterations and the right password / wrong password / other salt / other iteration count / other nonce, bit-flipped, truncated to a proper prefix (incl. empty), missing, garbage; extra challenge}. Oracle: open_with_stream() returns Ok iff the server's behaviour is a valid exchange (SASL header, mechanism offered, for SCRAM: nonce strictly extends the client's, signature valid for what was actually sent, outcome OK carrying it; for PLAIN: outcome OK), and fails otherwise. Non-trivial: the script got as far as a sasl-init (listener) / a reply to the client's init (client) — distinct by hash of the case.",
        assumptions: &["iteration counts sent to the client are kept <= 20000 (a huge count only costs time)", "user names without ',' and '=' (no SCRAM escaping)"],
        nontrivial_floor: 0.4,
        run,
        replay,
        crashy: true,
    }
}

const USER: &str = "alice";
const PASS: &str = "correct horse";

// ---------------------------------------------------------------------------
// listener variant

#[derive(Clone, Debug, Serialize, Deserialize, Hash, PartialEq, Eq)]
pub enum Field {
    Exact,
    Prefix,
    Extended,
    OneByte(u8),
    WithNul,
    Empty,
    Other,
}

#[derive(Clone, Debug, Serialize, Deserialize, Hash, PartialEq, Eq)]
pub enum Mech {
    Configured,
    Plain,
    Sha1,
    Sha256,
    Sha512,
    Anonymous,
    External,
    Lower,
    EmptyName,
}

#[derive(Clone, Debug, Serialize, Deserialize, Hash, PartialEq, Eq)]
pub enum Resp {
    Valid,
    WrongPassword,
    FlipProof(u8),
    WrongNonce,
    NoProof,
    Garbage(Vec<u8>),
    Empty,
    Recorded,
}

#[derive(Clone, Debug, Serialize, Deserialize, Hash, PartialEq, Eq)]
pub enum StepA {
    /// 0 SASL, 1 AMQP, 2 TLS, 3 garbage
    Header(u8),
    Init { mech: Mech, user: Field, pass: Field, authzid: bool, extra_field: bool, no_response: bool },
    Response(Resp),
    /// server-direction frames sent by the client: 0 mechanisms, 1 challenge, 2 outcome(ok)
    WrongDirection(u8),
    AmqpOpenFrame,
    AmqpHeaderAndOpen,
    Eof,
}

#[derive(Clone, Debug, Serialize, Deserialize, Hash)]
pub struct CaseA {
    /// 0 PLAIN, 1 SCRAM-SHA-1, 2 SCRAM-SHA-256, 3 SCRAM-SHA-512
    pub mech: u8,
    pub steps: Vec<StepA>,
    /// first run a complete valid exchange on another connection to the same acceptor and record it
    pub prior_valid_exchange: bool,
    pub tokio_seed: u64,
}

fn field() -> BoxedStrategy<Field> {
    prop_oneof![14 => Just(Field::Exact), 1 => Just(Field::Prefix), 1 => Just(Field::Extended), 1 => any::<u8>().prop_map(Field::OneByte), 1 => Just(Field::WithNul), 1 => Just(Field::Empty), 1 => Just(Field::Other)].boxed()
}

pub fn case_a_strategy() -> BoxedStrategy<CaseA> {
    let mech = prop_oneof![20 => Just(Mech::Configured), 1 => Just(Mech::Plain), 1 => Just(Mech::Sha1), 1 => Just(Mech::Sha256), 1 => Just(Mech::Sha512), 1 => Just(Mech::Anonymous), 1 => Just(Mech::External), 1 => Just(Mech::Lower), 1 => Just(Mech::EmptyName)];
    let resp = prop_oneof![10 => Just(Resp::Valid), 1 => Just(Resp::WrongPassword), 1 => any::<u8>().prop_map(Resp::FlipProof), 1 => Just(Resp::WrongNonce), 1 => Just(Resp::NoProof), 1 => vec(any::<u8>(), 0..40).prop_map(Resp::Garbage), 1 => Just(Resp::Empty), 1 => Just(Resp::Recorded)];
    let init = (mech, field(), field(), prop::bool::weighted(0.2), prop::bool::weighted(0.1), prop::bool::weighted(0.05)).prop_map(|(mech, user, pass, authzid, extra_field, no_response)| StepA::Init { mech, user, pass, authzid, extra_field, no_response });
    let step = prop_oneof![
        1 => prop_oneof![8 => Just(0u8), 2 => Just(1u8), 1 => Just(2u8), 1 => Just(3u8)].prop_map(StepA::Header),
        2 => init.clone(),
        2 => resp.clone().prop_map(StepA::Response),
        1 => (0u8..3).prop_map(StepA::WrongDirection),
        1 => Just(StepA::AmqpOpenFrame),
        2 => Just(StepA::AmqpHeaderAndOpen),
        1 => Just(StepA::Eof),
    ];
    // half of the cases start from the valid skeleton with a few positions replaced
    let skeleton = (0u8..4, init, resp, vec((0usize..4, step.clone()), 0..2)).prop_map(|(mech, init, resp, muts)| {
        let mut steps = vec![StepA::Header(0), init];
        if mech != 0 {
            steps.push(StepA::Response(resp));
        }
        steps.push(StepA::AmqpHeaderAndOpen);
        for (i, s) in muts {
            let k = i.min(steps.len() - 1);
            steps[k] = s;
        }
        (mech, steps)
    });
    let free = (0u8..4, vec(step, 1..7));
    (prop_oneof![3 => skeleton, 2 => free], prop::bool::weighted(0.2), any::<u64>()).prop_map(|((mech, steps), prior_valid_exchange, tokio_seed)| CaseA { mech, steps, prior_valid_exchange, tokio_seed }).boxed()
}

fn ver_of(mech: u8) -> Option<Ver> {
    match mech {
        1 => Some(Ver::Sha1),
        2 => Some(Ver::Sha256),
        3 => Some(Ver::Sha512),
        _ => None,
    }
}

fn mech_name(m: &Mech, configured: u8) -> String {
    let cfg = match configured {
        0 => "PLAIN",
        1 => "SCRAM-SHA-1",
        2 => "SCRAM-SHA-256",
        _ => "SCRAM-SHA-512",
    };
    match m {
        Mech::Configured => cfg.to_string(),
        Mech::Plain => "PLAIN".into(),
        Mech::Sha1 => "SCRAM-SHA-1".into(),
        Mech::Sha256 => "SCRAM-SHA-256".into(),
        Mech::Sha512 => "SCRAM-SHA-512".into(),
        Mech::Anonymous => "ANONYMOUS".into(),
        Mech::External => "EXTERNAL".into(),
        Mech::Lower => cfg.to_lowercase(),
        Mech::EmptyName => String::new(),
    }
}

fn apply(f: &Field, exact: &str) -> Vec<u8> {
    let e = exact.as_bytes();
    match f {
        Field::Exact => e.to_vec(),
        Field::Prefix => e[..e.len() - 1].to_vec(),
        Field::Extended => {
            let mut v = e.to_vec();
            v.push(b'x');
            v
        }
        Field::OneByte(k) => {
            let mut v = e.to_vec();
            let i = (*k as usize) % v.len();
            v[i] ^= 0x01;
            v
        }
        Field::WithNul => {
            let mut v = e.to_vec();
            v.push(0);
            v.extend_from_slice(b"tail");
            v
        }
        Field::Empty => vec![],
        Field::Other => b"mallory".to_vec(),
    }
}

thread_local! {
    static SALTED: RefCell<HashMap<(u8, String, Vec<u8>, u32), ()>> = RefCell::new(HashMap::new());
    static ACCEPTORS: RefCell<Option<Arc<Acceptors>>> = const { RefCell::new(None) };
}

struct Acceptors {
    plain: ConnectionAcceptor<(), SaslPlainMechanism>,
    s1: ConnectionAcceptor<(), ScramAuthenticator<Arc<SingleScramCredential>>>,
    s256: ConnectionAcceptor<(), ScramAuthenticator<Arc<SingleScramCredential>>>,
    s512: ConnectionAcceptor<(), ScramAuthenticator<Arc<SingleScramCredential>>>,
}

fn acceptors() -> Arc<Acceptors> {
    ACCEPTORS.with(|a| {
        let mut a = a.borrow_mut();
        if a.is_none() {
            let mk = |v: ScramVersion| {
                let cred = SingleScramCredential::new(USER, PASS, v).expect("credential");
                ConnectionAcceptor::builder().container_id("verif-sasl-listener").sasl_acceptor(ScramAuthenticator::new(Arc::new(cred))).build()
            };
            *a = Some(Arc::new(Acceptors {
                plain: ConnectionAcceptor::builder().container_id("verif-sasl-listener").sasl_acceptor(SaslPlainMechanism::new(USER, PASS)).build(),
                s1: mk(ScramVersion::Sha1),
                s256: mk(ScramVersion::Sha256),
                s512: mk(ScramVersion::Sha512),
            }));
        }
        a.as_ref().unwrap().clone()
    })
}

fn sasl_init(mech: &str, resp: Option<&[u8]>) -> RValue {
    rframe::perf(&crate::spec::SASL_INIT, vec![RValue::sym(mech), resp.map(|r| RValue::Binary(r.to_vec())).unwrap_or(RValue::Null)])
}

#[derive(Default, Debug, Clone)]
struct Exchange {
    client_first_bare: Option<String>,
    server_first: Option<String>,
    cnonce: String,
}

#[derive(Default, Debug)]
pub struct InfoA {
    pub reached_init: bool,
    pub authenticated: bool,
    pub replayed: bool,
    pub scram_response: bool,
}

/// outcome of one scripted connection
struct ConnResult {
    accept_ok: Option<bool>,
    /// frames and headers the listener wrote
    items: Vec<Item>,
    /// raw client bytes of the SASL phase (for replay)
    client_sasl_bytes: Vec<u8>,
    server_first: Option<String>,
}

async fn spawn_accept(mech: u8, io: simnet::Endpoint) -> tokio::task::JoinHandle<Result<(), String>> {
    let acc = acceptors();
    tokio::spawn(async move {
        let r = match mech {
            0 => acc.plain.accept(io).await.map(|c| drop(c)).map_err(|e| format!("{e:?}")),
            1 => acc.s1.accept(io).await.map(|c| drop(c)).map_err(|e| format!("{e:?}")),
            2 => acc.s256.accept(io).await.map(|c| drop(c)).map_err(|e| format!("{e:?}")),
            _ => acc.s512.accept(io).await.map(|c| drop(c)).map_err(|e| format!("{e:?}")),
        };
        r
    })
}

/// run one connection; `steps` are executed literally; returns what happened
async fn run_conn(mech: u8, steps: &[StepA], recorded_response: Option<&Vec<u8>>, fixed_cnonce: Option<&str>, info: &mut InfoA) -> Result<ConnResult, String> {
    let (a, b, ctl) = simnet::pipe(PipeCfg { cap: 1 << 22, ..PipeCfg::default() });
    let mut peer = Peer::new(b, vec![]);
    let mut task = spawn_accept(mech, a).await;
    let mut ex = Exchange::default();
    let ver = ver_of(mech);
    let mut eof = false;
    let mut sasl_bytes_end: Option<usize> = None;
    for st in steps {
        match st {
            StepA::Header(k) => {
                let h: [u8; 8] = match k {
                    0 => rframe::SASL_HEADER,
                    1 => rframe::AMQP_HEADER,
                    2 => rframe::TLS_HEADER,
                    _ => *b"HTTP/1.1",
                };
                let _ = peer.send_bytes(&h).await;
            }
            StepA::Init { mech: m, user, pass, authzid, extra_field, no_response } => {
                info.reached_init = true;
                let name = mech_name(m, mech);
                let u = apply(user, USER);
                let p = apply(pass, PASS);
                let resp: Vec<u8> = if name.to_uppercase().starts_with("SCRAM") {
                    // client-first
                    let cnonce = fixed_cnonce.map(|s| s.to_string()).unwrap_or_else(|| format!("verifnonce{}", refscram::b64(&ctl.written(0).to_be_bytes())));
                    let bare = format!("n={},r={}", String::from_utf8_lossy(&u), cnonce);
                    ex.cnonce = cnonce;
                    ex.client_first_bare = Some(bare.clone());
                    let gs2 = if *authzid { "n,a=admin," } else { "n,," };
                    format!("{gs2}{bare}").into_bytes()
                } else {
                    let mut v = Vec::new();
                    if *authzid {
                        v.extend_from_slice(b"admin");
                    }
                    v.push(0);
                    v.extend_from_slice(&u);
                    v.push(0);
                    v.extend_from_slice(&p);
                    if *extra_field {
                        v.push(0);
                        v.extend_from_slice(b"extra");
                    }
                    v
                };
                let _ = peer.send_sasl_frame(&sasl_init(&name, if *no_response { None } else { Some(&resp) })).await;
            }
            StepA::Response(r) => {
                // learn the listener's challenge, if any
                peer.settle().await;
                for (_, it) in peer.items.iter() {
                    if let Item::Frame(f) = it {
                        if f.name() == "sasl-challenge" {
                            if let RValue::Binary(b) = f.field(0) {
                                ex.server_first = Some(String::from_utf8_lossy(&b).to_string());
                            }
                        }
                    }
                }
                let v = ver.unwrap_or(Ver::Sha256);
                let bytes: Vec<u8> = match (r, &ex.server_first, &ex.client_first_bare) {
                    (Resp::Garbage(g), _, _) => g.clone(),
                    (Resp::Empty, _, _) => vec![],
                    (Resp::Recorded, _, _) => recorded_response.cloned().unwrap_or_else(|| b"c=biws,r=none,p=AAAA".to_vec()),
                    (_, Some(sf), Some(bare)) => {
                        info.scram_response = true;
                        match refscram::parse_server_first(sf) {
                            Some((nonce, salt, iters)) => {
                                let nonce_used = if matches!(r, Resp::WrongNonce) { format!("{}x", nonce) } else { nonce };
                                let cfwp = format!("c=biws,r={nonce_used}");
                                let auth = format!("{bare},{sf},{cfwp}");
                                let pw = if matches!(r, Resp::WrongPassword) { "wrong horse" } else { PASS };
                                let mut k = refscram::compute(v, pw, &salt, iters, &auth).proof;
                                if let Resp::FlipProof(b) = r {
                                    let i = (*b as usize) % k.len();
                                    k[i] ^= 1 << (b % 8);
                                }
                                if matches!(r, Resp::NoProof) {
                                    cfwp.into_bytes()
                                } else {
                                    format!("{cfwp},p={}", refscram::b64(&k)).into_bytes()
                                }
                            }
                            None => b"c=biws,r=unparsable,p=AAAA".to_vec(),
                        }
                    }
                    _ => b"c=biws,r=nochallenge,p=AAAA".to_vec(),
                };
                let _ = peer.send_sasl_frame(&rframe::perf(&crate::spec::SASL_RESPONSE, vec![RValue::Binary(bytes)])).await;
            }
            StepA::WrongDirection(k) => {
                let body = match k {
                    0 => rframe::perf(&crate::spec::SASL_MECHANISMS, vec![RValue::Array(vec![RValue::sym("PLAIN")])]),
                    1 => rframe::perf(&crate::spec::SASL_CHALLENGE, vec![RValue::Binary(b"r=x,s=AAAA,i=1".to_vec())]),
                    _ => rframe::perf(&crate::spec::SASL_OUTCOME, vec![RValue::Ubyte(0)]),
                };
                let _ = peer.send_sasl_frame(&body).await;
            }
            StepA::AmqpOpenFrame => {
                let _ = peer.send_frame(0, &Peer::open_body("intruder", None, None, None), &[]).await;
            }
            StepA::AmqpHeaderAndOpen => {
                if sasl_bytes_end.is_none() {
                    sasl_bytes_end = Some(ctl.written(1));
                }
                peer.settle().await;
                let _ = peer.send_bytes(&rframe::AMQP_HEADER).await;
                let _ = peer.send_frame(0, &Peer::open_body("verif-client", None, None, None), &[]).await;
            }
            StepA::Eof => {
                eof = true;
                break;
            }
        }
        peer.settle().await;
    }
    peer.settle().await;
    let _ = eof;
    // what the listener wrote
    let items: Vec<Item> = peer.items.iter().map(|(_, i)| i.clone()).collect();
    let client_bytes = ctl.bytes(1);
    let client_sasl_bytes = client_bytes[..sasl_bytes_end.unwrap_or(client_bytes.len()).min(client_bytes.len())].to_vec();
    // has accept() completed already?
    let mut accept_ok = match tokio::time::timeout(Duration::from_millis(5), &mut task).await {
        Ok(Ok(r)) => Some(r.is_ok()),
        Ok(Err(e)) => return Err(format!("the task inside accept() panicked: {e}")),
        Err(_) => None,
    };
    // the client goes away; accept() must complete now
    drop(peer);
    if accept_ok.is_none() {
        accept_ok = match tokio::time::timeout(Duration::from_secs(600), &mut task).await {
            Ok(Ok(r)) => Some(r.is_ok()),
            Ok(Err(e)) => return Err(format!("the task inside accept() panicked: {e}")),
            Err(_) => {
                task.abort();
                return Err("accept() did not complete within 600 s of virtual time after the client closed the transport".into());
            }
        };
    }
    Ok(ConnResult { accept_ok, items, client_sasl_bytes, server_first: ex.server_first })
}

/// does the script constitute exactly one valid authentication followed by the AMQP open?
fn model_authenticated(c0: &CaseA) -> bool {
    // an AMQP header followed by an open frame, as two steps, is the same as the composite step
    let mut c = c0.clone();
    let mut i = 0;
    while i + 1 < c.steps.len() {
        if c.steps[i] == StepA::Header(1) && c.steps[i + 1] == StepA::AmqpOpenFrame {
            c.steps[i] = StepA::AmqpHeaderAndOpen;
            c.steps.remove(i + 1);
        }
        i += 1;
    }
    let c = &c;
    let valid_init = |s: &StepA| matches!(s, StepA::Init { mech: m, user: Field::Exact, pass, authzid: _, extra_field, no_response: false } if mech_name(m, c.mech) == mech_name(&Mech::Configured, c.mech) && (c.mech != 0 || (*pass == Field::Exact && !*extra_field)));
    let mut want: Vec<&dyn Fn(&StepA) -> bool> = Vec::new();
    let is_hdr = |s: &StepA| matches!(s, StepA::Header(0));
    let is_resp = |s: &StepA| matches!(s, StepA::Response(Resp::Valid));
    let is_open = |s: &StepA| matches!(s, StepA::AmqpHeaderAndOpen);
    want.push(&is_hdr);
    want.push(&valid_init);
    if c.mech != 0 {
        want.push(&is_resp);
    }
    want.push(&is_open);
    if c.steps.len() < want.len() {
        return false;
    }
    for (i, w) in want.iter().enumerate() {
        if !w(&c.steps[i]) {
            return false;
        }
    }
    // SCRAM with an authzid in the gs2 header: the c= value of the response (biws = "n,,") then does
    // not match, so it is not a valid exchange
    if c.mech != 0 {
        if let StepA::Init { authzid: true, .. } = &c.steps[1] {
            return false;
        }
        if let StepA::Init { user, .. } = &c.steps[1] {
            if *user != Field::Exact {
                return false;
            }
        }
    }
    // whatever follows the open does not matter for authentication
    true
}

pub async fn run_a(c: &CaseA) -> Result<InfoA, String> {
    let mut info = InfoA::default();
    let mut recorded_response: Option<Vec<u8>> = None;
    let mut prior_server_first: Option<String> = None;
    if c.prior_valid_exchange {
        let mut valid = vec![StepA::Header(0), StepA::Init { mech: Mech::Configured, user: Field::Exact, pass: Field::Exact, authzid: false, extra_field: false, no_response: false }];
        if c.mech != 0 {
            valid.push(StepA::Response(Resp::Valid));
        }
        valid.push(StepA::AmqpHeaderAndOpen);
        let mut i2 = InfoA::default();
        let r = run_conn(c.mech, &valid, None, Some("fixedclientnonce"), &mut i2).await?;
        if r.accept_ok != Some(true) {
            return Err(format!("positive control: a client with the right credentials was not accepted (accept: {:?}; listener wrote {:?})", r.accept_ok, names(&r.items)));
        }
        // the recorded sasl-response of the legitimate client
        if let Ok((its, _)) = rframe::parse_stream(&r.client_sasl_bytes) {
            for it in its {
                if let Item::Frame(f) = it {
                    if f.name() == "sasl-response" {
                        if let RValue::Binary(b) = f.field(0) {
                            recorded_response = Some(b);
                        }
                    }
                }
            }
        }
        prior_server_first = r.server_first;
        info.replayed = true;
    }
    let fixed = if c.prior_valid_exchange { Some("fixedclientnonce") } else { None };
    let r = run_conn(c.mech, &c.steps, recorded_response.as_ref(), fixed, &mut info).await?;
    let expect = model_authenticated(c);
    info.authenticated = expect;
    let wrote = names(&r.items);
    if let (Some(a), Some(b)) = (&prior_server_first, &r.server_first) {
        if a == b {
            return Err(format!("two connections to the same acceptor got the identical server-first message for the same client-first ({a}): the server nonce is not fresh, a recorded exchange can be replayed"));
        }
    }
    // what the listener may write when not authenticated: SASL header, mechanisms, challenge, a non-OK outcome
    let mut ok_outcome = false;
    let mut amqp_seen = false;
    for it in &r.items {
        match it {
            Item::Header(h) => {
                if h[0] == 0 {
                    amqp_seen = true;
                }
            }
            Item::Frame(f) => {
                if f.ftype == 0 {
                    amqp_seen = true;
                }
                if f.name() == "sasl-outcome" && f.field(0) == RValue::Ubyte(0) {
                    ok_outcome = true;
                }
            }
        }
    }
    if expect {
        if r.accept_ok != Some(true) {
            return Err(format!("a client that completed the exchange with the right credentials was not accepted (accept: {:?}; listener wrote {wrote:?})", r.accept_ok));
        }
    } else {
        if r.accept_ok == Some(true) {
            return Err(format!("accept() returned a connection for a client that did not complete a valid authentication (listener wrote {wrote:?})"));
        }
        // an OK outcome is legitimate when the SASL part was valid and only the AMQP continuation was not
        let sasl_part_valid = {
            let mut c2 = c.clone();
            let n = if c.mech == 0 { 2 } else { 3 };
            c2.steps.truncate(n);
            c2.steps.push(StepA::AmqpHeaderAndOpen);
            model_authenticated(&c2)
        };
        if ok_outcome && !sasl_part_valid {
            return Err(format!("the listener answered sasl-outcome OK to a client that did not present valid credentials (listener wrote {wrote:?})"));
        }
        if amqp_seen && !sasl_part_valid {
            return Err(format!("the listener went on to the AMQP layer (header / frames) for a client that did not authenticate (listener wrote {wrote:?})"));
        }
    }
    Ok(info)
}

fn names(items: &[Item]) -> Vec<String> {
    items
        .iter()
        .map(|i| match i {
            Item::Header(h) => format!("HDR{}", h[0]),
            Item::Frame(f) => {
                if f.name() == "sasl-outcome" {
                    format!("sasl-outcome({:?})", f.field(0))
                } else {
                    f.name().to_string()
                }
            }
        })
        .collect()
}

// ---------------------------------------------------------------------------
// client variant

#[derive(Clone, Debug, Serialize, Deserialize, Hash, PartialEq, Eq)]
pub enum NonceKind {
    Extends,
    Same,
    Different,
    Truncated,
}

#[derive(Clone, Debug, Serialize, Deserialize, Hash, PartialEq, Eq)]
pub enum SigKind {
    Valid,
    WrongPassword,
    OtherSalt,
    OtherIterations,
    OtherNonce,
    Flipped(u8),
    Missing,
    Garbage(Vec<u8>),
    /// "e=..." server error attribute
    ErrorAttr,
    /// only the first k octets of the valid signature (k < its length, possibly 0), optionally followed
    /// by an extension attribute
    Truncated(u8, bool),
}

#[derive(Clone, Debug, Serialize, Deserialize, Hash, PartialEq, Eq)]
pub enum Reply {
    Challenge { nonce: NonceKind, iters: u32, salt_len: u8, garbage: bool },
    Outcome { code: u8, sig: SigKind },
    /// no reply to this client frame
    Nothing,
}

#[derive(Clone, Debug, Serialize, Deserialize, Hash)]
pub struct CaseB {
    /// 0 PLAIN, 1..3 SCRAM
    pub profile: u8,
    /// 0 SASL, 1 AMQP, 2 garbage
    pub header: u8,
    /// mechanisms offered: bit 0 PLAIN, 1 SHA-1, 2 SHA-256, 3 SHA-512, 4 ANONYMOUS
    pub offered: u8,
    /// reply to the n-th SASL frame of the client (init, response, ...)
    pub replies: Vec<Reply>,
    /// frames the server sends unasked right after the mechanisms
    pub unsolicited: Vec<Reply>,
    pub tokio_seed: u64,
}

pub fn case_b_strategy() -> BoxedStrategy<CaseB> {
    let sig = prop_oneof![6 => Just(SigKind::Valid), 1 => Just(SigKind::WrongPassword), 1 => Just(SigKind::OtherSalt), 1 => Just(SigKind::OtherIterations), 1 => Just(SigKind::OtherNonce), 1 => any::<u8>().prop_map(SigKind::Flipped), 1 => Just(SigKind::Missing), 1 => vec(any::<u8>(), 0..30).prop_map(SigKind::Garbage), 1 => Just(SigKind::ErrorAttr), 2 => (any::<u8>(), any::<bool>()).prop_map(|(k, e)| SigKind::Truncated(k, e))];
    let chal = (prop_oneof![6 => Just(NonceKind::Extends), 1 => Just(NonceKind::Same), 1 => Just(NonceKind::Different), 1 => Just(NonceKind::Truncated)], prop_oneof![4 => 1u32..64, 1 => Just(4096u32), 1 => Just(1u32), 1 => Just(20000u32)], prop_oneof![4 => 8u8..33, 1 => Just(0u8), 1 => Just(1u8)], prop::bool::weighted(0.05)).prop_map(|(nonce, iters, salt_len, garbage)| Reply::Challenge { nonce, iters, salt_len, garbage });
    let outcome = (prop_oneof![6 => Just(0u8), 1 => Just(1u8), 1 => Just(2u8), 1 => Just(3u8), 1 => Just(4u8)], sig).prop_map(|(code, sig)| Reply::Outcome { code, sig });
    let reply = prop_oneof![3 => chal.clone(), 4 => outcome.clone(), 1 => Just(Reply::Nothing)];
    let skeleton = (0u8..4, chal, outcome.clone(), prop::option::weighted(0.3, (0usize..2, reply.clone()))).prop_map(|(profile, chal, outcome, m)| {
        let mut replies = if profile == 0 { vec![outcome] } else { vec![chal, outcome] };
        if let Some((i, r)) = m {
            let k = i.min(replies.len() - 1);
            replies[k] = r;
        }
        (profile, replies)
    });
    let free = (0u8..4, vec(reply.clone(), 0..4));
    (prop_oneof![3 => skeleton, 2 => free], prop_oneof![10 => Just(0u8), 1 => Just(1u8), 1 => Just(2u8)], prop_oneof![8 => Just(0x1fu8), 2 => any::<u8>()], prop_oneof![9 => Just(vec![]), 1 => vec(reply, 1..2)], any::<u64>())
        .prop_map(|((profile, replies), header, offered, unsolicited, tokio_seed)| CaseB { profile, header, offered, replies, unsolicited, tokio_seed })
        .boxed()
}

#[derive(Default, Debug)]
pub struct InfoB {
    pub replied_to_init: bool,
    pub valid: bool,
    pub outcome_not_ok: bool,
}

pub async fn run_b(c: &CaseB) -> Result<InfoB, String> {
    let mut info = InfoB::default();
    let (a, b, _ctl) = simnet::pipe(PipeCfg { cap: 1 << 22, ..PipeCfg::default() });
    let mut peer = Peer::new(b, vec![]);
    let profile = match c.profile {
        0 => SaslProfile::Plain { username: USER.into(), password: PASS.into() },
        1 => SaslProfile::ScramSha1(SaslScramSha1::new(USER, PASS)),
        2 => SaslProfile::ScramSha256(SaslScramSha256::new(USER, PASS)),
        _ => SaslProfile::ScramSha512(SaslScramSha512::new(USER, PASS)),
    };
    let ver = ver_of(c.profile);
    let my_mech = mech_name(&Mech::Configured, c.profile);
    let mut task = tokio::spawn(async move { Connection::builder().container_id("verif-sasl-client").sasl_profile(profile).open_with_stream(a).await.map(|c| drop(c)).map_err(|e| format!("{e:?}")) });
    // ---- the server script
    let hdr = peer.expect_header().await;
    let client_hdr_ok = matches!(hdr, Ok([3, 1, 0, 0]));
    if !client_hdr_ok {
        return Err(format!("the client configured with a SASL profile did not start with the SASL protocol header: {hdr:?}"));
    }
    let _ = peer
        .send_bytes(&match c.header {
            0 => rframe::SASL_HEADER,
            1 => rframe::AMQP_HEADER,
            _ => *b"AMQPxxxx",
        })
        .await;
    let names_all = ["PLAIN", "SCRAM-SHA-1", "SCRAM-SHA-256", "SCRAM-SHA-512", "ANONYMOUS"];
    let offered: Vec<RValue> = names_all.iter().enumerate().filter(|(i, _)| c.offered & (1 << i) != 0).map(|(_, n)| RValue::sym(n)).collect();
    let offers_mine = names_all.iter().enumerate().any(|(i, n)| c.offered & (1 << i) != 0 && *n == my_mech);
    let _ = peer.send_sasl_frame(&rframe::perf(&crate::spec::SASL_MECHANISMS, vec![RValue::Array(offered.clone())])).await;
    // model of validity
    let mut valid = c.header == 0 && offers_mine && !offered.is_empty();
    let mut client_first_bare: Option<String> = None;
    let mut server_first_sent: Option<(String, Vec<u8>, u32, String)> = None; // (message, salt, iters, nonce)
    let mut cnonce = String::new();
    let mut client_final_wp: Option<String> = None;
    let mut outcome_ok_sent = false;
    let mut stage = 0; // 0 expect init, 1 expect response (scram), 2 done
    // PLAIN has no server proof: the first challenge/outcome the client sees decides
    let plain_decided: std::cell::Cell<Option<bool>> = std::cell::Cell::new(None);
    let send_reply = |peer: &mut Peer, r: &Reply, valid: &mut bool, stage: &mut i32, info: &mut InfoB, client_first_bare: &Option<String>, client_final_wp: &Option<String>, cnonce: &str, server_first_sent: &mut Option<(String, Vec<u8>, u32, String)>, outcome_ok_sent: &mut bool| -> Option<RValue> {
        let _ = peer;
        match r {
            Reply::Nothing => {
                *valid = false;
                None
            }
            Reply::Challenge { nonce, iters, salt_len, garbage } => {
                if plain_decided.get().is_none() {
                    plain_decided.set(Some(false));
                }
                let salt: Vec<u8> = (0..*salt_len).map(|i| i.wrapping_mul(7).wrapping_add(3)).collect();
                let n = match nonce {
                    NonceKind::Extends => format!("{cnonce}srvNONCE123"),
                    NonceKind::Same => cnonce.to_string(),
                    NonceKind::Different => "completelydifferentnonce".to_string(),
                    NonceKind::Truncated => cnonce[..cnonce.len().saturating_sub(1)].to_string(),
                };
                let msg = if *garbage { "this is not a server-first message".to_string() } else { format!("r={},s={},i={}", n, refscram::b64(&salt), iters) };
                // a challenge is valid only as the answer to the init of a SCRAM exchange, once
                let ok_here = *stage == 1 && server_first_sent.is_none() && ver.is_some() && matches!(nonce, NonceKind::Extends | NonceKind::Same) && !*garbage && *iters >= 1 && !cnonce.is_empty();
                if !ok_here {
                    *valid = false;
                }
                if server_first_sent.is_none() {
                    *server_first_sent = Some((msg.clone(), salt, *iters, n));
                }
                Some(rframe::perf(&crate::spec::SASL_CHALLENGE, vec![RValue::Binary(msg.into_bytes())]))
            }
            Reply::Outcome { code, sig } => {
                if plain_decided.get().is_none() {
                    plain_decided.set(Some(*code == 0));
                }
                if *code != 0 {
                    info.outcome_not_ok = true;
                    *valid = false;
                } else {
                    *outcome_ok_sent = true;
                }
                let add: Option<Vec<u8>> = match (ver, server_first_sent.as_ref(), client_first_bare, client_final_wp) {
                    (Some(v), Some((sf, salt, iters, _n)), Some(bare), Some(cfwp)) => {
                        let auth = format!("{bare},{sf},{cfwp}");
                        let good = |pw: &str, salt: &[u8], iters: u32, auth: &str| refscram::compute(v, pw, salt, iters.max(1), auth).server_signature;
                        match sig {
                            SigKind::Valid => Some(format!("v={}", refscram::b64(&good(PASS, salt, *iters, &auth))).into_bytes()),
                            SigKind::WrongPassword => Some(format!("v={}", refscram::b64(&good("wrong horse", salt, *iters, &auth))).into_bytes()),
                            SigKind::OtherSalt => Some(format!("v={}", refscram::b64(&good(PASS, b"some other salt", *iters, &auth))).into_bytes()),
                            SigKind::OtherIterations => Some(format!("v={}", refscram::b64(&good(PASS, salt, *iters + 1, &auth))).into_bytes()),
                            SigKind::OtherNonce => Some(format!("v={}", refscram::b64(&good(PASS, salt, *iters, &format!("{auth}x")))).into_bytes()),
                            SigKind::Flipped(b) => {
                                let mut s = good(PASS, salt, *iters, &auth);
                                let i = (*b as usize) % s.len();
                                s[i] ^= 1 << (b % 8);
                                Some(format!("v={}", refscram::b64(&s)).into_bytes())
                            }
                            SigKind::Missing => None,
                            SigKind::Garbage(g) => Some(g.clone()),
                            SigKind::ErrorAttr => Some(b"e=invalid-proof".to_vec()),
                            SigKind::Truncated(k, ext) => {
                                let s = good(PASS, salt, *iters, &auth);
                                let keep = (*k as usize * s.len()) >> 8; // 0..len-1
                                Some(format!("v={}{}", refscram::b64(&s[..keep]), if *ext { ",x=1" } else { "" }).into_bytes())
                            }
                        }
                    }
                    _ => match sig {
                        SigKind::Missing => None,
                        SigKind::Garbage(g) => Some(g.clone()),
                        _ => {
                            if ver.is_some() {
                                Some(b"v=AAAAAAAAAAAAAAAAAAAAAAAAAAA=".to_vec())
                            } else {
                                None
                            }
                        }
                    },
                };
                if ver.is_some() {
                    // valid only as the answer to the client's response, with the right signature
                    let right = matches!(sig, SigKind::Valid) && server_first_sent.is_some() && client_final_wp.is_some() && *stage == 2;
                    if !right {
                        *valid = false;
                    }
                } else if *stage != 1 {
                    // PLAIN: the outcome answers the init
                    *valid = false;
                }
                Some(rframe::perf(&crate::spec::SASL_OUTCOME, vec![RValue::Ubyte(*code), add.map(RValue::Binary).unwrap_or(RValue::Null)]))
            }
        }
    };
    for r in c.unsolicited.iter().filter(|r| !matches!(r, Reply::Nothing)) {
        valid = false;
        if let Some(f) = send_reply(&mut peer, r, &mut valid, &mut stage, &mut info, &client_first_bare, &client_final_wp, &cnonce, &mut server_first_sent, &mut outcome_ok_sent) {
            let _ = peer.send_sasl_frame(&f).await;
        }
    }
    let mut reply_i = 0;
    let mut amqp_header_from_client = false;
    // serve the client's frames
    loop {
        let it = match tokio::time::timeout(Duration::from_secs(5), peer.next_item()).await {
            Ok(Some(it)) => it,
            _ => break,
        };
        match it {
            Item::Header(h) => {
                if h[0] == 0 {
                    amqp_header_from_client = true;
                    // the client moved on to AMQP: complete the open exchange
                    let _ = peer.send_bytes(&rframe::AMQP_HEADER).await;
                }
            }
            Item::Frame(f) => match f.name() {
                "sasl-init" => {
                    stage = 1;
                    if let RValue::Binary(b) = f.field(1) {
                        let s = String::from_utf8_lossy(&b).to_string();
                        if let Some(bare) = s.strip_prefix("n,,") {
                            client_first_bare = Some(bare.to_string());
                            cnonce = bare.split(',').find_map(|p| p.strip_prefix("r=")).unwrap_or("").to_string();
                        }
                    }
                    match f.field(0) {
                        RValue::Sym(m) if m == my_mech => {}
                        other => return Err(format!("the client configured for {my_mech} sent sasl-init with mechanism {other:?}")),
                    }
                    if !offers_mine {
                        return Err(format!("the client sent sasl-init for {my_mech} although the server did not offer it"));
                    }
                    let r = c.replies.get(reply_i).cloned().unwrap_or(Reply::Nothing);
                    reply_i += 1;
                    info.replied_to_init = !matches!(r, Reply::Nothing);
                    if let Some(fr) = send_reply(&mut peer, &r, &mut valid, &mut stage, &mut info, &client_first_bare, &client_final_wp, &cnonce, &mut server_first_sent, &mut outcome_ok_sent) {
                        let _ = peer.send_sasl_frame(&fr).await;
                    }
                }
                "sasl-response" => {
                    stage = 2;
                    if let RValue::Binary(b) = f.field(0) {
                        let s = String::from_utf8_lossy(&b).to_string();
                        if let Some(p) = s.rfind(",p=") {
                            if client_final_wp.is_none() {
                                client_final_wp = Some(s[..p].to_string());
                            }
                        }
                    }
                    let r = c.replies.get(reply_i).cloned().unwrap_or(Reply::Nothing);
                    reply_i += 1;
                    if let Some(fr) = send_reply(&mut peer, &r, &mut valid, &mut stage, &mut info, &client_first_bare, &client_final_wp, &cnonce, &mut server_first_sent, &mut outcome_ok_sent) {
                        let _ = peer.send_sasl_frame(&fr).await;
                    }
                }
                "open" => {
                    let _ = peer.send_frame(0, &Peer::open_body("verif-sasl-server", None, None, None), &[]).await;
                }
                "close" => {
                    let _ = peer.send_frame(0, &Peer::close_body(None), &[]).await;
                }
                _ => {}
            },
        }
    }
    // a valid exchange ends with an OK outcome
    if !outcome_ok_sent {
        valid = false;
    }
    if c.profile != 0 && reply_i != 2 {
        valid = false;
    }
    if c.profile == 0 {
        valid = c.header == 0 && offers_mine && plain_decided.get() == Some(true);
    }
    info.valid = valid;
    drop(peer);
    let res = match tokio::time::timeout(Duration::from_secs(600), &mut task).await {
        Ok(Ok(r)) => r,
        Ok(Err(e)) => return Err(format!("the task inside open_with_stream() panicked: {e}")),
        Err(_) => {
            task.abort();
            return Err("open_with_stream() did not complete within 600 s of virtual time after the server closed the transport".into());
        }
    };
    let mut info = info;
    match (valid, &res) {
        (true, Ok(())) => Ok(info),
        (false, Err(_)) => {
            if amqp_header_from_client && !outcome_ok_sent {
                return Err("the client went on to the AMQP protocol header although the server never sent an OK outcome".into());
            }
            Ok(info)
        }
        (true, Err(e)) => {
            // only the canonical exchange (no unsolicited or surplus frames) has to succeed
            let canonical = c.unsolicited.iter().all(|r| matches!(r, Reply::Nothing)) && c.replies.len() == if c.profile == 0 { 1 } else { 2 } && reply_i == c.replies.len();
            if canonical {
                Err(format!("the server completed a valid {my_mech} exchange but open_with_stream() failed: {e}"))
            } else {
                info.valid = false;
                Ok(info)
            }
        }
        (false, Ok(())) => Err(format!("open_with_stream() succeeded although the server did not complete a valid {my_mech} exchange (replies {:?}, unsolicited {:?}, header {}, offered {:#x})", c.replies, c.unsolicited, c.header, c.offered)),
    }
}

// ---------------------------------------------------------------------------

fn run_sync<T>(seed: u64, fut: impl std::future::Future<Output = Result<T, String>>) -> Result<T, String> {
    match simnet::run_case(seed, fut).0 {
        CaseEnd::Done(r) => r,
        CaseEnd::Hang => Err(format!("HANG (virtual-time watchdog); wire so far:{}", simnet::describe_last_wire())),
    }
}

fn sig(e: &str) -> String {
    if e.starts_with("HANG") || e.contains("did not complete within") {
        "hang".into()
    } else if e.contains("accept() returned a connection") || e.contains("sasl-outcome OK") || e.contains("went on to the AMQP layer") {
        "unauthenticated-accepted".into()
    } else if e.contains("open_with_stream() succeeded") || e.contains("went on to the AMQP protocol header") {
        "client-accepted-invalid-server".into()
    } else if e.contains("not fresh") {
        "server-nonce-reuse".into()
    } else {
        "sasl".into()
    }
}

fn run(ctx: &ShardCtx, rep: &mut Report) {
    MAX_SHRINK_ITERS.store(400, std::sync::atomic::Ordering::Relaxed);
    pt_run(ctx, rep, "listener", ctx.budget(30_000, 1_500_000), case_a_strategy(), |c, obs| match guarded(|| run_sync(c.tokio_seed, run_a(c))) {
        Ok(Ok(info)) => {
            obs.class(["listener:PLAIN", "listener:SCRAM-SHA-1", "listener:SCRAM-SHA-256", "listener:SCRAM-SHA-512"][c.mech as usize % 4]);
            for (b, n) in [(info.authenticated, "listener:valid-authentication"), (info.replayed, "listener:after-a-recorded-exchange"), (info.scram_response, "listener:scram-response-computed"), (info.reached_init && !info.authenticated, "listener:invalid-attempt")] {
                if b {
                    obs.class(n);
                }
            }
            if info.reached_init {
                obs.nontrivial(c);
            }
            Ok(())
        }
        Ok(Err(e)) => {
            obs.signature = Some(format!("listener:{}", sig(&e)));
            Err(e)
        }
        Err(p) => {
            obs.signature = Some(panic_signature(&p[0]));
            Err(format!("panic: {}", p.join(" | ")))
        }
    });
    pt_run(ctx, rep, "client", ctx.budget(30_000, 1_500_000), case_b_strategy(), |c, obs| match guarded(|| run_sync(c.tokio_seed, run_b(c))) {
        Ok(Ok(info)) => {
            obs.class(["client:PLAIN", "client:SCRAM-SHA-1", "client:SCRAM-SHA-256", "client:SCRAM-SHA-512"][c.profile as usize % 4]);
            for (b, n) in [(info.valid, "client:valid-server"), (!info.valid && info.replied_to_init, "client:invalid-server"), (info.outcome_not_ok, "client:non-ok-outcome")] {
                if b {
                    obs.class(n);
                }
            }
            if info.replied_to_init {
                obs.nontrivial(c);
            }
            Ok(())
        }
        Ok(Err(e)) => {
            obs.signature = Some(format!("client:{}", sig(&e)));
            Err(e)
        }
        Err(p) => {
            obs.signature = Some(panic_signature(&p[0]));
            Err(format!("panic: {}", p.join(" | ")))
        }
    });
    let _ = SALTED.with(|s| s.borrow().len());
}

fn replay(variant: &str, case_json: &Json) -> Result<(), String> {
    let v = variant.strip_suffix("!raw").unwrap_or(variant);
    let r = if v == "listener" {
        let c: CaseA = serde_json::from_value(case_json.clone()).map_err(|e| format!("bad case: {e}"))?;
        guarded(|| run_sync(c.tokio_seed, run_a(&c)).map(|_| ()))
    } else {
        let c: CaseB = serde_json::from_value(case_json.clone()).map_err(|e| format!("bad case: {e}"))?;
        guarded(|| run_sync(c.tokio_seed, run_b(&c)).map(|_| ()))
    };
    match r {
        Ok(r) => r,
        Err(p) => Err(format!("panic: {}", p.join(" | "))),
    }
}

#[allow(dead_code)]
fn unused(_: &RFrame) {}
