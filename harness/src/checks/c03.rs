//! C03 — decode(encode(x)) == x
use crate::checks::codec_common::*;
use crate::conv;
use crate::driver::*;
use crate::gen;
use crate::refcodec::{hex, RValue};
use proptest::prelude::*;
use serde_amqp::Value;
use serde_json::{json, Value as Json};

pub fn meta() -> PropMeta {
    PropMeta {
        id: "C03",
        level: "exploration",
        rule: "proptest-generated AMQP values (recursive untyped values with boundary-biased primitives, homogeneous arrays of every element kind, maps with keys of every type, described values; typed protocol items with independent field presence). Oracle: from_slice(to_vec(x))==x, from_reader(to_vec(x))==x and to_vec(decoded)==to_vec(x). Non-trivial = value contains a compound or a length on the 254+ side of the 8/32-bit boundary (typed: >=1 optional field present and >=1 absent); distinct = distinct hash of the generated value.",
        assumptions: &[
            "Value/RValue structural conversion in harness/src/conv.rs is trusted",
            "equality is the types' own PartialEq plus byte equality of the re-encoding",
        ],
        nontrivial_floor: 0.3,
        run,
        replay,
        crashy: false,
    }
}

pub fn roundtrip_value(r: &RValue) -> Result<(), String> {
    let v = conv::to_value(r);
    let bytes = serde_amqp::to_vec(&v).map_err(|e| format!("to_vec failed: {e} for {v:?}"))?;
    let d: Value = serde_amqp::from_slice(&bytes).map_err(|e| format!("from_slice failed: {e}; bytes={}", hex(&bytes)))?;
    if d != v {
        return Err(format!("from_slice(to_vec(x)) != x: x={v:?} decoded={d:?} bytes={}", hex(&bytes)));
    }
    let d2: Value = serde_amqp::from_reader(&bytes[..]).map_err(|e| format!("from_reader failed: {e}; bytes={}", hex(&bytes)))?;
    if d2 != v {
        return Err(format!("from_reader(to_vec(x)) != x: x={v:?} decoded={d2:?}"));
    }
    let b2 = serde_amqp::to_vec(&d).map_err(|e| format!("re-encode failed: {e}"))?;
    if b2 != bytes {
        return Err(format!("re-encoding differs: {} vs {}", hex(&bytes), hex(&b2)));
    }
    Ok(())
}

fn untyped_case(ctx: &ShardCtx, r: &RValue, obs: &mut Obs) -> Result<(), String> {
    let r = &carve_known(r, &ctx.open_findings, &mut obs.excluded);
    obs.class(class_of(r));
    if nontrivial_value(r) {
        obs.nontrivial(r);
    }
    match guarded(|| roundtrip_value(r)) {
        Ok(r) => r,
        Err(p) => {
            obs.signature = Some(panic_signature(&p[0]));
            Err(format!("panic: {}", p.join(" | ")))
        }
    }
}

fn run(ctx: &ShardCtx, rep: &mut Report) {
    gen::UNICODE_SYMBOLS.store(true, std::sync::atomic::Ordering::Relaxed);
    let n = ctx.budget(160_000, 8_000_000);
    pt_run(ctx, rep, "untyped", n, gen::rvalue(gen::GenCfg::default()), |r, o| untyped_case(ctx, r, o));
    let n = ctx.budget(16_000, 400_000);
    pt_run(ctx, rep, "untyped-big", n, gen::rvalue(gen::GenCfg { big: true, depth: 3, breadth: 4, size: 24 }), |r, o| untyped_case(ctx, r, o));
    let n = ctx.budget(8_000, 200_000);
    pt_run(ctx, rep, "untyped-wide", n, gen::wide_compound(), |r, o| untyped_case(ctx, r, o));
    crate::checks::typed::run_c03(ctx, rep);
}

fn replay(variant: &str, case: &Json) -> Result<(), String> {
    let (variant, raw) = match variant.strip_suffix("!raw") {
        Some(v) => (v, true),
        None => (variant, false),
    };
    match variant {
        "untyped" | "untyped-big" | "untyped-wide" => {
            let r: RValue = serde_json::from_value(case.clone()).map_err(|e| format!("bad case: {e}"))?;
            let r = if raw { r } else { carve_known(&r, &open_ids_for("C03"), &mut vec![]) };
            roundtrip_value(&r)
        }
        v => {
            let full = if raw { format!("{v}!raw") } else { v.to_string() };
            crate::checks::typed::replay_c03(&full, case)
        }
    }
}

#[allow(dead_code)]
fn _unused() -> Json {
    json!(null)
}
