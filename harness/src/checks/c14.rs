//! C14 — failures propagate: no call hangs and every handle learns why it stopped
use crate::driver::*;
use crate::duo::{self, DuoCfg};
use crate::peer::{self, ClientRig, Peer, RigCfg};
use crate::refcodec::RValue;
use crate::rframe;
use crate::simnet::{self, CaseEnd, Fault, FaultKind, PipeCfg};
use fe2o3_amqp::acceptor::{LinkAcceptor, LinkEndpoint, SessionAcceptor};
use fe2o3_amqp::link::delivery::Sendable;
use fe2o3_amqp::types::messaging::{AmqpValue, Body};
use fe2o3_amqp::types::primitives::Value;
use fe2o3_amqp::{Receiver, Sender, Session};
use proptest::prelude::*;
use serde::{Deserialize, Serialize};
use serde_json::Value as Json;
use std::time::Duration;

pub fn meta() -> PropMeta {
    PropMeta {
        id: "C14",
        level: "fault_enumeration",
        rule: "fault enumeration over reference conversations between a real client and a real listener (1 session, a sender and a receiver link in each direction, sends awaiting outcomes, unresolved batchable sends, a pending recv, then detach/end/close): (a) the transport is cut at byte offset N of either direction with EOF, reset, or stall-then-EOF — quick: every frame boundary -1/0/+1 and the protocol-header bytes of a generated conversation plus sampled offsets; thorough: every offset; (b) a scripted peer injects close / end / detach, with and without an error condition, after every frame of the conversation. After the fault every handle gets follow-up operations (begin, attach, send, recv, detach, end, close). Oracle: every pending and new operation completes under the virtual-time watchdog (a wedge is reported exactly, never by wall clock); nothing panics; data-path operations issued after the fault fail; teardown calls return; link/session errors name the level that stopped (Debug contains SessionStopped / ConnectionStopped / Remote* as appropriate) and carry the peer's condition when one was sent; on_close() reports an error for a cut; after all handles are dropped no engine task is alive and both halves of the transport are released. Non-trivial: the fault fired strictly inside the conversation with at least one operation pending; distinct by (conversation, direction, offset, kind).",
        assumptions: &["exact error variants are not asserted, only level and carried condition", "pipe capacity is kept above the traffic volume (KF-engine-backpressure-deadlock)"],
        nontrivial_floor: 0.3,
        run,
        replay,
        crashy: true,
    }
}

#[derive(Clone, Debug, Serialize, Deserialize, Hash)]
pub struct Conv {
    pub msgs: u8,
    pub big: bool,
    pub rcv_second: bool,
    pub tokio_seed: u64,
    pub mfs: u32,
    /// links are torn down with detach() (non-closing) instead of close()
    #[serde(default)]
    pub detach: bool,
    /// the listener's message spans several frames (the client's recv is pending inside a delivery)
    #[serde(default)]
    pub listener_big: bool,
    /// the client's receiver accepts automatically (recv sends the disposition itself)
    #[serde(default)]
    pub auto_accept: bool,
}

#[derive(Clone, Debug, Serialize, Deserialize, Hash)]
pub struct Case {
    pub conv: Conv,
    pub fault: Option<Fault>,
}

#[derive(Default, Debug, Clone)]
pub struct Outcome {
    /// operations that were issued, with their results rendered
    pub log: Vec<String>,
    pub errors: Vec<String>,
}

fn body(n: usize) -> AmqpValue<Value> {
    AmqpValue(Value::Binary(serde_bytes::ByteBuf::from(vec![7u8; n])))
}

macro_rules! op {
    ($out:expr, $ctl:expr, $name:expr, $datapath:expr, $fut:expr) => {{
        let fired_before = $ctl.fault_fired();
        match tokio::time::timeout(Duration::from_secs(900), $fut).await {
            Err(_) => {
                $out.errors.push(format!("HANG: {} did not complete within 900 virtual seconds (fault fired before the call: {})", $name, fired_before));
                None
            }
            Ok(r) => {
                let ok = r.is_ok();
                let dbg = match &r {
                    Ok(_) => "Ok".to_string(),
                    Err(e) => format!("Err({:?})", e),
                };
                $out.log.push(format!("{}={}", $name, dbg));
                if fired_before && $datapath && ok {
                    $out.errors.push(format!("{} succeeded although the transport had already failed before the call", $name));
                }
                Some(r)
            }
        }
    }};
}

async fn client_side(cfg: DuoCfg, io: simnet::Endpoint, ctl: simnet::PipeCtl, conv: Conv) -> Outcome {
    let mut out = Outcome::default();
    let conn = op!(out, ctl, "client.open", true, duo::open_client(&cfg, io));
    let mut conn = match conn {
        Some(Ok(c)) => c,
        _ => return out,
    };
    let sess = op!(out, ctl, "client.begin", true, Session::begin(&mut conn));
    let mut sess_opt = match sess {
        Some(Ok(s)) => Some(s),
        _ => None,
    };
    let mut sender: Option<Sender> = None;
    let mut receiver: Option<Receiver> = None;
    if let Some(s) = sess_opt.as_mut() {
        let rsm = if conv.rcv_second { fe2o3_amqp::types::definitions::ReceiverSettleMode::Second } else { fe2o3_amqp::types::definitions::ReceiverSettleMode::First };
        if let Some(Ok(x)) = op!(out, ctl, "client.attach_sender", true, Sender::builder().name("c2l").target("q").receiver_settle_mode(rsm).attach(s)) {
            sender = Some(x);
        }
        if let Some(Ok(x)) = op!(out, ctl, "client.attach_receiver", true, Receiver::builder().name("l2c").source("q").auto_accept(conv.auto_accept).attach(s)) {
            receiver = Some(x);
        }
    }
    {
        let ctl_a = ctl.clone();
        let ctl_b = ctl.clone();
        let snd_ref = sender.as_mut();
        let rcv_ref = receiver.as_mut();
        let a = async move {
            let mut out = Outcome::default();
            let mut batch = Vec::new();
            if let Some(snd) = snd_ref {
                for i in 0..conv.msgs {
                    let n = if conv.big { 1500 } else { 10 };
                    let _ = op!(out, ctl_a, format!("client.send#{i}"), true, snd.send(body(n)));
                }
                if let Some(Ok(f)) = op!(out, ctl_a, "client.send_batchable", true, snd.send_batchable(body(5))) {
                    batch.push(f);
                }
            }
            for f in batch {
                let _ = op!(out, ctl_a, "client.batchable_outcome", true, f);
            }
            out
        };
        let b = async move {
            let mut out = Outcome::default();
            if let Some(rcv) = rcv_ref {
                if let Some(Ok(d)) = op!(out, ctl_b, "client.recv", true, rcv.recv::<Body<Value>>()) {
                    if !conv.auto_accept {
                        let _ = op!(out, ctl_b, "client.accept", true, rcv.accept(&d));
                    }
                }
            }
            out
        };
        let (oa, ob) = tokio::join!(a, b);
        out.log.extend(oa.log);
        out.log.extend(ob.log);
        out.errors.extend(oa.errors);
        out.errors.extend(ob.errors);
    }
    // wait for the fault to have been noticed everywhere, then exercise every handle again
    simnet::settle().await;
    if ctl.fault_fired() {
        if let Some(snd) = sender.as_mut() {
            let r = op!(out, ctl, "client.post.send", true, snd.send(body(3)));
            check_level(&mut out, "client.post.send", r.map(|r| r.map(|_| ()).map_err(|e| format!("{e:?}"))));
        }
        if let Some(rcv) = receiver.as_mut() {
            let r = op!(out, ctl, "client.post.recv", true, rcv.recv::<Body<Value>>());
            check_level(&mut out, "client.post.recv", r.map(|r| r.map(|_| ()).map_err(|e| format!("{e:?}"))));
        }
        if let Some(s) = sess_opt.as_mut() {
            let r = op!(out, ctl, "client.post.attach", true, Sender::builder().name("late").target("q").attach(s));
            check_level(&mut out, "client.post.attach", r.map(|r| r.map(|_| ()).map_err(|e| format!("{e:?}"))));
        }
        let _ = op!(out, ctl, "client.post.begin", true, Session::begin(&mut conn));
    }
    if let Some(snd) = sender.take() {
        if conv.detach {
            let _ = op!(out, ctl, "client.sender.detach", false, async { snd.detach().await.map(|_| ()).map_err(|(_, e)| e) });
        } else {
            let _ = op!(out, ctl, "client.sender.close", false, snd.close());
        }
    }
    if let Some(rcv) = receiver.take() {
        if conv.detach {
            let _ = op!(out, ctl, "client.receiver.detach", false, async { rcv.detach().await.map(|_| ()).map_err(|(_, e)| e) });
        } else {
            let _ = op!(out, ctl, "client.receiver.close", false, rcv.close());
        }
    }
    if let Some(mut s) = sess_opt.take() {
        let _ = op!(out, ctl, "client.end", false, s.end());
    }
    let fired = ctl.fault_fired();
    if let Some(r) = op!(out, ctl, "client.close", false, conn.close()) {
        if fired && r.is_ok() {
            out.errors.push("client: ConnectionHandle::close() reports a clean close although the transport failed".into());
        }
    }
    out
}

fn check_level(out: &mut Outcome, name: &str, r: Option<Result<(), String>>) {
    if let Some(Err(e)) = r {
        let names_level = e.contains("ConnectionStopped") || e.contains("SessionStopped") || e.contains("Remote") || e.contains("TransportError") || e.contains("Io(");
        if !names_level {
            out.errors.push(format!("{name} failed with {e}, which does not say whether the link, the session or the connection stopped"));
        }
    }
}

async fn listener_side(cfg: DuoCfg, io: simnet::Endpoint, ctl: simnet::PipeCtl, conv: Conv) -> Outcome {
    let mut out = Outcome::default();
    let acc = duo::acceptor(&cfg);
    let conn = op!(out, ctl, "listener.accept", true, acc.accept(io));
    let mut conn = match conn {
        Some(Ok(c)) => c,
        _ => return out,
    };
    let sa = SessionAcceptor::new();
    let sess = op!(out, ctl, "listener.session_accept", true, sa.accept(&mut conn));
    let mut sess_opt = match sess {
        Some(Ok(s)) => Some(s),
        _ => None,
    };
    let la = LinkAcceptor::builder()
        .supported_receiver_settle_modes(fe2o3_amqp::acceptor::SupportedReceiverSettleModes::Both)
        .supported_sender_settle_modes(fe2o3_amqp::acceptor::SupportedSenderSettleModes::All)
        .build();
    let mut sender: Option<Sender> = None;
    let mut receiver: Option<Receiver> = None;
    if let Some(s) = sess_opt.as_mut() {
        for k in 0..2 {
            match op!(out, ctl, format!("listener.link_accept#{k}"), true, la.accept(s)) {
                Some(Ok(LinkEndpoint::Sender(x))) => sender = Some(x),
                Some(Ok(LinkEndpoint::Receiver(x))) => receiver = Some(x),
                _ => break,
            }
        }
    }
    // serve: one message to the client, receive what the client sends (concurrently)
    {
        let ctl_a = ctl.clone();
        let ctl_b = ctl.clone();
        let snd_ref = sender.as_mut();
        let rcv_ref = receiver.as_mut();
        let n_msgs = conv.msgs;
        let conv = conv.clone();
        let a = async move {
            let mut out = Outcome::default();
            if let Some(snd) = snd_ref {
                let _ = op!(out, ctl_a, "listener.send", true, snd.send(body(if conv.listener_big { 1700 } else { 20 })));
            }
            out
        };
        let b = async move {
            let mut out = Outcome::default();
            if let Some(rcv) = rcv_ref {
                for i in 0..(n_msgs + 1) {
                    match op!(out, ctl_b, format!("listener.recv#{i}"), true, rcv.recv::<Body<Value>>()) {
                        Some(Ok(d)) => {
                            let _ = op!(out, ctl_b, format!("listener.accept#{i}"), true, rcv.accept(&d));
                        }
                        _ => break,
                    }
                }
            }
            out
        };
        let (oa, ob) = tokio::join!(a, b);
        out.log.extend(oa.log);
        out.log.extend(ob.log);
        out.errors.extend(oa.errors);
        out.errors.extend(ob.errors);
    }
    simnet::settle().await;
    if ctl.fault_fired() {
        if let Some(snd) = sender.as_mut() {
            let r = op!(out, ctl, "listener.post.send", true, snd.send(body(3)));
            check_level(&mut out, "listener.post.send", r.map(|r| r.map(|_| ()).map_err(|e| format!("{e:?}"))));
        }
        if let Some(rcv) = receiver.as_mut() {
            let r = op!(out, ctl, "listener.post.recv", true, rcv.recv::<Body<Value>>());
            check_level(&mut out, "listener.post.recv", r.map(|r| r.map(|_| ()).map_err(|e| format!("{e:?}"))));
        }
    }
    // teardown: both links are closed concurrently (the client closes its sender first, which needs the
    // listener's receiver to answer while the listener's sender waits for the client's receiver)
    {
        let fired = ctl.fault_fired();
        let ctl_a = ctl.clone();
        let ctl_b = ctl.clone();
        let snd = sender.take();
        let rcv = receiver.take();
        let a = async move {
            let mut out = Outcome::default();
            if let Some(mut snd) = snd {
                if !fired {
                    let _ = op!(out, ctl_a, "listener.sender.on_detach", false, async { Ok::<_, ()>(snd.on_detach().await) });
                }
                if conv.detach {
                    let _ = op!(out, ctl_a, "listener.sender.detach", false, async { snd.detach().await.map(|_| ()).map_err(|(_, e)| e) });
                } else {
                    let _ = op!(out, ctl_a, "listener.sender.close", false, snd.close());
                }
            }
            out
        };
        let b = async move {
            let mut out = Outcome::default();
            if let Some(mut rcv) = rcv {
                if !fired {
                    // wait for the client's detach (recv fails with RemoteClosed and answers it)
                    let _ = op!(out, ctl_b, "listener.receiver.recv_until_detach", false, rcv.recv::<Body<Value>>());
                }
                if conv.detach {
                    let _ = op!(out, ctl_b, "listener.receiver.detach", false, async { rcv.detach().await.map(|_| ()).map_err(|(_, e)| e) });
                } else {
                    let _ = op!(out, ctl_b, "listener.receiver.close", false, rcv.close());
                }
            }
            out
        };
        let (oa, ob) = tokio::join!(a, b);
        out.log.extend(oa.log);
        out.log.extend(ob.log);
        out.errors.extend(oa.errors);
        out.errors.extend(ob.errors);
    }
    if let Some(mut s) = sess_opt.take() {
        let _ = op!(out, ctl, "listener.on_end", false, s.on_end());
    }
    let fired = ctl.fault_fired();
    if let Some(r) = op!(out, ctl, "listener.on_close", false, conn.on_close()) {
        if fired && r.is_ok() {
            out.errors.push("listener: ConnectionHandle::on_close() reports a clean close although the transport failed".into());
        }
    }
    out
}

pub struct RunInfo {
    pub bytes: [usize; 2],
    pub frame_bounds: [Vec<usize>; 2],
    pub fired: bool,
    pub pending_at_fault: bool,
    pub log: Vec<String>,
}

pub fn run_case(c: &Case) -> Result<RunInfo, String> {
    let cfg = DuoCfg { max_frame_size: [c.conv.mfs, c.conv.mfs], pipe: PipeCfg { cap: 1 << 22, fault: c.fault, ..PipeCfg::default() }, tokio_seed: c.conv.tokio_seed, ..DuoCfg::default() };
    let conv = c.conv.clone();
    let ctl_slot: std::sync::Arc<std::sync::Mutex<Option<simnet::PipeCtl>>> = Default::default();
    let slot2 = ctl_slot.clone();
    let fut = async move {
        let (a, b, ctl) = simnet::pipe(cfg.pipe.clone());
        *slot2.lock().unwrap() = Some(ctl.clone());
        let c = tokio::spawn(client_side(cfg.clone(), a, ctl.clone(), conv.clone()));
        let l = tokio::spawn(listener_side(cfg.clone(), b, ctl.clone(), conv.clone()));
        let co = c.await;
        let lo = l.await;
        // let the engines finish their shutdown
        simnet::settle().await;
        (co, lo, ctl)
    };
    let (end, alive) = simnet::run_case(c.conv.tokio_seed, fut);
    match end {
        CaseEnd::Hang => Err(format!("HANG: the conversation did not finish under the virtual-time watchdog; wire so far:{}", simnet::describe_last_wire())),
        CaseEnd::Done((co, lo, ctl)) => {
            let mut errors = Vec::new();
            let mut log = Vec::new();
            for (side, o) in [("client", co), ("listener", lo)] {
                match o {
                    Ok(o) => {
                        errors.extend(o.errors);
                        log.extend(o.log);
                    }
                    Err(e) => errors.push(format!("{side} application task panicked: {e}")),
                }
            }
            // a close handshake that the peer never completed is not a clean close: when the transport
            // failed and no complete close frame ever entered this side's inbound direction, the
            // connection handle must not report Ok
            if ctl.fault_fired() {
                for (side, dir_in, opname) in [("client", 1usize, "client.close=Ok"), ("listener", 0usize, "listener.on_close=Ok")] {
                    let got_close = match rframe::parse_stream(&ctl.bytes(dir_in)) {
                        Ok((items, _)) => rframe::frames_of(&items).iter().any(|f| f.ftype == 0 && f.name() == "close"),
                        Err(_) => true,
                    };
                    if !got_close && log.iter().any(|l| l == opname) {
                        errors.push(format!("{side}: the connection handle reports a clean close although the transport failed before the peer's close frame arrived"));
                    }
                }
            }
            if alive != 0 {
                errors.push(format!("{alive} tasks of the connection are still alive after every handle was dropped"));
            }
            if !ctl.both_released() {
                errors.push("a half of the transport is still held after every handle was dropped".into());
            }
            if !errors.is_empty() {
                return Err(format!("{}\n  op log: {}", errors.join("\n  "), log.join(", ")));
            }
            let mut bounds: [Vec<usize>; 2] = [vec![], vec![]];
            for d in 0..2 {
                if let Ok((items, _)) = rframe::parse_stream(&ctl.bytes(d)) {
                    let mut pos = 0;
                    for it in items {
                        match it {
                            rframe::Item::Header(_) => pos += 8,
                            rframe::Item::Frame(f) => pos = f.offset + f.size as usize,
                        }
                        bounds[d].push(pos);
                    }
                }
            }
            let fired = ctl.fault_fired();
            let pending = log.iter().any(|l| l.contains("=Err"));
            Ok(RunInfo { bytes: [ctl.written(0), ctl.written(1)], frame_bounds: bounds, fired, pending_at_fault: pending, log })
        }
    }
}

// ---------------------------------------------------------------------------
// (b) peer-initiated close / end / detach after every frame

#[derive(Clone, Debug, Serialize, Deserialize, Hash)]
pub struct PeerCase {
    /// 0 close, 1 end, 2 detach (closing), 3 detach (non-closing)
    pub what: u8,
    pub with_error: bool,
    /// inject after this many frames of the conversation were received from the endpoint
    pub after_frames: u8,
    pub tokio_seed: u64,
    /// shutting the endpoint's transport down fails (as a socket does after the peer reset it)
    #[serde(default)]
    pub shutdown_fails: bool,
    /// the peer reports the non-terminal `received` state (unsettled) for every transfer it sees
    #[serde(default)]
    pub received_first: bool,
}

const COND: &str = "amqp:resource-limit-exceeded";

pub async fn run_peer_async(c: &PeerCase) -> Result<(bool, Vec<String>), String> {
    // what: 2 = closing detach of both links, 3 = non-closing detach of both links
    let is_detach = c.what >= 2;
    let cfg = RigCfg { pipe: simnet::PipeCfg { cap: 1 << 22, shutdown_err: [c.shutdown_fails, false], ..simnet::PipeCfg::default() }, ..RigCfg::default() };
    let ClientRig { mut conn, mut sess, mut peer, my_ch, .. } = peer::client_rig(cfg).await?;
    let ph = 4u32;
    let (sender, _a) = peer::answer_attach(&mut peer, my_ch, Sender::builder().name("s").target("q").attach(&mut sess), |_a| Peer::attach_body("s", ph, true, None, None, None, None, false), |_a| {
        vec![Peer::flow_body(Some(0), 100_000, 0, 100_000, Some(ph), Some(0), Some(100), false, false)]
    })
    .await?;
    let (receiver, _a) = peer::answer_attach(&mut peer, my_ch, Receiver::builder().name("r").source("q").attach(&mut sess), |_a| Peer::attach_body("r", 9, false, None, None, Some(0), None, false), |_a| vec![]).await?;
    let _ = peer.new_frames().await;
    let mut sender = sender;
    let mut receiver = receiver;
    // the application: pending recv, unsettled sends in flight
    let app = tokio::spawn(async move {
        let mut log = Vec::new();
        let mut errs = Vec::new();
        let recv_fut = tokio::spawn(async move {
            let r = tokio::time::timeout(Duration::from_secs(900), receiver.recv::<Body<Value>>()).await;
            (receiver, r.map(|r| r.map(|_| ()).map_err(|e| format!("{e:?}"))))
        });
        let mut outcomes = Vec::new();
        for i in 0..3 {
            match tokio::time::timeout(Duration::from_secs(900), sender.send_batchable(body(4))).await {
                Err(_) => errs.push(format!("HANG: send_batchable#{i}")),
                Ok(Ok(f)) => outcomes.push(f),
                Ok(Err(e)) => log.push(format!("send_batchable#{i}=Err({e:?})")),
            }
        }
        for (i, f) in outcomes.into_iter().enumerate() {
            match tokio::time::timeout(Duration::from_secs(900), f).await {
                Err(_) => errs.push(format!("HANG: outcome of batchable send #{i} never resolved")),
                Ok(r) => log.push(format!("outcome#{i}={}", match &r { Ok(o) => format!("Ok({o:?})"), Err(e) => format!("Err({e:?})") })),
            }
        }
        let (mut receiver, rr) = recv_fut.await.expect("recv task");
        match rr {
            Err(_) => errs.push("HANG: pending recv never completed".into()),
            Ok(r) => log.push(format!("recv={:?}", r)),
        }
        // operations issued after the peer's close/end/detach: every link of the case is affected by it, so
        // a new send and a new recv must complete, and fail
        match tokio::time::timeout(Duration::from_secs(900), sender.send(body(3))).await {
            Err(_) => errs.push("HANG: a send issued after the peer's close/end/detach never completed".into()),
            Ok(Ok(o)) => errs.push(format!("a send issued after the peer's close/end/detach succeeded: {o:?}")),
            Ok(Err(e)) => log.push(format!("post.send:Err({e:?})")),
        }
        match tokio::time::timeout(Duration::from_secs(900), receiver.recv::<Body<Value>>()).await {
            Err(_) => errs.push("HANG: a recv issued after the peer's close/end/detach never completed".into()),
            Ok(Ok(_)) => errs.push("a recv issued after the peer's close/end/detach returned a delivery".into()),
            Ok(Err(e)) => log.push(format!("post.recv:Err({e:?})")),
        }
        (sender, receiver, log, errs)
    });
    // the peer: read the endpoint's frames one at a time; inject after `after_frames`
    let mut seen = 0u8;
    let mut injected = false;
    let err = if c.with_error { Some(Peer::error_body(COND, Some("injected"))) } else { None };
    loop {
        if seen >= c.after_frames && !injected {
            injected = true;
            match c.what {
                0 => peer.send_frame(0, &Peer::close_body(err.clone()), &[]).await?,
                1 => peer.send_frame(my_ch, &Peer::end_body(err.clone()), &[]).await?,
                _ => {
                    peer.send_frame(my_ch, &Peer::detach_body(ph, c.what == 2, err.clone()), &[]).await?;
                    peer.send_frame(my_ch, &Peer::detach_body(9, c.what == 2, err.clone()), &[]).await?;
                }
            }
        }
        match peer.next_frame().await {
            Some(f) => {
                seen = seen.saturating_add(1);
                // answer handshakes so that teardown calls can complete
                match f.name() {
                    "transfer" if c.received_first && !injected => {
                        if let Some(did) = peer::as_uint(&f.field(1)) {
                            let st = rframe::perf(&crate::spec::RECEIVED, vec![RValue::Uint(0), RValue::Ulong(0)]);
                            peer.send_frame(my_ch, &Peer::disposition_body(true, did, None, false, Some(st)), &[]).await?;
                        }
                    }
                    "detach" if !is_detach => {
                        let h = peer::as_uint(&f.field(0)).unwrap_or(0);
                        let my = if h == 0 { ph } else { 9 };
                        peer.send_frame(my_ch, &Peer::detach_body(my, true, None), &[]).await?;
                    }
                    "end" if is_detach => peer.send_frame(my_ch, &Peer::end_body(None), &[]).await?,
                    "close" if c.what != 0 => peer.send_frame(0, &Peer::close_body(None), &[]).await?,
                    _ => {}
                }
            }
            None => {
                if injected {
                    break;
                }
                // the conversation has fewer frames than `after_frames`: inject now
                seen = c.after_frames;
            }
        }
    }
    let (sender, receiver, mut log, mut errs) = match tokio::time::timeout(Duration::from_secs(2000), app).await {
        Ok(Ok(x)) => x,
        Ok(Err(e)) => return Err(format!("application task panicked: {e}")),
        Err(_) => return Err("HANG: the application's pending operations never completed after the peer's close/end/detach".into()),
    };
    // the level and the condition
    let want_level = match c.what {
        0 => "ConnectionStopped",
        1 => "SessionStopped",
        _ => "Remote",
    };
    for l in &log {
        if l.contains("=Err(") || l.starts_with("recv=Err") {
            if !is_detach && !l.contains(want_level) && !l.contains("Remote") {
                errs.push(format!("{l}: does not name the level that stopped ({want_level})"));
            }
            // a detach is reported with its condition by the link's next operation (checked after teardown)
            if c.with_error && !is_detach && !l.contains("ResourceLimitExceeded") {
                errs.push(format!("{l}: does not carry the condition the peer supplied"));
            }
        }
    }
    // data-path operations on the enclosing scopes: after a peer end the session cannot attach (the connection
    // can still begin); after a peer close neither works
    if c.what <= 1 {
        match tokio::time::timeout(Duration::from_secs(900), Sender::builder().name("late").target("q").attach(&mut sess)).await {
            Err(_) => errs.push("HANG: an attach issued after the peer's close/end never completed".into()),
            Ok(Ok(_)) => errs.push("an attach issued after the peer's close/end succeeded".into()),
            Ok(Err(e)) => log.push(format!("post.attach:Err({e:?})")),
        }
    }
    if c.what == 0 {
        match tokio::time::timeout(Duration::from_secs(900), Session::begin(&mut conn)).await {
            Err(_) => errs.push("HANG: a begin issued after the peer's close never completed".into()),
            Ok(Ok(_)) => errs.push("a begin issued after the peer's close succeeded".into()),
            Ok(Err(e)) => log.push(format!("post.begin:Err({e:?})")),
        }
    }
    // teardown calls return; answer them
    let td = async {
        let mut v = Vec::new();
        if c.what == 3 {
            // a non-closing detach is answered in kind (close() here is KF-link-close-after-remote-detach)
            v.push(format!("sender.close={:?}", tokio::time::timeout(Duration::from_secs(900), sender.detach()).await.map(|r| r.map(|_| ()).map_err(|(_, e)| format!("{e:?}")))));
            v.push(format!("receiver.close={:?}", tokio::time::timeout(Duration::from_secs(900), receiver.detach()).await.map(|r| r.map(|_| ()).map_err(|(_, e)| format!("{e:?}")))));
        } else {
            v.push(format!("sender.close={:?}", tokio::time::timeout(Duration::from_secs(900), sender.close()).await.map(|r| r.map_err(|e| format!("{e:?}")))));
            v.push(format!("receiver.close={:?}", tokio::time::timeout(Duration::from_secs(900), receiver.close()).await.map(|r| r.map_err(|e| format!("{e:?}")))));
        }
        v.push(format!("session.end={:?}", tokio::time::timeout(Duration::from_secs(900), sess.end()).await.map(|r| r.map_err(|e| format!("{e:?}")))));
        v.push(format!("connection.close={:?}", tokio::time::timeout(Duration::from_secs(900), conn.close()).await.map(|r| r.map_err(|e| format!("{e:?}")))));
        // teardown calls are safe to repeat: a second call reports an error, it neither hangs nor panics
        let again = format!("{:?}", tokio::time::timeout(Duration::from_secs(900), conn.on_close()).await.map(|r| r.map_err(|e| format!("{e:?}"))));
        let again2 = format!("{:?}", tokio::time::timeout(Duration::from_secs(900), conn.close()).await.map(|r| r.map_err(|e| format!("{e:?}"))));
        v.insert(v.len() - 1, format!("connection.close-again={again}/{again2}"));
        v
    };
    let answer = async {
        loop {
            match peer.next_frame().await {
                Some(f) => match f.name() {
                    "detach" => {
                        let h = peer::as_uint(&f.field(0)).unwrap_or(0);
                        let my = if h == 0 { ph } else { 9 };
                        if !is_detach {
                            let _ = peer.send_frame(my_ch, &Peer::detach_body(my, true, None), &[]).await;
                        }
                    }
                    "end" if c.what != 1 => {
                        let _ = peer.send_frame(my_ch, &Peer::end_body(None), &[]).await;
                    }
                    "close" if c.what != 0 => {
                        let _ = peer.send_frame(0, &Peer::close_body(None), &[]).await;
                    }
                    _ => {}
                },
                None => {
                    tokio::time::sleep(Duration::from_millis(2)).await;
                }
            }
        }
    };
    let v = tokio::select! {
        v = td => v,
        _ = answer => unreachable!(),
    };
    for l in &v {
        if l.contains("Elapsed") {
            errs.push(format!("HANG: {l}"));
        }
    }
    log.extend(v);
    if is_detach && c.with_error {
        // each link must have reported the peer's condition through one of its operations
        let snd_ok = log.iter().any(|l| (l.starts_with("outcome#") || l.starts_with("send_batchable#") || l.starts_with("post.send") || l.starts_with("sender.close")) && l.contains("ResourceLimitExceeded"));
        let rcv_ok = log.iter().any(|l| (l.starts_with("recv=") || l.starts_with("post.recv") || l.starts_with("receiver.close")) && l.contains("ResourceLimitExceeded"));
        if !snd_ok {
            errs.push("no operation on the sending link reported the condition the peer detached it with".into());
        }
        if !rcv_ok {
            errs.push("no operation on the receiving link reported the condition the peer detached it with".into());
        }
    }
    if c.what == 0 {
        let last = log.last().cloned().unwrap_or_default();
        if c.with_error && !last.contains("ResourceLimitExceeded") {
            errs.push(format!("{last}: the connection handle does not report the error the peer closed with"));
        }
    }
    if !errs.is_empty() {
        return Err(format!("{}\n  log: {}", errs.join("\n  "), log.join(", ")));
    }
    Ok((injected, log))
}

pub fn run_peer_case(c: &PeerCase) -> Result<(bool, Vec<String>), String> {
    match simnet::run_case(c.tokio_seed, run_peer_async(c)).0 {
        CaseEnd::Done(r) => r,
        CaseEnd::Hang => Err(format!("HANG (virtual-time watchdog); wire so far:{}", simnet::describe_last_wire())),
    }
}

// ---------------------------------------------------------------------------

fn exec_cut(ctx: &ShardCtx, c: &Case, rep: &mut Report, seen: &mut std::collections::HashSet<String>) {
    ctx.journal("cut", &serde_json::to_value(c).unwrap());
    rep.evaluations += 1;
    let r = guarded(|| run_case(c));
    match r {
        Ok(Ok(info)) => {
            if info.fired {
                rep.class("fault-fired");
            }
            if info.fired && info.pending_at_fault {
                rep.nontrivial_evals += 1;
                rep.nontrivial.insert(hash_of(c));
            }
            if rep.samples.len() < 4 && info.fired {
                rep.sample(serde_json::json!({"case": c, "ops": info.log}));
            }
        }
        Ok(Err(e)) => {
            let sig = if e.contains("HANG") { "hang" } else if e.contains("alive") { "task-leak" } else { "propagation" };
            let key = format!("{sig}:{:?}", c.fault.map(|f| f.kind));
            if seen.insert(key) {
                rep.violations.push(Violation { variant: "cut".into(), signature: sig.into(), detail: e, case: serde_json::to_value(c).unwrap() });
            }
        }
        Err(p) => {
            let sig = panic_signature(&p[0]);
            if seen.insert(sig.clone()) {
                rep.violations.push(Violation { variant: "cut".into(), signature: sig, detail: format!("panic: {}", p.join(" | ")), case: serde_json::to_value(c).unwrap() });
            }
        }
    }
}

fn run(ctx: &ShardCtx, rep: &mut Report) {
    // (a) cuts: enumerate offsets of reference conversations
    let convs: Vec<Conv> = match ctx.tier {
        Tier::Quick => (0..96u64).map(|i| Conv { msgs: 1 + (i % 3) as u8, big: i % 2 == 1, rcv_second: i % 4 >= 2, tokio_seed: ctx.seed.wrapping_add(i), mfs: if i % 5 == 4 { 4096 } else { 512 }, detach: (i / 8) % 3 == 1, listener_big: (i / 8) % 2 == 1, auto_accept: (i / 16) % 2 == 1 }).collect(),
        Tier::Thorough => (0..300u64).map(|i| Conv { msgs: 1 + (i % 3) as u8, big: i % 2 == 1, rcv_second: i % 4 >= 2, tokio_seed: ctx.seed.wrapping_add(i), mfs: if i % 5 == 0 { 4096 } else { 512 }, detach: (i / 8) % 3 == 1, listener_big: (i / 8) % 2 == 1, auto_accept: (i / 16) % 2 == 1 }).collect(),
    };
    let mut seen = std::collections::HashSet::new();
    let mut n: u64 = 0;
    for conv in &convs {
        let dry = match run_case(&Case { conv: conv.clone(), fault: None }) {
            Ok(i) => i,
            Err(e) => {
                rep.violations.push(Violation { variant: "cut".into(), signature: "reference-conversation".into(), detail: format!("the reference conversation fails without any fault: {e}"), case: serde_json::to_value(&Case { conv: conv.clone(), fault: None }).unwrap() });
                return;
            }
        };
        for dir in 0..2u8 {
            let total = dry.bytes[dir as usize];
            let offsets: Vec<usize> = match ctx.tier {
                Tier::Thorough => (0..=total).collect(),
                Tier::Quick => {
                    let mut v: Vec<usize> = (0..=9).collect();
                    for b in &dry.frame_bounds[dir as usize] {
                        v.extend([b.saturating_sub(1), *b, b + 1, b + 4, b + 9]);
                    }
                    // sampled offsets
                    let step = (total / 60).max(1);
                    v.extend((0..total).step_by(step));
                    v.retain(|x| *x <= total);
                    v.sort();
                    v.dedup();
                    v
                }
            };
            for at in offsets {
                for kind in [FaultKind::Eof, FaultKind::Reset, FaultKind::StallThenEof(5000)] {
                    n += 1;
                    if n % ctx.nshards as u64 != ctx.shard as u64 {
                        continue;
                    }
                    let c = Case { conv: conv.clone(), fault: Some(Fault { dir, at, kind }) };
                    exec_cut(ctx, &c, rep, &mut seen);
                }
            }
        }
    }
    rep.exhaustive = ctx.tier == Tier::Thorough;
    // (b) peer-initiated close/end/detach after every frame
    let mut k: u64 = 0;
    for what in 0..4u8 {
        for with_error in [false, true] {
            for after in 0..10u8 {
                for s in 0..(if ctx.tier == Tier::Quick { 64u64 } else { 512 }) {
                    let shutdown_fails = s % 2 == 1;
                    let received_first = s % 4 >= 2;
                    k += 1;
                    if k % ctx.nshards as u64 != ctx.shard as u64 {
                        continue;
                    }
                    let c = PeerCase { what, with_error, after_frames: after, tokio_seed: ctx.seed.wrapping_add(s / 4), shutdown_fails, received_first };
                    rep.evaluations += 1;
                    ctx.journal("peer", &serde_json::to_value(&c).unwrap());
                    match guarded(|| run_peer_case(&c)) {
                        Ok(Ok((injected, log))) => {
                            rep.class(["peer-close", "peer-end", "peer-detach-closing", "peer-detach-non-closing"][what as usize]);
                            if injected {
                                rep.nontrivial_evals += 1;
                                rep.nontrivial.insert(hash_of(&c));
                            }
                            if rep.samples.len() < 6 {
                                rep.sample(serde_json::json!({"case": c, "ops": log}));
                            }
                        }
                        Ok(Err(e)) => {
                            let sig = format!("peer-{}-{}", what, if e.contains("HANG") { "hang" } else { "propagation" });
                            if seen.insert(sig.clone()) {
                                rep.violations.push(Violation { variant: "peer".into(), signature: sig, detail: e, case: serde_json::to_value(&c).unwrap() });
                            }
                        }
                        Err(p) => {
                            let sig = panic_signature(&p[0]);
                            if seen.insert(sig.clone()) {
                                rep.violations.push(Violation { variant: "peer".into(), signature: sig, detail: format!("panic: {}", p.join(" | ")), case: serde_json::to_value(&c).unwrap() });
                            }
                        }
                    }
                }
            }
        }
    }
}

fn replay(variant: &str, case_json: &Json) -> Result<(), String> {
    let v = variant.strip_suffix("!raw").unwrap_or(variant);
    if v == "peer" {
        let c: PeerCase = serde_json::from_value(case_json.clone()).map_err(|e| format!("bad case: {e}"))?;
        run_peer_case(&c).map(|_| ())
    } else {
        let c: Case = serde_json::from_value(case_json.clone()).map_err(|e| format!("bad case: {e}"))?;
        run_case(&c).map(|_| ())
    }
}

#[allow(dead_code)]
fn _unused(_: BoxedStrategy<u8>) {}
