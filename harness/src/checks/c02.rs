//! C02 — settlement: each send resolves once, with its own delivery's outcome
use crate::checks::c01;
use crate::driver::*;
use crate::gen;
use crate::peer::{self, as_bool, as_uint, ClientRig, Peer, RigCfg};
use crate::refcodec::RValue;
use crate::rframe::RFrame;
use crate::simnet::{self, CaseEnd, PipeCfg};
use fe2o3_amqp::link::delivery::Sendable;
use fe2o3_amqp::types::definitions::{ReceiverSettleMode, SenderSettleMode};
use fe2o3_amqp::types::messaging::{Body, Outcome};
use fe2o3_amqp::types::primitives::Value;
use fe2o3_amqp::{Receiver, Sender};
use proptest::collection::vec;
use proptest::prelude::*;
use serde::{Deserialize, Serialize};
use serde_json::Value as Json;
use std::collections::{BTreeMap, BTreeSet};
use std::sync::{Arc, Mutex};
use tokio::sync::{mpsc, oneshot};

pub fn meta() -> PropMeta {
    PropMeta {
        id: "C02",
        level: "exploration",
        rule: "(A) real Sender(s) (1-2 links on one session, snd-settle-mode unsettled/mixed, rcv-settle-mode first/second) against a scripted receiver that executes generated disposition histories step-wise: single ids, ranges over one link, ranges spanning both links, ranges including unknown ids, duplicates, out-of-order ids, settled or unsettled, states accepted / rejected(tagged error) / released / modified(flags) / received (non-terminal), interleaved with further sends. Model per delivery: a pre-settled send resolves Accepted without any disposition; an unsettled send resolves exactly once with the state of the first covering disposition that is terminal (the deciding disposition of a settled one is always terminal), and is still pending at every earlier quiescent point; outcomes carry per-disposition tags so a mix-up is visible; in mode second the ids covered by the sender's settled dispositions must equal the ids that received an unsettled terminal outcome while unsettled (none missing, none extra) with the same state. (B) real Receiver against a scripted sender: the application disposes in generated order (one by one, batches via accept_all, out of order, mixed outcomes); the dispositions emitted must cover exactly the disposed ids with the chosen state and settled = (mode first). (C) two real endpoints: every send future resolves with the outcome the receiving application applied to that delivery (C01 harness, settlement classes). Non-trivial: a range covering >=2 deliveries, or mode second, or an out-of-order / duplicate disposition; distinct by hash of the case.",
        assumptions: &["a settled disposition whose state is non-terminal has no defined outcome and is never generated as the deciding disposition", "step-wise execution at exact quiescent points"],
        nontrivial_floor: 0.3,
        run,
        replay,
        crashy: true,
    }
}

// ---------------------------------------------------------------------------
// (A) sender side

#[derive(Clone, Debug, Serialize, Deserialize, Hash)]
pub enum Op {
    Send { link: u8, presettled: bool },
    /// disposition over delivery numbers [first, first+span] counted in send order (0-based),
    /// shifted by `shift` (to reach unknown ids); state 0 accepted 1 rejected 2 released 3 modified 4 received
    Disp { first: u8, span: u8, shift: u8, settled: bool, state: u8 },
}

#[derive(Clone, Debug, Serialize, Deserialize, Hash)]
pub struct CaseA {
    pub rcv_second: bool,
    pub mixed: bool,
    pub two_links: bool,
    pub n0: u32,
    pub ops: Vec<Op>,
    pub tokio_seed: u64,
    pub choices: Vec<u8>,
    pub pipe: PipeCfg,
}

fn op_a() -> BoxedStrategy<Op> {
    prop_oneof![
        4 => (0u8..2, prop::bool::weighted(0.25)).prop_map(|(link, presettled)| Op::Send { link, presettled }),
        5 => (0u8..12, prop_oneof![4 => Just(0u8), 3 => 1u8..4, 1 => Just(11u8)], prop_oneof![6 => Just(0u8), 1 => 1u8..3], any::<bool>(), prop_oneof![3 => Just(0u8), 2 => Just(1u8), 1 => Just(2u8), 1 => Just(3u8), 2 => Just(4u8)])
            .prop_map(|(first, span, shift, settled, state)| Op::Disp { first, span, shift, settled, state }),
    ]
    .boxed()
}

pub fn case_a_strategy() -> BoxedStrategy<CaseA> {
    (any::<bool>(), any::<bool>(), any::<bool>(), crate::duo::next_id(), vec(op_a(), 1..30), any::<u64>(), gen::choices_bytes(), simnet::strat::pipe_cfg())
        .prop_map(|(rcv_second, mixed, two_links, n0, ops, tokio_seed, choices, pipe)| CaseA { rcv_second, mixed, two_links, n0, ops, tokio_seed, choices, pipe: PipeCfg { cap: 1 << 22, ..pipe } })
        .boxed()
}

#[derive(Clone, Debug, PartialEq, Eq)]
enum Out {
    Accepted,
    Rejected(Option<String>),
    Released,
    Modified(Option<bool>, Option<bool>),
    Err(String),
}

fn out_of(o: &Result<Outcome, fe2o3_amqp::link::SendError>) -> Out {
    match o {
        Ok(Outcome::Accepted(_)) => Out::Accepted,
        Ok(Outcome::Rejected(r)) => Out::Rejected(r.error.as_ref().and_then(|e| e.description.clone())),
        Ok(Outcome::Released(_)) => Out::Released,
        Ok(Outcome::Modified(m)) => Out::Modified(m.delivery_failed, m.undeliverable_here),
        Ok(other) => Out::Err(format!("{other:?}")),
        Err(e) => Out::Err(format!("{e:?}")),
    }
}

enum CmdA {
    Send(usize, bool, u32, oneshot::Sender<Result<(), String>>),
    /// detach sender 0 (non-closing) and resume it
    DetachResume(oneshot::Sender<Result<(), String>>),
}

type Results = Arc<Mutex<BTreeMap<u32, Out>>>;

async fn sender_app(mut senders: Vec<Sender>, mut rx: mpsc::Receiver<CmdA>, results: Results) {
    while let Some(cmd) = rx.recv().await {
        let (link, presettled, seq, done) = match cmd {
            CmdA::Send(a, b, c, d) => (a, b, c, d),
            CmdA::DetachResume(done) => {
                let s0 = senders.remove(0);
                match s0.detach().await {
                    Ok(d) => {
                        let _ = done.send(Ok(()));
                        let _ = tokio::time::timeout(std::time::Duration::from_secs(5), d.resume()).await;
                    }
                    Err((_d, e)) => {
                        let _ = done.send(Err(format!("detach failed: {e:?}")));
                    }
                }
                break;
            }
        };
        let body = Body::Value(fe2o3_amqp::types::messaging::AmqpValue(Value::Uint(seq)));
        let msg = fe2o3_amqp::types::messaging::Message::builder().body(body).build();
        let sendable: Sendable<Body<Value>> = Sendable::builder().message(msg).settled(if presettled { Some(true) } else { None }).build();
        let li = link % senders.len();
        match senders[li].send_batchable(sendable).await {
            Ok(f) => {
                let res = results.clone();
                tokio::spawn(async move {
                    let o = f.await;
                    res.lock().unwrap().insert(seq, out_of(&o));
                });
                let _ = done.send(Ok(()));
            }
            Err(e) => {
                let _ = done.send(Err(format!("send_batchable failed: {e:?}")));
            }
        }
    }
    std::future::pending::<()>().await;
}

pub struct InfoA {
    pub range2: bool,
    pub dup_or_ooo: bool,
    pub echoes: usize,
}

fn state_value(state: u8, tag: &str) -> (RValue, Option<Out>) {
    match state {
        0 => (Peer::accepted(), Some(Out::Accepted)),
        1 => (Peer::rejected(tag), Some(Out::Rejected(Some(tag.to_string())))),
        2 => (Peer::released(), Some(Out::Released)),
        3 => {
            let (a, b) = (tag.len() % 2 == 0, tag.len() % 3 == 0);
            (Peer::modified(a, b), Some(Out::Modified(Some(a), Some(b))))
        }
        _ => (Peer::received(0, 0), None),
    }
}

pub async fn run_a(c: &CaseA) -> Result<InfoA, String> {
    let cfg = RigCfg { pipe: c.pipe.clone(), choices: c.choices.clone(), ep_next_outgoing_id: c.n0, ..RigCfg::default() };
    let ClientRig { conn, mut sess, mut peer, my_ch, cfg, .. } = peer::client_rig(cfg).await?;
    let n_links = if c.two_links { 2 } else { 1 };
    let mut senders = Vec::new();
    let mut ep_handles = Vec::new();
    for i in 0..n_links {
        let name = format!("s{i}");
        let ph = 20 + i as u32;
        let ssm = if c.mixed { SenderSettleMode::Mixed } else { SenderSettleMode::Unsettled };
        let rsm = if c.rcv_second { ReceiverSettleMode::Second } else { ReceiverSettleMode::First };
        let (s, att) = peer::answer_attach(
            &mut peer,
            my_ch,
            Sender::builder().name(name.clone()).target("q").sender_settle_mode(ssm).receiver_settle_mode(rsm).attach(&mut sess),
            |a| {
                let rs = match a.field(4) {
                    RValue::Ubyte(x) => Some(x),
                    _ => None,
                };
                let ss = match a.field(3) {
                    RValue::Ubyte(x) => Some(x),
                    _ => None,
                };
                Peer::attach_body(&name, ph, true, ss, rs, None, None, false)
            },
            |_a| vec![Peer::flow_body(Some(cfg.ep_next_outgoing_id), 100_000, cfg.peer_next_outgoing_id, 100_000, Some(ph), Some(0), Some(100_000), false, false)],
        )
        .await?;
        ep_handles.push(as_uint(&att.field(1)).ok_or("attach without handle")?);
        senders.push(s);
    }
    let results: Results = Arc::new(Mutex::new(BTreeMap::new()));
    let (tx, rx) = mpsc::channel(64);
    tokio::spawn(sender_app(senders, rx, results.clone()));

    // model
    #[derive(Clone, Debug)]
    struct D {
        id: u32,
        presettled: bool,
        outcome: Option<Out>,
        /// settled by the receiver (forgotten): later dispositions have no effect
        remote_settled: bool,
    }
    let mut deliveries: Vec<D> = Vec::new(); // by send order (seq)
    let mut expect_echo: BTreeMap<u32, Vec<RValue>> = BTreeMap::new(); // id -> states reported unsettled+terminal (an echo must carry one of them)
    let mut seen_echo: BTreeSet<u32> = BTreeSet::new();
    let mut info = InfoA { range2: false, dup_or_ooo: false, echoes: 0 };
    let mut disp_count = 0u32;
    let mut max_first_seen: i64 = -1;

    macro_rules! step {
        ($what:expr) => {{
            let frames: Vec<RFrame> = peer.new_frames().await;
            for f in &frames {
                match f.name() {
                    "transfer" => {
                        let id = as_uint(&f.field(1)).ok_or_else(|| format!("{}: single-frame transfer without delivery-id", $what))?;
                        let settled = as_bool(&f.field(4)).unwrap_or(false);
                        // the body carries the sequence number
                        let seq = match crate::refcodec::decode_all(&f.payload) {
                            Ok(secs) => secs.iter().find_map(|s| match s {
                                RValue::Described(_, v) => match &**v {
                                    RValue::Uint(x) => Some(*x),
                                    _ => None,
                                },
                                _ => None,
                            }),
                            Err(_) => None,
                        }
                        .ok_or_else(|| format!("{}: transfer payload does not carry the sequence number", $what))? as usize;
                        if seq >= deliveries.len() {
                            return Err(format!("{}: transfer for a message that was never sent (seq {seq})", $what));
                        }
                        deliveries[seq].id = id;
                        if settled != deliveries[seq].presettled {
                            return Err(format!("{}: transfer of message {seq} has settled={settled}, the negotiated mode and the request call for {}", $what, deliveries[seq].presettled));
                        }
                    }
                    "disposition" => {
                        let ff = f.fields();
                        if as_bool(&ff[0]) != Some(false) {
                            return Err(format!("{}: the sending endpoint emitted a disposition with role receiver", $what));
                        }
                        let first = as_uint(&ff[1]).ok_or("disposition without first")?;
                        let last = as_uint(&ff[2]).unwrap_or(first);
                        let settled = as_bool(&ff[3]).unwrap_or(false);
                        if !settled {
                            return Err(format!("{}: the sender emitted an unsettled disposition {:?}", $what, f.body));
                        }
                        info.echoes += 1;
                        let mut id = first;
                        loop {
                            match expect_echo.get(&id) {
                                Some(sts) => {
                                    let got = crate::spec::canon_any(&ff[4]);
                                    if !sts.iter().any(|st| got == crate::spec::canon_any(st)) {
                                        return Err(format!("{}: settling disposition for delivery {} carries state {:?}, the receiver reported {:?}", $what, id, ff[4], sts));
                                    }
                                    // (a repeated echo after the receiver repeated its report is tolerated)
                                    seen_echo.insert(id);
                                }
                                None => {
                                    return Err(format!("{}: the sender sent a settling disposition covering delivery {} for which the receiver reported no unsettled terminal outcome", $what, id));
                                }
                            }
                            if id == last {
                                break;
                            }
                            id = id.wrapping_add(1);
                        }
                    }
                    "flow" => {}
                    other => return Err(format!("{}: unexpected {} frame", $what, other)),
                }
            }
            // futures vs model
            let res = results.lock().unwrap().clone();
            for (seq, d) in deliveries.iter().enumerate() {
                match (&d.outcome, res.get(&(seq as u32))) {
                    (Some(want), Some(got)) => {
                        if want != got {
                            return Err(format!("{}: send #{seq} (delivery-id {}) resolved with {:?} but the outcome applied to that delivery is {:?}", $what, d.id, got, want));
                        }
                    }
                    (Some(want), None) => return Err(format!("{}: send #{seq} (delivery-id {}) is still pending although its outcome {:?} was reported", $what, d.id, want)),
                    (None, Some(got)) => return Err(format!("{}: send #{seq} (delivery-id {}) resolved with {:?} before any terminal or settling disposition covered it", $what, d.id, got)),
                    (None, None) => {}
                }
            }
            // echoes: none missing at quiescence
            for (id, _) in expect_echo.iter() {
                if !seen_echo.contains(id) {
                    return Err(format!("{}: rcv-settle-mode second: the receiver reported a terminal outcome for delivery {} but the sender sent no settling disposition for it", $what, id));
                }
            }
        }};
    }

    step!("after attach");
    for (k, op) in c.ops.iter().enumerate() {
        let what = format!("step {k} {:?}", op);
        match op {
            Op::Send { link, presettled } => {
                let pre = *presettled && c.mixed;
                let seq = deliveries.len() as u32;
                deliveries.push(D { id: u32::MAX, presettled: pre, outcome: if pre { Some(Out::Accepted) } else { None }, remote_settled: pre });
                let (dtx, drx) = oneshot::channel();
                // the request is passed as generated: under snd-settle-mode unsettled it is documented to be ignored
                tx.send(CmdA::Send(*link as usize, *presettled, seq, dtx)).await.map_err(|_| "app gone".to_string())?;
                drx.await.map_err(|_| "app dropped reply".to_string())??;
                step!(what);
            }
            Op::Disp { first, span, shift, settled, state } => {
                if deliveries.is_empty() {
                    continue;
                }
                let n = deliveries.len() as u32;
                let fi = (*first as u32) % n;
                // ids are n0-based consecutive in send order on this session
                let first_id = deliveries[fi as usize].id.wrapping_add(*shift as u32 * 3);
                let last_id = first_id.wrapping_add(*span as u32);
                disp_count += 1;
                let tag = format!("d{}x{}", disp_count, "y".repeat((disp_count % 5) as usize));
                let (sv, out) = state_value(*state, &tag);
                // a settled disposition always carries a terminal state
                let (sv, out) = if *settled && out.is_none() { state_value(0, &tag) } else { (sv, out) };
                if *span >= 1 {
                    info.range2 = true;
                }
                if (fi as i64) < max_first_seen {
                    info.dup_or_ooo = true;
                }
                max_first_seen = max_first_seen.max(fi as i64);
                // apply to the model
                let mut id = first_id;
                loop {
                    if let Some(d) = deliveries.iter_mut().find(|d| d.id == id) {
                        if !d.remote_settled {
                            if let Some(o) = &out {
                                if d.outcome.is_none() {
                                    d.outcome = Some(o.clone());
                                }
                                if !*settled && c.rcv_second {
                                    expect_echo.entry(id).or_default().push(sv.clone());
                                }
                            }
                            if *settled {
                                d.remote_settled = true;
                            }
                        } else {
                            info.dup_or_ooo = true;
                        }
                    }
                    if id == last_id {
                        break;
                    }
                    id = id.wrapping_add(1);
                }
                let body = Peer::disposition_body(true, first_id, if *span == 0 { None } else { Some(last_id) }, *settled, Some(sv));
                peer.send_frame(my_ch, &body, &[]).await?;
                step!(what);
            }
        }
    }
    // finally every unsettled delivery is covered by a terminal settled disposition
    if !deliveries.is_empty() {
        let first_id = deliveries[0].id;
        let last_id = deliveries.last().unwrap().id;
        let tag = "final".to_string();
        let (sv, out) = state_value(2, &tag);
        for d in deliveries.iter_mut() {
            if !d.remote_settled && d.outcome.is_none() {
                d.outcome = out.clone();
            }
            d.remote_settled = true;
        }
        let body = Peer::disposition_body(true, first_id, Some(last_id), true, Some(sv));
        peer.send_frame(my_ch, &body, &[]).await?;
        step!("final settling disposition over everything");
    }
    // after settlement the sender retains nothing: its resuming attach lists no unsettled delivery
    {
        peer.settle().await;
        let (dtx, drx) = oneshot::channel();
        tx.send(CmdA::DetachResume(dtx)).await.map_err(|_| "app gone".to_string())?;
        let d = peer.wait_for("detach").await?;
        let closed = as_bool(&d.field(1)).unwrap_or(false);
        peer.send_frame(my_ch, &Peer::detach_body(20, closed, None), &[]).await?;
        match tokio::time::timeout(std::time::Duration::from_secs(10), drx).await {
            Ok(Ok(Ok(()))) => {}
            Ok(Ok(Err(e))) => return Err(format!("final detach of the sender: {e}")),
            _ => return Err("final detach of the sender did not complete although the peer answered it".into()),
        }
        let a = peer.wait_for("attach").await.map_err(|e| format!("resume: the sender sent no attach: {e}"))?;
        if let RValue::Map(m) = a.field(7) {
            if !m.is_empty() {
                return Err(format!("resume: every delivery was settled, but the sender's resuming attach still lists {} unsettled deliveries: {:?}", m.len(), m.iter().map(|(k, _)| k.clone()).collect::<Vec<_>>()));
            }
        }
    }
    drop(tx);
    let _ = (&conn, &sess, &ep_handles);
    Ok(info)
}

// ---------------------------------------------------------------------------
// (B) receiver side

#[derive(Clone, Debug, Serialize, Deserialize, Hash)]
pub enum OpB {
    Deliver(u8),
    /// dispose the k-th oldest undisposed delivery: 0 accept 1 reject 2 release 3 modify
    Dispose { pick: u8, how: u8 },
    /// accept_all of the m oldest undisposed deliveries, skipping `skip` in the middle
    AcceptAll { m: u8, skip: bool },
    /// (mode second) the peer settles the k-th oldest delivery whose outcome it has been told
    PeerSettle { pick: u8 },
}

#[derive(Clone, Debug, Serialize, Deserialize, Hash)]
pub struct CaseB {
    pub rcv_second: bool,
    pub p0: u32,
    pub ops: Vec<OpB>,
    pub tokio_seed: u64,
    pub choices: Vec<u8>,
    pub pipe: PipeCfg,
    /// transfer frames per delivery are 1 + frames % 3; continuation frames omit delivery-id and tag
    #[serde(default)]
    pub frames: u8,
    /// finally detach the link and resume it: the resuming attach shows what the receiver still holds unsettled
    #[serde(default)]
    pub resume_at_end: bool,
}

pub fn case_b_strategy() -> BoxedStrategy<CaseB> {
    let op = prop_oneof![
        4 => (1u8..5).prop_map(OpB::Deliver),
        4 => (0u8..6, 0u8..4).prop_map(|(pick, how)| OpB::Dispose { pick, how }),
        2 => (2u8..6, any::<bool>()).prop_map(|(m, skip)| OpB::AcceptAll { m, skip }),
        2 => (0u8..6).prop_map(|pick| OpB::PeerSettle { pick }),
    ];
    (any::<bool>(), crate::duo::next_id(), vec(op, 1..30), any::<u64>(), gen::choices_bytes(), simnet::strat::pipe_cfg(), prop_oneof![2 => Just(0u8), 1 => Just(1u8), 1 => Just(2u8)], any::<bool>())
        .prop_map(|(rcv_second, p0, ops, tokio_seed, choices, pipe, frames, resume_at_end)| CaseB { rcv_second, p0, ops, tokio_seed, choices, pipe: PipeCfg { cap: 1 << 22, ..pipe }, frames, resume_at_end })
        .boxed()
}

enum CmdB {
    Recv(oneshot::Sender<Result<u32, String>>),
    Dispose(Vec<u32>, u8, bool, oneshot::Sender<Result<(), String>>),
    /// detach (non-closing) and resume; reports errors of the detach
    DetachResume(oneshot::Sender<Result<(), String>>),
}

async fn receiver_app(mut r: Receiver, mut rx: mpsc::Receiver<CmdB>) {
    let mut held: Vec<fe2o3_amqp::link::delivery::Delivery<Body<Value>>> = Vec::new();
    while let Some(cmd) = rx.recv().await {
        match cmd {
            CmdB::Recv(done) => {
                let res = match r.recv::<Body<Value>>().await {
                    Ok(d) => {
                        let id = *d.delivery_id();
                        held.push(d);
                        Ok(id)
                    }
                    Err(e) => Err(format!("recv failed: {e:?}")),
                };
                let _ = done.send(res);
            }
            CmdB::Dispose(ids, how, all, done) => {
                let picked: Vec<_> = ids.iter().filter_map(|id| held.iter().find(|d| d.delivery_id() == id)).collect();
                let res = if all {
                    r.accept_all(picked).await
                } else {
                    let d = picked[0];
                    match how {
                        0 => r.accept(d).await,
                        1 => r.reject(d, None).await,
                        2 => r.release(d).await,
                        _ => r.modify(d, fe2o3_amqp::types::messaging::Modified { delivery_failed: Some(true), undeliverable_here: Some(false), message_annotations: None }).await,
                    }
                };
                held.retain(|d| !ids.contains(d.delivery_id()));
                let _ = done.send(res.map_err(|e| format!("disposition failed: {e:?}")));
            }
            CmdB::DetachResume(done) => {
                match r.detach().await {
                    Ok(d) => {
                        let _ = done.send(Ok(()));
                        // the peer inspects the resuming attach and does not complete the exchange
                        let _ = tokio::time::timeout(std::time::Duration::from_secs(5), d.resume()).await;
                    }
                    Err((_d, e)) => {
                        let _ = done.send(Err(format!("detach failed: {e:?}")));
                    }
                }
                break;
            }
        }
    }
    std::future::pending::<()>().await;
}

pub struct InfoB {
    pub batch: bool,
    pub ooo: bool,
}

pub async fn run_b(c: &CaseB) -> Result<InfoB, String> {
    let cfg = RigCfg { pipe: c.pipe.clone(), choices: c.choices.clone(), peer_next_outgoing_id: c.p0, ..RigCfg::default() };
    let ClientRig { conn, mut sess, mut peer, my_ch, .. } = peer::client_rig(cfg).await?;
    let ph = 4u32;
    let rsm = if c.rcv_second { ReceiverSettleMode::Second } else { ReceiverSettleMode::First };
    let (receiver, _att) = peer::answer_attach(
        &mut peer,
        my_ch,
        Receiver::builder().name("r").source("q").receiver_settle_mode(rsm).attach(&mut sess),
        |_a| Peer::attach_body("r", ph, false, Some(0), Some(c.rcv_second as u8), Some(0), None, false),
        |_a| vec![],
    )
    .await?;
    let (tx, rx) = mpsc::channel(16);
    tokio::spawn(receiver_app(receiver, rx));
    let mut next_id = c.p0;
    let mut undisposed: Vec<u32> = Vec::new(); // delivery ids received by the app, oldest first
    let mut expected: BTreeMap<u32, u8> = BTreeMap::new(); // id -> state kind expected in a disposition
    let mut covered: BTreeSet<u32> = BTreeSet::new();
    let mut info = InfoB { batch: false, ooo: false };
    let mut peer_settled: BTreeSet<u32> = BTreeSet::new();
    let _ = peer.new_frames().await;

    macro_rules! step {
        ($what:expr) => {{
            let frames: Vec<RFrame> = peer.new_frames().await;
            for f in &frames {
                if f.name() != "disposition" {
                    continue;
                }
                let ff = f.fields();
                if as_bool(&ff[0]) != Some(true) {
                    return Err(format!("{}: the receiving endpoint emitted a disposition with role sender", $what));
                }
                let first = as_uint(&ff[1]).ok_or("disposition without first")?;
                let last = as_uint(&ff[2]).unwrap_or(first);
                let settled = as_bool(&ff[3]).unwrap_or(false);
                if settled != !c.rcv_second {
                    return Err(format!("{}: disposition with settled={} under rcv-settle-mode {}", $what, settled, if c.rcv_second { "second" } else { "first" }));
                }
                let kind = match crate::spec::canon_any(&ff[4]) {
                    RValue::Described(d, _) => match *d {
                        RValue::Ulong(0x24) => 0u8,
                        RValue::Ulong(0x25) => 1,
                        RValue::Ulong(0x26) => 2,
                        RValue::Ulong(0x27) => 3,
                        _ => 9,
                    },
                    _ => 9,
                };
                let mut id = first;
                loop {
                    match expected.get(&id) {
                        Some(k) if *k == kind => {
                            if !covered.insert(id) {
                                return Err(format!("{}: delivery {} was disposed of twice on the wire", $what, id));
                            }
                        }
                        Some(k) => return Err(format!("{}: disposition covers delivery {} with outcome kind {} but the application applied kind {}", $what, id, kind, k)),
                        None => return Err(format!("{}: disposition first={} last={} covers delivery {} which the application did not dispose of", $what, first, last, id)),
                    }
                    if id == last {
                        break;
                    }
                    id = id.wrapping_add(1);
                }
            }
            for (id, _) in expected.iter() {
                if !covered.contains(id) {
                    return Err(format!("{}: the application disposed of delivery {} but no disposition covering it was sent", $what, id));
                }
            }
        }};
    }

    for (k, op) in c.ops.iter().enumerate() {
        let what = format!("step {k} {:?}", op);
        match op {
            OpB::Deliver(n) => {
                for _ in 0..*n {
                    let tag = next_id.to_be_bytes();
                    let payload: [u8; 8] = [0x00, 0x53, 0x77, 0xa0, 3, b'a', b'b', b'c'];
                    let nframes = 1 + (c.frames % 3) as usize;
                    let cuts: Vec<usize> = match nframes {
                        1 => vec![8],
                        2 => vec![3, 8],
                        _ => vec![3, 5, 8],
                    };
                    let mut from = 0;
                    for (fi, to) in cuts.iter().enumerate() {
                        let last = fi + 1 == cuts.len();
                        let body = if fi == 0 { Peer::transfer_body(ph, Some(next_id), Some(&tag), Some(0), Some(false), !last, None, false) } else { Peer::transfer_body(ph, None, None, None, None, !last, None, false) };
                        peer.send_frame(my_ch, &body, &payload[from..*to]).await?;
                        from = *to;
                    }
                    let (dtx, drx) = oneshot::channel();
                    tx.send(CmdB::Recv(dtx)).await.map_err(|_| "app gone".to_string())?;
                    let id = match tokio::time::timeout(std::time::Duration::from_secs(10), drx).await {
                        Ok(Ok(r)) => r?,
                        _ => return Err(format!("{what}: recv did not return a delivery that arrived")),
                    };
                    if id != next_id {
                        return Err(format!("{what}: recv returned delivery-id {id}, the peer sent {next_id}"));
                    }
                    undisposed.push(id);
                    next_id = next_id.wrapping_add(1);
                }
                step!(what);
            }
            OpB::Dispose { pick, how } => {
                if undisposed.is_empty() {
                    continue;
                }
                let i = (*pick as usize) % undisposed.len();
                if i > 0 {
                    info.ooo = true;
                }
                let id = undisposed.remove(i);
                expected.insert(id, *how);
                let (dtx, drx) = oneshot::channel();
                tx.send(CmdB::Dispose(vec![id], *how, false, dtx)).await.map_err(|_| "app gone".to_string())?;
                drx.await.map_err(|_| "app dropped".to_string())??;
                step!(what);
            }
            OpB::PeerSettle { pick } => {
                // ids whose (unsettled) outcome the peer has seen and not yet settled
                let cand: Vec<u32> = covered.iter().copied().filter(|id| !peer_settled.contains(id)).collect();
                if !c.rcv_second || cand.is_empty() {
                    continue;
                }
                let id = cand[(*pick as usize) % cand.len()];
                let state = match expected.get(&id) {
                    Some(0) => Peer::accepted(),
                    Some(1) => Peer::rejected("x"),
                    Some(2) => Peer::released(),
                    _ => Peer::modified(true, false),
                };
                peer.send_frame(my_ch, &Peer::disposition_body(false, id, None, true, Some(state)), &[]).await?;
                peer_settled.insert(id);
                step!(what);
            }
            OpB::AcceptAll { m, skip } => {
                let m = (*m as usize).min(undisposed.len());
                if m == 0 {
                    continue;
                }
                let mut ids: Vec<u32> = undisposed[..m].to_vec();
                if *skip && m >= 3 {
                    ids.remove(m / 2);
                }
                info.batch = true;
                undisposed.retain(|x| !ids.contains(x));
                for id in &ids {
                    expected.insert(*id, 0);
                }
                let (dtx, drx) = oneshot::channel();
                tx.send(CmdB::Dispose(ids, 0, true, dtx)).await.map_err(|_| "app gone".to_string())?;
                drx.await.map_err(|_| "app dropped".to_string())??;
                step!(what);
            }
        }
    }
    if c.resume_at_end {
        // settled deliveries: mode first — everything disposed of; mode second — what the peer settled
        let settled: Vec<u32> = if c.rcv_second { peer_settled.iter().copied().collect() } else { covered.iter().copied().collect() };
        peer.settle().await;
        let (dtx, drx) = oneshot::channel();
        tx.send(CmdB::DetachResume(dtx)).await.map_err(|_| "app gone".to_string())?;
        let d = peer.wait_for("detach").await?;
        let closed = as_bool(&d.field(1)).unwrap_or(false);
        peer.send_frame(my_ch, &Peer::detach_body(ph, closed, None), &[]).await?;
        match tokio::time::timeout(std::time::Duration::from_secs(10), drx).await {
            Ok(Ok(Ok(()))) => {}
            Ok(Ok(Err(e))) => return Err(format!("final detach: {e}")),
            _ => return Err("final detach did not complete although the peer answered it".into()),
        }
        let a = peer.wait_for("attach").await.map_err(|e| format!("resume: no attach was sent: {e}"))?;
        // attach.unsettled (field 7): map delivery-tag -> state
        if std::env::var("VERIF_DEBUG").is_ok() { eprintln!("resume attach fields: {:?}", a.fields()); }
        let mut still: Vec<u32> = Vec::new();
        if let RValue::Map(m) = a.field(7) {
            for (k, _) in m {
                if let RValue::Binary(t) = k {
                    if t.len() == 4 {
                        still.push(u32::from_be_bytes([t[0], t[1], t[2], t[3]]));
                    }
                }
            }
        }
        for id in &settled {
            if still.contains(id) {
                return Err(format!("resume: delivery {id} is settled ({}) but the receiver still lists it in the unsettled map of its resuming attach: {:?}", if c.rcv_second { "the sender's settling disposition arrived" } else { "the receiver settled it with its disposition" }, still));
            }
        }
        info.batch |= !settled.is_empty();
    }
    drop(tx);
    let _ = (&conn, &sess);
    Ok(info)
}

// ---------------------------------------------------------------------------

fn run_sync<T>(seed: u64, f: impl std::future::Future<Output = Result<T, String>>) -> Result<T, String> {
    match simnet::run_case(seed, f).0 {
        CaseEnd::Done(r) => r,
        CaseEnd::Hang => Err(format!("HANG (virtual-time watchdog); wire so far:{}", simnet::describe_last_wire())),
    }
}

fn sig(e: &str) -> String {
    if e.contains("no settling disposition") {
        "missing-echo".into()
    } else if e.contains("resolved with") {
        "wrong-outcome".into()
    } else if e.contains("still pending") {
        "pending".into()
    } else {
        "settlement".into()
    }
}

fn run(ctx: &ShardCtx, rep: &mut Report) {
    MAX_SHRINK_ITERS.store(400, std::sync::atomic::Ordering::Relaxed);
    pt_run(ctx, rep, "sender-peer", ctx.budget(48_000, 2_000_000), case_a_strategy(), |c, obs| match guarded(|| run_sync(c.tokio_seed, run_a(c))) {
        Ok(Ok(info)) => {
            if c.rcv_second {
                obs.class("mode-second");
            }
            if info.range2 {
                obs.class("range>=2");
            }
            if info.dup_or_ooo {
                obs.class("duplicate-or-out-of-order");
            }
            if info.echoes > 0 {
                obs.class("echo-seen");
            }
            if info.range2 || c.rcv_second || info.dup_or_ooo {
                obs.nontrivial(c);
            }
            Ok(())
        }
        Ok(Err(e)) => {
            obs.signature = Some(sig(&e));
            Err(e)
        }
        Err(p) => {
            obs.signature = Some(panic_signature(&p[0]));
            Err(format!("panic: {}", p.join(" | ")))
        }
    });
    pt_run(ctx, rep, "receiver-peer", ctx.budget(30_000, 1_500_000), case_b_strategy(), |c, obs| match guarded(|| run_sync(c.tokio_seed, run_b(c))) {
        Ok(Ok(info)) => {
            if info.batch {
                obs.class("accept_all-batch");
            }
            if info.ooo {
                obs.class("out-of-order-disposal");
            }
            if info.batch || info.ooo || c.rcv_second {
                obs.nontrivial(c);
            }
            Ok(())
        }
        Ok(Err(e)) => {
            obs.signature = Some("receiver-disposition".into());
            Err(e)
        }
        Err(p) => {
            obs.signature = Some(panic_signature(&p[0]));
            Err(format!("panic: {}", p.join(" | ")))
        }
    });
    // hand-over variant: the disposition is applied while the sending task is between handing the transfer
    // to the session and continuing (schedule point)
    crate::checks::c02r::run(ctx, rep);
    // (C) two real endpoints: outcome per delivery (reuses the C01 harness)
    let open = ctx.open_findings.clone();
    pt_run(ctx, rep, "duo", ctx.budget(16_000, 800_000), c01::case_strategy(), |c, obs| {
        let c = &c01::widen_pipe(c, &open, &mut obs.excluded);
        match guarded(|| c01::run_case(c, &open)) {
            Ok(Ok(_)) => {
                if c.links.iter().any(|l| l.cfg.rcv_settle == 1) {
                    obs.class("duo:mode-second");
                    obs.nontrivial(c);
                }
                Ok(())
            }
            Ok(Err(e)) => {
                obs.signature = Some("duo".into());
                Err(e)
            }
            Err(p) => {
                obs.signature = Some(panic_signature(&p[0]));
                Err(format!("panic: {}", p.join(" | ")))
            }
        }
    });
}

fn replay(variant: &str, case_json: &Json) -> Result<(), String> {
    let v = variant.strip_suffix("!raw").unwrap_or(variant);
    match v {
        "sender-peer" => {
            let c: CaseA = serde_json::from_value(case_json.clone()).map_err(|e| format!("bad case: {e}"))?;
            run_sync(c.tokio_seed, run_a(&c)).map(|_| ())
        }
        "receiver-peer" => {
            let c: CaseB = serde_json::from_value(case_json.clone()).map_err(|e| format!("bad case: {e}"))?;
            run_sync(c.tokio_seed, run_b(&c)).map(|_| ())
        }
        "handover" => crate::checks::c02r::replay(case_json),
        _ => {
            let c: c01::Case = serde_json::from_value(case_json.clone()).map_err(|e| format!("bad case: {e}"))?;
            let open = open_ids_for("C02");
            let c = c01::widen_pipe(&c, &open, &mut vec![]);
            c01::run_case(&c, &open).map(|_| ())
        }
    }
}
