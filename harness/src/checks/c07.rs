//! C07 — session flow control: never overrun the peer's incoming window; nothing lost
use crate::driver::*;
use crate::duo;
use crate::gen;
use crate::peer::{serial_lt, Peer};
use crate::refcodec::RValue;
use crate::rframe::{self, RFrame};
use crate::simnet::{self, CaseEnd, PipeCfg};
use fe2o3_amqp::link::delivery::Sendable;
use fe2o3_amqp::types::messaging::message::__private::Serializable;
use fe2o3_amqp::types::messaging::{Body, Data, Message};
use fe2o3_amqp::types::primitives::{Binary, Value};
use fe2o3_amqp::{Connection, Receiver, Sender, Session};
use proptest::collection::vec;
use proptest::prelude::*;
use serde::{Deserialize, Serialize};
use serde_json::Value as Json;
use tokio::sync::mpsc;

pub fn meta() -> PropMeta {
    PropMeta {
        id: "C07",
        level: "exploration",
        rule: "a real client (Session::builder().next_outgoing_id(g), g incl. 0, 1, 2^31+-k, 2^32-w..2^32-1; windows from 1) with 1-2 senders and optionally a receiver talks to a scripted session peer that executes a generated history step-wise (op, wait for exact quiescence, compare): app sends, peer flows with incoming-window in {0,1,2,..} and next-incoming-id = true count minus a legal lag, echo requests, peer transfers to the endpoint's receiver. Oracle (peer-side model, serial arithmetic): every transfer frame's implicit id lies below the last advertised next-incoming-id+incoming-window; after every step the number of frames sent equals max(sent before, min(frames queued by the app, advertised limit)) (no overrun, no stall, backlog flushed as soon as the window allows); per link the payloads on the wire are a prefix of, and finally equal, the concatenated encodings of the messages sent in order (nothing lost, duplicated, reordered); every begin/flow from the endpoint reports next-outgoing-id = initial + transfer frames before it in the stream, next-incoming-id = peer's initial + frames the peer sent (between the last two quiescent counts), and the configured windows. Non-trivial: the window reached 0 with a non-empty backlog, or ids crossed 2^32; distinct by hash of the case.",
        assumptions: &[
            "step-wise execution makes 'last advertised' unambiguous (no frames crossing in flight)",
            "while KF-session-transport-split is open only single-frame messages are generated for the exact count model",
        ],
        nontrivial_floor: 0.25,
        run,
        replay,
        crashy: true,
    }
}

#[derive(Clone, Debug, Serialize, Deserialize, Hash)]
pub enum Op {
    Send { link: u8, len: u16 },
    Flow {
        window: u32,
        lag: u8,
        echo: bool,
        /// address the flow to this sending link (a link flow with echo is answered by the link, through the session)
        #[serde(default)]
        link: Option<u8>,
        /// leave next-incoming-id unset (legal: the window then counts from the endpoint's initial outgoing id)
        #[serde(default)]
        nii_unset: bool,
        /// (link flows) ask the sending link to drain
        #[serde(default)]
        drain: bool,
    },
    PeerTransfer { len: u16 },
}

#[derive(Clone, Debug, Serialize, Deserialize, Hash)]
pub struct Case {
    pub n0: u32,
    pub ep_in_win: u32,
    pub ep_out_win: u32,
    pub p0: u32,
    pub w0: u32,
    pub peer_mfs: u32,
    pub two_senders: bool,
    pub with_receiver: bool,
    /// max-message-size the peer puts into its attach (the sending link then splits deliveries
    /// into transfers of at most this many payload bytes, each accounted for by the session)
    #[serde(default)]
    pub link_mms: Option<u16>,
    pub ops: Vec<Op>,
    pub tokio_seed: u64,
    pub choices: Vec<u8>,
    pub pipe: PipeCfg,
}

fn op() -> BoxedStrategy<Op> {
    prop_oneof![
        5 => (0u8..2, prop_oneof![Just(0u16), 1u16..300, 300u16..2000]).prop_map(|(link, len)| Op::Send { link, len }),
        4 => (prop_oneof![3 => Just(0u32), 3 => Just(1u32), 2 => Just(2u32), 2 => 3u32..8, 1 => Just(1000u32)], prop_oneof![3 => Just(0u8), 1 => 1u8..4], any::<bool>(), proptest::option::weighted(0.35, 0u8..2), prop::bool::weighted(0.15), prop::bool::weighted(0.3)).prop_map(|(window, lag, echo, link, nii_unset, drain)| Op::Flow { window, lag, echo, link, nii_unset, drain: drain && link.is_some() }),
        2 => (0u16..200).prop_map(|len| Op::PeerTransfer { len }),
    ]
    .boxed()
}

pub fn case_strategy() -> BoxedStrategy<Case> {
    (
        (duo::next_id(), duo::window(), duo::window(), duo::next_id(), prop_oneof![Just(0u32), Just(1), Just(2), Just(3), Just(10)]),
        prop_oneof![Just(512u32), Just(4096), Just(65536)],
        any::<bool>(),
        (any::<bool>(), proptest::option::weighted(0.4, prop_oneof![Just(32u16), Just(100), 16u16..400])),
        vec(op(), 1..40),
        any::<u64>(),
        gen::choices_bytes(),
        simnet::strat::pipe_cfg(),
    )
        .prop_map(|((n0, ep_in_win, ep_out_win, p0, w0), peer_mfs, two_senders, (with_receiver, link_mms), ops, tokio_seed, choices, pipe)| Case {
            n0,
            ep_in_win,
            ep_out_win,
            p0,
            w0,
            peer_mfs,
            two_senders,
            with_receiver,
            link_mms,
            ops,
            tokio_seed,
            choices,
            pipe: PipeCfg { cap: 1 << 22, ..pipe },
        })
        .boxed()
}

type Msg = Message<Body<Value>>;

fn make_msg(link: u8, seq: u32, len: usize) -> Msg {
    let mut v = vec![link, (seq & 0xff) as u8, (seq >> 8) as u8];
    v.extend((0..len).map(|i| (i % 253) as u8 ^ link));
    Message::builder().data(Binary::from(v)).build().map_body(|d: Data| Body::Data(vec![d].into()))
}

fn encode_msg(m: &Msg) -> Vec<u8> {
    serde_amqp::to_vec(&Serializable(m)).expect("encode")
}

enum Cmd {
    Send(u8, Msg, tokio::sync::oneshot::Sender<Result<(), String>>),
}

async fn sender_app(mut senders: Vec<Sender>, mut rx: mpsc::Receiver<Cmd>) {
    let mut futs = Vec::new();
    while let Some(cmd) = rx.recv().await {
        match cmd {
            Cmd::Send(link, m, done) => {
                let idx = (link as usize) % senders.len();
                let sendable: Sendable<Body<Value>> = Sendable::builder().message(m).settled(true).build();
                let r = senders[idx].send_batchable(sendable).await;
                match r {
                    Ok(f) => {
                        futs.push(f);
                        let _ = done.send(Ok(()));
                    }
                    Err(e) => {
                        let _ = done.send(Err(format!("send_batchable failed: {e:?}")));
                    }
                }
            }
        }
    }
    drop(futs);
    // keep the links alive until the case ends
    std::future::pending::<()>().await;
}

async fn receiver_app(mut r: Receiver, count: std::sync::Arc<std::sync::atomic::AtomicUsize>) {
    loop {
        match r.recv::<Body<Value>>().await {
            Ok(_d) => {
                count.fetch_add(1, std::sync::atomic::Ordering::SeqCst);
            }
            Err(_) => break,
        }
    }
    std::future::pending::<()>().await;
}

pub struct Info {
    pub link_split: bool,
    pub backlog_at_zero: bool,
    pub crossed_wrap: bool,
    pub flows_checked: usize,
}

fn u(v: &RValue) -> Option<u32> {
    rframe::uint(v)
}

pub async fn run_async(c: &Case, split_open: bool) -> Result<Info, String> {
    let (a, b, _ctl) = simnet::pipe(c.pipe.clone());
    let mut peer = Peer::new(b, c.choices.clone());
    let open_fut = Connection::builder().container_id("verif-client").max_frame_size(65536u32).open_with_stream(a);
    let (conn, po) = tokio::join!(open_fut, peer.server_open(Some(c.peer_mfs), None, None));
    let mut conn = conn.map_err(|e| format!("client open failed: {e:?}"))?;
    po?;
    let my_ch: u16 = 7;
    let peer_out_win = 1000u32;
    let sb = Session::builder().next_outgoing_id(c.n0).incoming_window(c.ep_in_win).outgoing_window(c.ep_out_win);
    let (sess, pb) = tokio::join!(sb.begin(&mut conn), peer.accept_begin(my_ch, c.p0, c.w0, peer_out_win));
    let mut sess = sess.map_err(|e| format!("client begin failed: {e:?}"))?;
    let (ep_ch, begin) = pb?;
    let bf = begin.fields();
    if u(&bf[1]) != Some(c.n0) {
        return Err(format!("begin reports next-outgoing-id {:?}, configured {}", bf[1], c.n0));
    }
    if u(&bf[2]) != Some(c.ep_in_win) || u(&bf[3]) != Some(c.ep_out_win) {
        return Err(format!("begin reports windows {:?}/{:?}, configured {}/{}", bf[2], bf[3], c.ep_in_win, c.ep_out_win));
    }

    // model state (offsets from n0 / p0)
    let mut sent: u64 = 0; // transfer frames seen from the endpoint
    let mut app_total: u64 = 0; // frames queued by the app (single-frame messages)
    let mut limit: u64 = c.w0 as u64; // advertised nii+window as offset from n0
    let mut peer_sent: u64 = 0; // transfer frames the peer sent
    let mut peer_sent_settled: u64 = 0;

    // links
    let n_senders = if c.two_senders { 2 } else { 1 };
    let mut senders = Vec::new();
    // handle the peer picked for each endpoint link (peer's own handles), and endpoint handle -> link index
    let mut ep_handle_of_link: Vec<u32> = Vec::new();
    let mut peer_handles: Vec<u32> = Vec::new();
    for i in 0..n_senders {
        let name = format!("s{i}");
        let ph = 10 + 7 * i as u32;
        let att = Sender::builder().name(name.clone()).target("q").attach(&mut sess);
        let pa = async {
            let a = peer.expect_frame("attach").await?;
            let eh = u(&a.field(1)).ok_or("attach without handle")?;
            peer.send_frame(my_ch, &Peer::attach_body(&name, ph, true, None, None, None, c.link_mms.map(|m| m as u64), false), &[]).await?;
            // ample link credit; session fields restate the current window
            peer.send_frame(my_ch, &Peer::flow_body(Some(c.n0), c.w0, c.p0, peer_out_win, Some(ph), Some(0), Some(100_000), false, false), &[]).await?;
            Ok::<u32, String>(eh)
        };
        let (s, eh) = tokio::join!(att, pa);
        senders.push(s.map_err(|e| format!("sender attach failed: {e:?}"))?);
        ep_handle_of_link.push(eh?);
        peer_handles.push(ph);
    }
    let recv_count = std::sync::Arc::new(std::sync::atomic::AtomicUsize::new(0));
    let mut peer_recv_handle = None;
    if c.with_receiver {
        let ph = 99u32;
        let att = Receiver::builder().name("r0").source("q").attach(&mut sess);
        let pa = async {
            let _a = peer.expect_frame("attach").await?;
            peer.send_frame(my_ch, &Peer::attach_body("r0", ph, false, None, None, Some(0), None, false), &[]).await?;
            Ok::<(), String>(())
        };
        let (r, x) = tokio::join!(att, pa);
        let r = r.map_err(|e| format!("receiver attach failed: {e:?}"))?;
        x?;
        tokio::spawn(receiver_app(r, recv_count.clone()));
        peer_recv_handle = Some(ph);
    }
    let (tx, rx) = mpsc::channel(64);
    tokio::spawn(sender_app(senders, rx));

    let mut info = Info { link_split: false, backlog_at_zero: false, crossed_wrap: false, flows_checked: 0 };
    let mut sent_per_link: Vec<Vec<Vec<u8>>> = vec![Vec::new(); n_senders];
    let mut wire_per_link: Vec<Vec<u8>> = vec![Vec::new(); n_senders];
    let mut seq_per_link: Vec<u32> = vec![0; n_senders];
    let mut flow_handles_in_step: Vec<Option<u32>> = Vec::new();
    let mut drain_answers: Vec<(u32, u32)> = Vec::new();
    // deliveries completed on each link (transfers with more=false), as the peer counts them
    let mut deliveries_per_link: Vec<u32> = vec![0; n_senders];
    let max_len = (c.peer_mfs as usize).saturating_sub(120);

    // one step: settle, consume new frames, run the model checks
    macro_rules! step {
        ($what:expr) => {{
            let frames: Vec<RFrame> = peer.new_frames().await;
            if let Some(e) = &peer.protocol_error {
                return Err(format!("endpoint wrote bytes that do not parse as frames: {e}"));
            }
            let sent_before = sent;
            flow_handles_in_step.clear();
            drain_answers.clear();
            for f in &frames {
                match f.name() {
                    "transfer" => {
                        if f.channel != ep_ch {
                            return Err(format!("transfer on channel {} (session is on {})", f.channel, ep_ch));
                        }
                        // implicit transfer-id of this frame
                        let id = c.n0.wrapping_add(sent as u32);
                        let lim = c.n0.wrapping_add(limit as u32);
                        if !(sent < limit) || !serial_lt(id, lim) {
                            return Err(format!(
                                "{}: transfer frame with transfer-id {} sent although the peer last advertised next-incoming-id+incoming-window = {} (frame #{} of the session, limit offset {})",
                                $what, id, lim, sent, limit
                            ));
                        }
                        sent += 1;
                        if (c.n0 as u64 + sent) > u32::MAX as u64 {
                            info.crossed_wrap = true;
                        }
                        let h = u(&f.field(0)).ok_or("transfer without handle")?;
                        let li = ep_handle_of_link.iter().position(|x| *x == h).ok_or_else(|| format!("transfer on unknown handle {h}"))?;
                        wire_per_link[li].extend_from_slice(&f.payload);
                        if !rframe::boolean(&f.field(5)).unwrap_or(false) {
                            deliveries_per_link[li] = deliveries_per_link[li].wrapping_add(1);
                        }
                    }
                    "flow" => {
                        let ff = f.fields();
                        let noi = u(&ff[2]).ok_or("flow without next-outgoing-id")?;
                        let want = c.n0.wrapping_add(sent as u32);
                        if noi != want {
                            return Err(format!("{}: flow reports next-outgoing-id {} but {} transfer frames were sent since the begin (expected {})", $what, noi, sent, want));
                        }
                        if let Some(nii) = u(&ff[0]) {
                            let lo = c.p0.wrapping_add(peer_sent_settled as u32);
                            let hi = c.p0.wrapping_add(peer_sent as u32);
                            if !(nii == lo || nii == hi || (serial_lt(lo, nii) && serial_lt(nii, hi))) {
                                return Err(format!("{}: flow reports next-incoming-id {} but the peer's transfers put it in [{}, {}]", $what, nii, lo, hi));
                            }
                        } else {
                            return Err(format!("{}: flow without next-incoming-id after the begin exchange", $what));
                        }
                        if u(&ff[1]) != Some(c.ep_in_win) || u(&ff[3]) != Some(c.ep_out_win) {
                            return Err(format!("{}: flow reports windows {:?}/{:?}, configured {}/{}", $what, ff[1], ff[3], c.ep_in_win, c.ep_out_win));
                        }
                        info.flows_checked += 1;
                        flow_handles_in_step.push(u(&ff[4]));
                        if let Some(h) = u(&ff[4]) {
                            if let Some(li) = ep_handle_of_link.iter().position(|x| *x == h) {
                                // the receiver takes the sender's delivery-count from its flows
                                if let Some(dc) = u(&ff[5]) {
                                    deliveries_per_link[li] = dc;
                                }
                                drain_answers.push((h, u(&ff[6]).unwrap_or(0)));
                            }
                        }
                    }
                    "disposition" => {}
                    other => return Err(format!("{}: unexpected {} frame from the endpoint", $what, other)),
                }
            }
            peer_sent_settled = peer_sent;
            let expected = sent_before.max(app_total.min(limit));
            if sent != expected {
                return Err(format!(
                    "{}: {} transfer frames on the wire at quiescence, expected {} (queued by the app {}, advertised limit {}, sent before this step {}) — {}",
                    $what,
                    sent,
                    expected,
                    app_total,
                    limit,
                    sent_before,
                    if sent < expected { "held-back transfers were not released although the window allows them" } else { "more frames than queued" }
                ));
            }
            if limit <= sent && app_total > sent {
                info.backlog_at_zero = true;
            }
            // conservation / order: wire is a prefix of what was sent, per link
            for li in 0..n_senders {
                let all: Vec<u8> = sent_per_link[li].iter().flat_map(|m| m.iter().copied()).collect();
                if !all.starts_with(&wire_per_link[li]) {
                    let pos = all.iter().zip(wire_per_link[li].iter()).position(|(a, b)| a != b);
                    return Err(format!("{}: payload bytes on link {} are not a prefix of the messages sent in order (first difference at byte {:?}, {} bytes on the wire, {} sent)", $what, li, pos, wire_per_link[li].len(), all.len()));
                }
            }
        }};
    }

    step!("after attach");
    for (k, op) in c.ops.iter().enumerate() {
        let what = format!("step {k} {:?}", op);
        match op {
            Op::Send { link, len } => {
                let li = (*link as usize) % n_senders;
                // with link-level splitting every chunk fits a frame; otherwise keep the message in one frame
                let len = if c.link_mms.is_some() || !split_open { *len as usize } else { (*len as usize).min(max_len) };
                let m = make_msg(li as u8, seq_per_link[li], len);
                seq_per_link[li] += 1;
                let enc = encode_msg(&m);
                let frames_needed = match c.link_mms {
                    Some(mm) if enc.len() > mm as usize => ((enc.len() + mm as usize - 1) / mm as usize) as u64,
                    Some(_) => 1,
                    None => {
                        if enc.len() + 60 <= c.peer_mfs as usize {
                            1
                        } else {
                            (enc.len() / (c.peer_mfs as usize - 60)) as u64 + 1
                        }
                    }
                };
                if frames_needed > 1 {
                    info.link_split = true;
                }
                sent_per_link[li].push(enc);
                let (dtx, drx) = tokio::sync::oneshot::channel();
                tx.send(Cmd::Send(li as u8, m, dtx)).await.map_err(|_| "app task gone".to_string())?;
                match tokio::time::timeout(std::time::Duration::from_secs(5), drx).await {
                    Ok(Ok(r)) => r?,
                    Ok(Err(_)) => return Err(format!("{what}: app task dropped the reply")),
                    Err(_) => return Err(format!("{what}: send_batchable did not return although link credit is ample (handing the transfer to the session blocked)")),
                }
                app_total += frames_needed;
            }
            Op::Flow { window, lag, echo, link, nii_unset, drain } => {
                let lag = (*lag as u64).min(sent);
                let nii_off = sent - lag;
                // unset next-incoming-id: the window counts from the endpoint's initial outgoing id; only
                // generated while that still covers what was sent
                let unset = *nii_unset && (*window as u64) >= sent;
                limit = if unset { *window as u64 } else { nii_off + *window as u64 };
                let nii = if unset { None } else { Some(c.n0.wrapping_add(nii_off as u32)) };
                let (h, dc, lc) = match link {
                    Some(l) => {
                        let li = (*l as usize) % n_senders;
                        (Some(peer_handles[li]), Some(deliveries_per_link[li]), Some(100_000u32))
                    }
                    None => (None, None, None),
                };
                let body = Peer::flow_body(nii, *window, c.p0.wrapping_add(peer_sent as u32), peer_out_win, h, dc, lc, *drain && h.is_some(), *echo);
                peer.send_frame(my_ch, &body, &[]).await?;
            }
            Op::PeerTransfer { len } => {
                if let Some(ph) = peer_recv_handle {
                    let mut payload = vec![0x00, 0x53, 0x77, 0xb0];
                    payload.extend_from_slice(&(*len as u32).to_be_bytes());
                    payload.extend(std::iter::repeat(0x2a).take(*len as usize));
                    let tag = (peer_sent as u32).to_be_bytes();
                    let body = Peer::transfer_body(ph, Some(peer_sent as u32), Some(&tag), Some(0), Some(true), false, None, false);
                    peer.send_frame(my_ch, &body, &payload).await?;
                    peer_sent += 1;
                }
            }
        }
        step!(what);
        // a drain request on a link is answered with a flow showing zero credit for that link (C08),
        // also when the same flow released transfers held back by the session window
        if let Op::Flow { drain: true, link: Some(l), .. } = op {
            let li = (*l as usize) % n_senders;
            let eh = ep_handle_of_link[li];
            match drain_answers.iter().find(|(h, _)| *h == eh) {
                Some((_, credit)) if *credit == 0 => {}
                Some((_, credit)) => return Err(format!("{what}: the drain request on link {li} was answered with link-credit {credit} instead of 0")),
                None => return Err(format!("{what}: the peer asked link {li} (handle {eh}) to drain but no flow for that link was sent (flows sent for handles {:?})", flow_handles_in_step)),
            }
            // grant ample credit again so that the session window stays the only limit
            let body = Peer::flow_body(Some(c.n0.wrapping_add(sent as u32)), (limit - sent.min(limit)) as u32, c.p0.wrapping_add(peer_sent as u32), peer_out_win, Some(peer_handles[li]), Some(deliveries_per_link[li]), Some(100_000), false, false);
            peer.send_frame(my_ch, &body, &[]).await?;
            limit = sent + (limit - sent.min(limit));
            step!(format!("{what} (credit granted again)"));
        }
    }
    // reopen the window completely: everything queued must come out
    limit = sent + 1_000_000;
    let body = Peer::flow_body(Some(c.n0.wrapping_add(sent as u32)), 1_000_000, c.p0.wrapping_add(peer_sent as u32), peer_out_win, None, None, None, false, true);
    peer.send_frame(my_ch, &body, &[]).await?;
    step!("final flow reopening the window");
    for li in 0..n_senders {
        let all: Vec<u8> = sent_per_link[li].iter().flat_map(|m| m.iter().copied()).collect();
        if all != wire_per_link[li] {
            return Err(format!("after the window was reopened link {} carried {} of {} payload bytes: transfers were lost or withheld", li, wire_per_link[li].len(), all.len()));
        }
    }
    if c.with_receiver && recv_count.load(std::sync::atomic::Ordering::SeqCst) as u64 != peer_sent {
        return Err(format!("the endpoint's receiver returned {} deliveries, the peer sent {}", recv_count.load(std::sync::atomic::Ordering::SeqCst), peer_sent));
    }
    drop(tx);
    let _ = (&mut sess, &mut conn);
    Ok(info)
}

pub fn run_case(c: &Case, split_open: bool) -> Result<Info, String> {
    match simnet::run_case(c.tokio_seed, run_async(c, split_open)).0 {
        CaseEnd::Done(r) => r,
        CaseEnd::Hang => Err(format!("HANG (virtual-time watchdog); wire so far:{}", simnet::describe_last_wire())),
    }
}

fn case(ctx: &ShardCtx, c: &Case, obs: &mut Obs) -> Result<(), String> {
    let split_open = ctx.is_open("KF-session-transport-split");
    if split_open && c.link_mms.is_none() && c.ops.iter().any(|o| matches!(o, Op::Send { len, .. } if *len as usize > (c.peer_mfs as usize).saturating_sub(120))) {
        obs.excluded.push("KF-session-transport-split".into());
    }
    match guarded(|| run_case(c, split_open)) {
        Ok(Ok(info)) => {
            if info.backlog_at_zero {
                obs.class("window-closed-with-backlog");
            }
            if info.crossed_wrap {
                obs.class("ids-crossed-2^32");
            }
            if info.flows_checked > 0 {
                obs.class("endpoint-flows-checked");
            }
            if info.link_split {
                obs.class("link-level-split-delivery");
            }
            if info.backlog_at_zero || info.crossed_wrap {
                obs.nontrivial(c);
            }
            Ok(())
        }
        Ok(Err(e)) => {
            obs.signature = Some(if e.contains("next-outgoing-id") { "counters".into() } else if e.contains("sent although") { "overrun".into() } else { "flow-control".into() });
            Err(e)
        }
        Err(p) => {
            obs.signature = Some(panic_signature(&p[0]));
            Err(format!("panic: {}", p.join(" | ")))
        }
    }
}

fn run(ctx: &ShardCtx, rep: &mut Report) {
    MAX_SHRINK_ITERS.store(400, std::sync::atomic::Ordering::Relaxed);
    pt_run(ctx, rep, "session-peer", ctx.budget(100_000, 4_000_000), case_strategy(), |c, o| case(ctx, c, o));
    pt_run(ctx, rep, "listener", ctx.budget(30_000, 1_500_000), super::c07l::case_strategy(), |c, o| super::c07l::case(c, o));
    // a transactional listener session (control link acceptor installed): transfers of every kind — declare and
    // discharge on the control link, transactional posts, plain transfers — count as received frames
    pt_run(ctx, rep, "txn-listener", ctx.budget(20_000, 1_000_000), txn_listener_strategy(), |c, o| txn_listener_case(c, o));
}

fn txn_listener_strategy() -> BoxedStrategy<super::c18::CaseR> {
    (super::c18::case_r_strategy(), prop_oneof![Just(2u32), Just(4), Just(8), Just(64)]).prop_map(|(mut c, w)| {
        c.window_probe = w;
        c
    }).boxed()
}

fn txn_listener_run(c: &super::c18::CaseR) -> Result<bool, String> {
    let posts = c.ops.iter().filter(|o| matches!(o, super::c18::OpR::Post { .. })).count();
    match crate::simnet::run_case(c.tokio_seed, super::c18::run_resource(c)).0 {
        crate::simnet::CaseEnd::Done(Ok(_)) => Ok(posts > 0),
        // only the window clause belongs to this property; the transaction semantics are C18's
        crate::simnet::CaseEnd::Done(Err(e)) if e.starts_with("C07:") => Err(e),
        crate::simnet::CaseEnd::Done(Err(_)) => Ok(false),
        crate::simnet::CaseEnd::Hang => Ok(false),
    }
}

fn txn_listener_case(c: &super::c18::CaseR, obs: &mut Obs) -> Result<(), String> {
    match guarded(|| txn_listener_run(c)) {
        Ok(Ok(nt)) => {
            obs.class("txn-listener");
            if nt {
                obs.nontrivial(c);
            }
            Ok(())
        }
        Ok(Err(e)) => {
            obs.signature = Some("txn-listener-next-incoming-id".into());
            Err(e)
        }
        Err(p) => {
            obs.signature = Some(panic_signature(&p[0]));
            Err(format!("panic: {}", p.join(" | ")))
        }
    }
}

fn replay(variant: &str, case_json: &Json) -> Result<(), String> {
    if variant.trim_end_matches("!raw") == "txn-listener" {
        let c: super::c18::CaseR = serde_json::from_value(case_json.clone()).map_err(|e| format!("bad case: {e}"))?;
        return txn_listener_run(&c).map(|_| ());
    }
    if variant.trim_end_matches("!raw") == "listener" {
        let c: super::c07l::Case = serde_json::from_value(case_json.clone()).map_err(|e| format!("bad case: {e}"))?;
        return super::c07l::run_case(&c).map(|_| ());
    }
    let raw = variant.ends_with("!raw");
    let c: Case = serde_json::from_value(case_json.clone()).map_err(|e| format!("bad case: {e}"))?;
    let split_open = !raw && open_ids_for("C07").iter().any(|o| o == "KF-session-transport-split");
    run_case(&c, split_open).map(|_| ())
}
