//! C13 — session and link lifecycles: begin/end and attach/detach handshakes complete
use crate::driver::*;
use crate::gen;
use crate::peer::{self, as_bool, as_uint, ClientRig, Peer, RigCfg};
use crate::refcodec::RValue;
use crate::rframe::RFrame;
use crate::simnet::{self, CaseEnd, PipeCfg};
use fe2o3_amqp::link::delivery::Sendable;
use fe2o3_amqp::link::DetachError;
use fe2o3_amqp::session::Error as SessError;
use fe2o3_amqp::types::definitions::{self, AmqpError};
use fe2o3_amqp::types::messaging::Body;
use fe2o3_amqp::types::primitives::Value;
use fe2o3_amqp::{Receiver, Sender, Session};
use proptest::collection::vec;
use proptest::prelude::*;
use serde::{Deserialize, Serialize};
use serde_json::Value as Json;
use std::collections::{BTreeMap, BTreeSet};

pub fn meta() -> PropMeta {
    PropMeta {
        id: "C13",
        level: "exploration",
        rule: "a real client with two sessions and up to 4 links executes a generated script of local calls (attach sender/receiver, pre-settled send, detach, close, close_with_error, end, end_with_error, drop of a link or session handle, in any order) against a scripted peer whose answers are generated too (attach refused by an immediate closing detach with error, detach/close at any time with or without error, end at any time with or without error, answers delayed past a quiescent point, error carried by the answer), step-wise. Oracle: per channel one begin, at most one end, nothing afterwards; per handle attach, at most one detach per attach, no transfer/flow for the handle afterwards; a peer end is answered by an end; a peer detach(closed=c) is answered by detach(closed=c) no later than the application's next operation on that link; local end/detach/close are still pending at a quiescent point while the peer is silent and complete once it answers, with the peer's error if it sent one; ending a session or dropping a handle puts the frames queued before it ahead of the end/detach; the second session keeps working and no end/close is emitted for the enclosing scope. Non-trivial: >=2 links with interleaved lifecycle events and >=1 peer-initiated detach/end; distinct by hash of the case.",
        assumptions: &["a silent peer legitimately keeps end()/detach()/close() pending", "exact error variants are not asserted, only that the peer's condition is carried"],
        nontrivial_floor: 0.2,
        run,
        replay,
        crashy: true,
    }
}

#[derive(Clone, Debug, Serialize, Deserialize, Hash, PartialEq)]
pub enum Ev {
    AttachSender { refuse: bool },
    AttachReceiver { refuse: bool },
    Send { link: u8 },
    /// local close of a link; the peer answers after a quiescent point, optionally with an error
    Close { link: u8, with_error: bool, peer_err: bool },
    /// local non-closing detach; `crossing`: the peer answers it with a *closing* detach, so the endpoint has
    /// to re-attach and then close (spec 2.6.6)
    Detach {
        link: u8,
        peer_err: bool,
        #[serde(default)]
        crossing: bool,
    },
    DropLink { link: u8 },
    /// peer-initiated detach; afterwards the application performs its next operation on the link
    PeerDetach {
        link: u8,
        closed: bool,
        err: bool,
        /// what the application does next on the link: 0 send/recv, 1 on_detach() then close()/detach() in kind,
        /// 2 close() directly, 3 drop the handle
        #[serde(default)]
        then: u8,
    },
    /// local close() that the peer never answers; the future is dropped after a quiescent point
    CloseUnanswered { link: u8 },
    EndSession { with_error: bool, peer_err: bool },
    PeerEnd {
        err: bool,
        /// the application queues this many pre-settled sends in the same instant the peer's end is written
        #[serde(default)]
        busy: u8,
    },
    /// the peer sends `count` violating frames back to back: for a handle that is not attached (0 flow, 1 transfer,
    /// 2 detach), or a duplicate attach (3: the name of an attached link on a new handle, 4: a new name on a handle in use)
    PeerUnattached { kind: u8, count: u8 },
    DropSession,
}

#[derive(Clone, Debug, Serialize, Deserialize, Hash)]
pub struct Case {
    pub script: Vec<Ev>,
    pub tokio_seed: u64,
    pub choices: Vec<u8>,
    pub pipe: PipeCfg,
}

fn ev() -> BoxedStrategy<Ev> {
    prop_oneof![
        4 => prop::bool::weighted(0.2).prop_map(|refuse| Ev::AttachSender { refuse }),
        3 => prop::bool::weighted(0.2).prop_map(|refuse| Ev::AttachReceiver { refuse }),
        4 => (0u8..4).prop_map(|link| Ev::Send { link }),
        3 => (0u8..4, any::<bool>(), any::<bool>()).prop_map(|(link, with_error, peer_err)| Ev::Close { link, with_error, peer_err }),
        3 => (0u8..4, any::<bool>(), prop::bool::weighted(0.35)).prop_map(|(link, peer_err, crossing)| Ev::Detach { link, peer_err, crossing: crossing && !peer_err }),
        2 => (0u8..4).prop_map(|link| Ev::DropLink { link }),
        5 => (0u8..4, any::<bool>(), any::<bool>(), 0u8..4).prop_map(|(link, closed, err, then)| Ev::PeerDetach { link, closed, err, then }),
        1 => (0u8..4).prop_map(|link| Ev::CloseUnanswered { link }),
        1 => (any::<bool>(), any::<bool>()).prop_map(|(with_error, peer_err)| Ev::EndSession { with_error, peer_err }),
        2 => (any::<bool>(), prop_oneof![2 => Just(0u8), 1 => Just(3u8), 1 => Just(40u8)]).prop_map(|(err, busy)| Ev::PeerEnd { err, busy }),
        1 => (0u8..5, 1u8..4).prop_map(|(kind, count)| Ev::PeerUnattached { kind, count }),
        1 => Just(Ev::DropSession),
    ]
    .boxed()
}

pub fn case_strategy() -> BoxedStrategy<Case> {
    (vec(ev(), 1..14), any::<u64>(), gen::choices_bytes(), simnet::strat::pipe_cfg())
        .prop_map(|(mut script, tokio_seed, choices, pipe)| {
            let mut pre = vec![Ev::AttachSender { refuse: false }, Ev::AttachReceiver { refuse: false }];
            pre.append(&mut script);
            Case { script: pre, tokio_seed, choices, pipe: PipeCfg { cap: 1 << 22, ..pipe } }
        })
        .boxed()
}

enum LinkH {
    S(Sender),
    R(Receiver),
}

struct L {
    h: Option<LinkH>,
    ep_handle: u32,
    peer_handle: u32,
    name: String,
}

/// automaton over the endpoint's frames on one connection
#[derive(Default)]
struct Trace {
    begun: BTreeSet<u16>,
    ended: BTreeSet<u16>,
    attached: BTreeMap<(u16, u32), String>,
    detached_once: BTreeSet<(u16, u32, String)>,
}

impl Trace {
    fn on(&mut self, f: &RFrame) -> Result<(), String> {
        let ch = f.channel;
        match f.name() {
            "open" | "close" | "empty" => return Ok(()),
            "begin" => {
                if self.begun.contains(&ch) && !self.ended.contains(&ch) {
                    return Err(format!("second begin on channel {ch}"));
                }
                self.begun.insert(ch);
                self.ended.remove(&ch);
                return Ok(());
            }
            _ => {}
        }
        if self.ended.contains(&ch) {
            return Err(format!("a {} frame was sent on channel {ch} after the session's end", f.name()));
        }
        if !self.begun.contains(&ch) {
            return Err(format!("a {} frame on channel {ch} before any begin", f.name()));
        }
        match f.name() {
            "end" => {
                self.ended.insert(ch);
                self.attached.retain(|(c, _), _| *c != ch);
            }
            "attach" => {
                let h = as_uint(&f.field(1)).ok_or("attach without handle")?;
                let name = match f.field(0) {
                    RValue::Str(s) => s,
                    _ => String::new(),
                };
                if self.attached.contains_key(&(ch, h)) {
                    return Err(format!("attach on handle {h} which is still attached"));
                }
                self.attached.insert((ch, h), name);
            }
            "detach" => {
                let h = as_uint(&f.field(0)).ok_or("detach without handle")?;
                if self.attached.remove(&(ch, h)).is_none() {
                    return Err(format!("a second detach (or a detach without attach) for handle {h} on channel {ch}"));
                }
            }
            "transfer" | "flow" => {
                let idx = if f.name() == "transfer" { 0 } else { 4 };
                if let Some(h) = as_uint(&f.field(idx)) {
                    if !self.attached.contains_key(&(ch, h)) {
                        return Err(format!("a {} frame for handle {h} on channel {ch} after its detach (or before its attach)", f.name()));
                    }
                }
            }
            _ => {}
        }
        Ok(())
    }
}

/// detach frames for (channel, handle) sent after the most recent attach on that handle
fn detaches_since_attach(frames: &[RFrame], ch: u16, h: u32) -> Vec<RFrame> {
    let start = frames.iter().rposition(|f| f.name() == "attach" && f.channel == ch && as_uint(&f.field(1)) == Some(h)).unwrap_or(0);
    frames[start..].iter().filter(|f| f.name() == "detach" && f.channel == ch && as_uint(&f.field(0)) == Some(h)).cloned().collect()
}

fn err_cond(v: &RValue) -> Option<String> {
    match v {
        RValue::Described(_, l) => match &**l {
            RValue::List(f) => match f.first() {
                Some(RValue::Sym(s)) => Some(s.clone()),
                _ => None,
            },
            _ => None,
        },
        _ => None,
    }
}

pub struct Info {
    pub peer_initiated: bool,
    pub links: usize,
    pub pending_checked: usize,
}

const PEER_COND: &str = "amqp:resource-deleted";

fn carries_peer_cond(dbg: &str) -> bool {
    dbg.contains("ResourceDeleted")
}

pub async fn run_async(c: &Case, kf_close_open: bool, excluded: &std::cell::Cell<u32>) -> Result<Info, String> {
    let cfg = RigCfg { pipe: c.pipe.clone(), choices: c.choices.clone(), ..RigCfg::default() };
    let ClientRig { mut conn, sess, mut peer, my_ch, ep_ch, .. } = peer::client_rig(cfg).await?;
    let mut sess = Some(sess);
    // a second session that must survive everything that happens on the first
    let (s2, pb) = tokio::join!(Session::begin(&mut conn), peer.accept_begin(9, 0, 100_000, 100_000));
    let mut s2 = s2.map_err(|e| format!("second begin failed: {e:?}"))?;
    let (ep_ch2, _) = pb?;
    let mut links: Vec<L> = Vec::new();
    let mut info = Info { peer_initiated: false, links: 0, pending_checked: 0 };
    let mut next_ph = 100u32;
    let mut session_over = false;
    let peer_err_body = || Some(Peer::error_body(PEER_COND, Some("peer-supplied")));

    macro_rules! live {
        ($sel:expr) => {{
            let idx: Vec<usize> = links.iter().enumerate().filter(|(_, l)| l.h.is_some()).map(|(i, _)| i).collect();
            if idx.is_empty() {
                None
            } else {
                Some(idx[($sel as usize) % idx.len()])
            }
        }};
    }

    for (k, ev) in c.script.iter().enumerate() {
        if session_over {
            break;
        }
        let what = format!("step {k} {:?}", ev);
        let s = sess.as_mut().unwrap();
        match ev {
            Ev::AttachSender { refuse } | Ev::AttachReceiver { refuse } => {
                if links.iter().filter(|l| l.h.is_some()).count() >= 4 {
                    continue;
                }
                let is_sender = matches!(ev, Ev::AttachSender { .. });
                let name = format!("l{}", links.len());
                let ph = next_ph;
                next_ph += 13;
                let n2 = name.clone();
                let refuse = *refuse;
                let links_before = links.len();
                let pa = async {
                    let a = peer.wait_for("attach").await?;
                    if refuse {
                        // spec 2.6.3: a refused link is attached with a null terminus and immediately closed
                        let mut att = Peer::attach_body(&n2, ph, is_sender, None, None, if is_sender { None } else { Some(0) }, None, false);
                        if let RValue::Described(_, l) = &mut att {
                            if let RValue::List(f) = &mut **l {
                                let idx = if is_sender { 6 } else { 5 };
                                f[idx] = RValue::Null;
                            }
                        }
                        peer.send_frame(my_ch, &att, &[]).await?;
                        peer.send_frame(my_ch, &Peer::detach_body(ph, true, peer_err_body()), &[]).await?;
                    } else {
                        peer.send_frame(my_ch, &Peer::attach_body(&n2, ph, is_sender, None, None, if is_sender { None } else { Some(0) }, None, false), &[]).await?;
                        if is_sender {
                            peer.send_frame(my_ch, &Peer::flow_body(Some(0), 100_000, 0, 100_000, Some(ph), Some(0), Some(1000), false, false), &[]).await?;
                        }
                    }
                    Ok::<RFrame, String>(a)
                };
                if is_sender {
                    let (r, a) = tokio::join!(tokio::time::timeout(std::time::Duration::from_secs(30), Sender::builder().name(name.clone()).target("q").attach(s)), pa);
                    let a = a.map_err(|e| format!("{what}: {e}"))?;
                    let eh = as_uint(&a.field(1)).ok_or("attach without handle")?;
                    match r {
                        Err(_) => return Err(format!("{what}: attach did not complete although the peer answered")),
                        Ok(Ok(snd)) => {
                            if refuse {
                                // the refusal may surface at attach or at the next operation; keep the link and let the
                                // next operation observe it
                                links.push(L { h: Some(LinkH::S(snd)), ep_handle: eh, peer_handle: ph, name });
                            } else {
                                links.push(L { h: Some(LinkH::S(snd)), ep_handle: eh, peer_handle: ph, name });
                            }
                        }
                        Ok(Err(e)) => {
                            if !refuse {
                                return Err(format!("{what}: attach failed although the peer accepted it: {e:?}"));
                            }
                        }
                    }
                } else {
                    let (r, a) = tokio::join!(tokio::time::timeout(std::time::Duration::from_secs(30), Receiver::builder().name(name.clone()).source("q").attach(s)), pa);
                    let a = a.map_err(|e| format!("{what}: {e}"))?;
                    let eh = as_uint(&a.field(1)).ok_or("attach without handle")?;
                    match r {
                        Err(_) => return Err(format!("{what}: attach did not complete although the peer answered")),
                        Ok(Ok(rcv)) => links.push(L { h: Some(LinkH::R(rcv)), ep_handle: eh, peer_handle: ph, name }),
                        Ok(Err(e)) => {
                            if !refuse {
                                return Err(format!("{what}: attach failed although the peer accepted it: {e:?}"));
                            }
                        }
                    }
                }
                if refuse {
                    info.peer_initiated = true;
                    // the endpoint must answer the closing detach in kind, at the latest when the application touches the link
                    let pushed_now = links.len() > links_before;
                    if let Some(l) = links.last_mut() {
                        if let Some(h) = if pushed_now { l.h.take() } else { None } {
                            match h {
                                LinkH::S(snd) => {
                                    let _ = tokio::time::timeout(std::time::Duration::from_secs(30), snd.close()).await.map_err(|_| format!("{what}: close() of a refused link did not return"))?;
                                }
                                LinkH::R(rcv) => {
                                    let _ = tokio::time::timeout(std::time::Duration::from_secs(30), rcv.close()).await.map_err(|_| format!("{what}: close() of a refused link did not return"))?;
                                }
                            }
                        }
                    }
                    peer.settle().await;
                    let frames = peer.all_frames();
                    let answered = frames.iter().any(|f| f.name() == "detach" && f.channel == ep_ch && as_bool(&f.field(1)) == Some(true));
                    if !answered {
                        return Err(format!("{what}: the peer refused the link with a closing detach but the endpoint never sent its own closing detach"));
                    }
                }
            }
            Ev::Send { link } => {
                let li = match live!(*link) {
                    Some(i) => i,
                    None => continue,
                };
                if let Some(LinkH::S(snd)) = links[li].h.as_mut() {
                    let sendable: Sendable<fe2o3_amqp::types::messaging::AmqpValue<Value>> = Sendable::builder().message(Value::Uint(k as u32)).settled(true).build();
                    match tokio::time::timeout(std::time::Duration::from_secs(30), snd.send(sendable)).await {
                        Ok(Ok(_)) => {}
                        Ok(Err(e)) => return Err(format!("{what}: send on an attached link failed: {e:?}")),
                        Err(_) => return Err(format!("{what}: send did not complete")),
                    }
                }
            }
            Ev::Close { .. } | Ev::Detach { .. } => {
                let (link, with_error, peer_err, closing) = match ev {
                    Ev::Close { link, with_error, peer_err } => (*link, *with_error, *peer_err, true),
                    Ev::Detach { link, peer_err, .. } => (*link, false, *peer_err, false),
                    _ => unreachable!(),
                };
                let crossing = matches!(ev, Ev::Detach { crossing: true, .. });
                let li = match live!(link) {
                    Some(i) => i,
                    None => continue,
                };
                let h = links[li].h.take().unwrap();
                let ph = links[li].peer_handle;
                let eh = links[li].ep_handle;
                let is_sender = matches!(h, LinkH::S(_));
                let lname = links[li].name.clone();
                let local_err = definitions::Error::new(AmqpError::InternalError, Some("local".to_string()), None);
                // the local call, type-erased to a debug string of its result
                let fut: std::pin::Pin<Box<dyn std::future::Future<Output = Result<(), String>> + Send>> = match (h, closing, with_error) {
                    (LinkH::S(s), true, false) => Box::pin(async move { s.close().await.map_err(|e| format!("{e:?}")) }),
                    (LinkH::S(s), true, true) => Box::pin(async move { s.close_with_error(local_err).await.map_err(|e| format!("{e:?}")) }),
                    (LinkH::S(s), false, _) => Box::pin(async move { s.detach().await.map(|_| ()).map_err(|(_, e)| format!("{e:?}")) }),
                    (LinkH::R(r), true, false) => Box::pin(async move { r.close().await.map_err(|e| format!("{e:?}")) }),
                    (LinkH::R(r), true, true) => Box::pin(async move { r.close_with_error(local_err).await.map_err(|e| format!("{e:?}")) }),
                    (LinkH::R(r), false, _) => Box::pin(async move { r.detach().await.map(|_| ()).map_err(|(_, e)| format!("{e:?}")) }),
                };
                let mut fut = fut;
                // while the peer is silent the call must still be pending at a quiescent point
                let d = tokio::select! {
                    biased;
                    r = &mut fut => return Err(format!("{what}: the call returned {:?} before the peer answered", r)),
                    d = peer.wait_for("detach") => d.map_err(|e| format!("{what}: {e}"))?,
                };
                info.pending_checked += 1;
                if d.channel != ep_ch || as_uint(&d.field(0)) != Some(eh) {
                    return Err(format!("{what}: detach for handle {:?} on channel {}, expected handle {} on channel {}", d.field(0), d.channel, eh, ep_ch));
                }
                if as_bool(&d.field(1)).unwrap_or(false) != closing {
                    return Err(format!("{what}: detach carries closed={:?}, the call was {}", d.field(1), if closing { "close" } else { "detach" }));
                }
                if with_error != matches!(d.field(2), RValue::Described(..)) {
                    return Err(format!("{what}: detach error field is {:?} (with_error={})", d.field(2), with_error));
                }
                tokio::select! {
                    biased;
                    r = &mut fut => return Err(format!("{what}: the call returned {:?} while the peer was still silent", r)),
                    _ = peer.settle() => {}
                }
                if crossing {
                    // detach and close cross: the peer closes; the endpoint must re-attach and then close
                    peer.send_frame(my_ch, &Peer::detach_body(ph, true, None), &[]).await?;
                    let a = tokio::select! {
                        biased;
                        r = &mut fut => return Err(format!("{what}: the peer answered the detach with a closing detach; detach() returned {:?} without re-attaching and closing the link", r)),
                        a = peer.wait_for("attach") => a.map_err(|e| format!("{what}: after the peer's closing answer no re-attach was sent: {e}"))?,
                    };
                    if a.field(0) != RValue::str(&lname) {
                        return Err(format!("{what}: the re-attach names {:?}, the link is {lname}", a.field(0)));
                    }
                    let eh2 = as_uint(&a.field(1)).unwrap_or(u32::MAX);
                    peer.send_frame(my_ch, &Peer::attach_body(&lname, ph, is_sender, None, None, if is_sender { None } else { Some(0) }, None, false), &[]).await?;
                    let d2 = tokio::select! {
                        biased;
                        r = &mut fut => return Err(format!("{what}: detach() returned {:?} after re-attaching but before closing the link", r)),
                        d = peer.wait_for("detach") => d.map_err(|e| format!("{what}: the re-attached link was not closed: {e}"))?,
                    };
                    if as_uint(&d2.field(0)) != Some(eh2) {
                        return Err(format!("{what}: the detach after the re-attach names handle {:?}, the re-attach used {eh2}", d2.field(0)));
                    }
                    if !as_bool(&d2.field(1)).unwrap_or(false) {
                        return Err(format!("{what}: the peer's closing detach was answered, after the re-attach, with a non-closing detach"));
                    }
                    peer.send_frame(my_ch, &Peer::detach_body(ph, true, None), &[]).await?;
                    match tokio::time::timeout(std::time::Duration::from_secs(30), fut).await {
                        Err(_) => return Err(format!("{what}: detach() did not return after the crossing close was completed")),
                        Ok(Ok(())) => return Err(format!("{what}: detach() returned Ok although the peer closed the link")),
                        Ok(Err(e)) => {
                            if !e.contains("ClosedByRemote") {
                                return Err(format!("{what}: detach() failed with {e}, expected ClosedByRemote"));
                            }
                        }
                    }
                    info.peer_initiated = true;
                    continue;
                }
                peer.send_frame(my_ch, &Peer::detach_body(ph, closing, if peer_err { peer_err_body() } else { None }), &[]).await?;
                match tokio::time::timeout(std::time::Duration::from_secs(30), fut).await {
                    Err(_) => return Err(format!("{what}: the call did not return after the peer answered")),
                    Ok(Ok(())) => {
                        if peer_err {
                            return Err(format!("{what}: the call returned Ok although the peer's detach carried an error"));
                        }
                    }
                    Ok(Err(e)) => {
                        if !peer_err {
                            return Err(format!("{what}: the call failed with {e} although the peer answered cleanly"));
                        }
                        if !carries_peer_cond(&e) {
                            return Err(format!("{what}: the error {e} does not carry the condition the peer supplied"));
                        }
                    }
                }
            }
            Ev::DropLink { link } => {
                let li = match live!(*link) {
                    Some(i) => i,
                    None => continue,
                };
                let h = links[li].h.take();
                let ph = links[li].peer_handle;
                drop(h);
                let d = peer.wait_for("detach").await.map_err(|e| format!("{what}: dropping a link must detach it: {e}"))?;
                let closed = as_bool(&d.field(1)).unwrap_or(false);
                peer.send_frame(my_ch, &Peer::detach_body(ph, closed, None), &[]).await?;
            }
            Ev::PeerDetach { link, closed, err, then } => {
                let li = match live!(*link) {
                    Some(i) => i,
                    None => continue,
                };
                info.peer_initiated = true;
                let ph = links[li].peer_handle;
                let eh = links[li].ep_handle;
                peer.send_frame(my_ch, &Peer::detach_body(ph, *closed, if *err { peer_err_body() } else { None }), &[]).await?;
                peer.settle().await;
                // the application's next operation on that link
                let h = links[li].h.take().unwrap();
                let then_eff = if kf_close_open && !*closed && matches!(*then % 4, 1 | 2) {
                    // carve-out of KF-link-close-after-remote-detach: answer in kind
                    excluded.set(excluded.get() + 1);
                    4
                } else {
                    *then % 4
                };
                let r: Result<(), String> = match (h, then_eff) {
                    (LinkH::S(s), 4) => match tokio::time::timeout(std::time::Duration::from_secs(30), s.detach()).await {
                        Err(_) => return Err(format!("{what}: detach() after the peer's detach did not return")),
                        Ok(r) => match r {
                            Ok(_) => Err("detached".into()),
                            Err((_, e)) => Err(format!("{e:?}")),
                        },
                    },
                    (LinkH::R(r), 4) => match tokio::time::timeout(std::time::Duration::from_secs(30), r.detach()).await {
                        Err(_) => return Err(format!("{what}: detach() after the peer's detach did not return")),
                        Ok(r) => match r {
                            Ok(_) => Err("detached".into()),
                            Err((_, e)) => Err(format!("{e:?}")),
                        },
                    },
                    (LinkH::S(mut s), 0) => {
                        let sendable: Sendable<fe2o3_amqp::types::messaging::AmqpValue<Value>> = Sendable::builder().message(Value::Uint(7)).settled(true).build();
                        match tokio::time::timeout(std::time::Duration::from_secs(30), s.send(sendable)).await {
                            Err(_) => return Err(format!("{what}: send after the peer's detach did not return")),
                            Ok(Ok(_)) => Ok(()),
                            Ok(Err(e)) => Err(format!("{e:?}")),
                        }
                    }
                    (LinkH::R(mut r), 0) => match tokio::time::timeout(std::time::Duration::from_secs(30), r.recv::<Body<Value>>()).await {
                        Err(_) => return Err(format!("{what}: recv after the peer's detach did not return")),
                        Ok(Ok(_)) => Ok(()),
                        Ok(Err(e)) => Err(format!("{e:?}")),
                    },
                    (LinkH::S(mut s), 1) => {
                        let e = match tokio::time::timeout(std::time::Duration::from_secs(30), s.on_detach()).await {
                            Err(_) => return Err(format!("{what}: on_detach() did not return after the peer's detach")),
                            Ok(e) => e,
                        };
                        let res = if *closed { s.close().await.map_err(|e| format!("{e:?}")) } else { s.detach().await.map(|_| ()).map_err(|(_, e)| format!("{e:?}")) };
                        let _ = res;
                        Err(format!("{e:?}"))
                    }
                    (LinkH::S(s), 2) | (LinkH::S(s), 1..=2) => match tokio::time::timeout(std::time::Duration::from_secs(30), s.close()).await {
                        Err(_) => return Err(format!("{what}: close() after the peer's detach did not return")),
                        Ok(r) => match r {
                            Ok(()) => Err("closed".into()),
                            Err(e) => Err(format!("{e:?}")),
                        },
                    },
                    (LinkH::R(r), 1) | (LinkH::R(r), 2) => match tokio::time::timeout(std::time::Duration::from_secs(30), r.close()).await {
                        Err(_) => return Err(format!("{what}: close() after the peer's detach did not return")),
                        Ok(r) => match r {
                            Ok(()) => Err("closed".into()),
                            Err(e) => Err(format!("{e:?}")),
                        },
                    },
                    (h, _) => {
                        drop(h);
                        Err("dropped".into())
                    }
                };
                match r {
                    Ok(()) => return Err(format!("{what}: the operation after the peer's detach succeeded")),
                    Err(e) => {
                        if *err && *then % 4 == 0 && !carries_peer_cond(&e) {
                            return Err(format!("{what}: the operation after the peer's detach failed with {e}, which does not carry the peer's condition"));
                        }
                    }
                }
                peer.settle().await;
                let frames = peer.all_frames();
                let answers: Vec<RFrame> = detaches_since_attach(&frames, ep_ch, eh);
                match answers.last() {
                    None => return Err(format!("{what}: the peer's detach was not answered after the application's next operation on the link")),
                    Some(d) => {
                        // a closing answer to a non-closing detach is what close()/drop do by design; the in-kind rule
                        // applies to the operations that merely notice the detach
                        if *then % 4 == 0 && as_bool(&d.field(1)).unwrap_or(false) != *closed {
                            return Err(format!("{what}: the peer's detach(closed={}) was answered with closed={:?}", closed, d.field(1)));
                        }
                    }
                }
                // (the endpoint's detach completes the exchange the peer started; the peer sends nothing more)
                if answers.len() > 1 {
                    return Err(format!("{what}: {} detach frames were sent for one attach after the peer's detach", answers.len()));
                }
            }
            Ev::CloseUnanswered { link } => {
                let li = match live!(*link) {
                    Some(i) => i,
                    None => continue,
                };
                let h = links[li].h.take().unwrap();
                let eh = links[li].ep_handle;
                let ph = links[li].peer_handle;
                {
                    let fut: std::pin::Pin<Box<dyn std::future::Future<Output = Result<(), String>> + Send>> = match h {
                        LinkH::S(s) => Box::pin(async move { s.close().await.map_err(|e| format!("{e:?}")) }),
                        LinkH::R(r) => Box::pin(async move { r.close().await.map_err(|e| format!("{e:?}")) }),
                    };
                    let mut fut = fut;
                    tokio::select! {
                        biased;
                        r = &mut fut => return Err(format!("{what}: close() returned {:?} although the peer never answered", r)),
                        _ = peer.settle() => {}
                    }
                    // the future (and with it the link) is dropped here
                }
                peer.settle().await;
                let n = detaches_since_attach(&peer.all_frames(), ep_ch, eh).len();
                if n != 1 {
                    return Err(format!("{what}: {} detach frames were sent for one attach (close() unanswered, then the handle dropped)", n));
                }
                peer.send_frame(my_ch, &Peer::detach_body(ph, true, None), &[]).await?;
            }
            Ev::EndSession { with_error, peer_err } => {
                // queue a send right before the end: it must precede the end on the wire
                let mut marker = None;
                if let Some(li) = live!(0) {
                    if let Some(LinkH::S(snd)) = links[li].h.as_mut() {
                        let sendable: Sendable<fe2o3_amqp::types::messaging::AmqpValue<Value>> = Sendable::builder().message(Value::Uint(4242)).settled(true).build();
                        if snd.send(sendable).await.is_ok() {
                            marker = Some(links[li].ep_handle);
                        }
                    }
                }
                let mut sh = sess.take().unwrap();
                let local_err = definitions::Error::new(AmqpError::InternalError, Some("local".to_string()), None);
                let we = *with_error;
                let fut = async move {
                    if we {
                        sh.end_with_error(local_err).await
                    } else {
                        sh.end().await
                    }
                };
                tokio::pin!(fut);
                let e = tokio::select! {
                    biased;
                    r = &mut fut => return Err(format!("{what}: end returned {:?} before the peer answered", r)),
                    e = peer.wait_for("end") => e.map_err(|e| format!("{what}: {e}"))?,
                };
                info.pending_checked += 1;
                if e.channel != ep_ch {
                    return Err(format!("{what}: end on channel {}", e.channel));
                }
                if *with_error != matches!(e.field(0), RValue::Described(..)) {
                    return Err(format!("{what}: end error field is {:?}", e.field(0)));
                }
                if let Some(h) = marker {
                    let frames = peer.all_frames();
                    let ti = frames.iter().rposition(|f| f.name() == "transfer" && f.channel == ep_ch && as_uint(&f.field(0)) == Some(h));
                    let ei = frames.iter().rposition(|f| f.name() == "end" && f.channel == ep_ch);
                    if ti.is_none() || ti > ei {
                        return Err(format!("{what}: a transfer queued before end() did not precede the end frame"));
                    }
                }
                tokio::select! {
                    biased;
                    r = &mut fut => return Err(format!("{what}: end returned {:?} while the peer was still silent", r)),
                    _ = peer.settle() => {}
                }
                peer.send_frame(my_ch, &Peer::end_body(if *peer_err { peer_err_body() } else { None }), &[]).await?;
                match tokio::time::timeout(std::time::Duration::from_secs(30), fut).await {
                    Err(_) => return Err(format!("{what}: end did not return after the peer answered")),
                    Ok(Ok(())) => {
                        if *peer_err {
                            return Err(format!("{what}: end returned Ok although the peer's end carried an error"));
                        }
                    }
                    Ok(Err(e)) => {
                        if !*peer_err {
                            return Err(format!("{what}: end failed with {e:?} although the peer answered cleanly"));
                        }
                        if !matches!(&e, SessError::RemoteEndedWithError(x) if format!("{:?}", x.condition).contains("ResourceDeleted")) {
                            return Err(format!("{what}: end failed with {e:?}, which is not the error the peer supplied"));
                        }
                    }
                }
                session_over = true;
            }
            Ev::PeerEnd { err, busy } => {
                info.peer_initiated = true;
                peer.send_frame(my_ch, &Peer::end_body(if *err { peer_err_body() } else { None }), &[]).await?;
                if *busy > 0 {
                    // link frames queued between link and session when the end is handled
                    if let Some(l) = links.iter_mut().find(|l| matches!(l.h, Some(LinkH::S(_)))) {
                        if let Some(LinkH::S(snd)) = l.h.as_mut() {
                            for _ in 0..*busy {
                                let sendable: Sendable<fe2o3_amqp::types::messaging::AmqpValue<Value>> = Sendable::builder().message(Value::Uint(7)).settled(true).build();
                                // no await point that lets the engine run in between is intended; failures are fine
                                let _ = tokio::time::timeout(std::time::Duration::from_millis(0), snd.send_batchable(sendable)).await;
                            }
                        }
                    }
                }
                let e = peer.wait_for("end").await.map_err(|e| format!("{what}: the peer's end was not answered: {e}"))?;
                if e.channel != ep_ch {
                    return Err(format!("{what}: end answered on channel {}", e.channel));
                }
                let mut sh = sess.take().unwrap();
                match tokio::time::timeout(std::time::Duration::from_secs(30), sh.on_end()).await {
                    Err(_) => return Err(format!("{what}: on_end() did not return after the end exchange")),
                    Ok(Ok(())) => return Err(format!("{what}: on_end() reports a clean local end after the peer ended the session")),
                    Ok(Err(e)) => {
                        if *err && !format!("{e:?}").contains("ResourceDeleted") {
                            return Err(format!("{what}: on_end() failed with {e:?}, which does not carry the peer's condition"));
                        }
                    }
                }
                // operations on the links of that session fail and name the session
                for l in links.iter_mut() {
                    if let Some(LinkH::S(mut snd)) = l.h.take() {
                        let sendable: Sendable<fe2o3_amqp::types::messaging::AmqpValue<Value>> = Sendable::builder().message(Value::Uint(1)).settled(true).build();
                        match tokio::time::timeout(std::time::Duration::from_secs(30), snd.send(sendable)).await {
                            Err(_) => return Err(format!("{what}: send on a link of the ended session did not return")),
                            Ok(Ok(_)) => return Err(format!("{what}: send on a link of the ended session succeeded")),
                            Ok(Err(_)) => {}
                        }
                    }
                }
                session_over = true;
            }
            Ev::PeerUnattached { kind, count } => {
                info.peer_initiated = true;
                // a live link for the duplicate-attach kinds
                let live_link = links.iter().find(|l| l.h.is_some()).map(|l| (l.name.clone(), l.peer_handle, matches!(l.h, Some(LinkH::S(_)))));
                for _ in 0..*count {
                    let body = match (kind % 5, &live_link) {
                        (0, _) => Peer::flow_body(Some(0), 100_000, 0, 100_000, Some(77), Some(0), Some(1), false, false),
                        (1, _) => Peer::transfer_body(77, Some(500), Some(b"x"), Some(0), Some(true), false, None, false),
                        (2, _) => Peer::detach_body(77, true, None),
                        (3, Some((name, _, is_sender))) => Peer::attach_body(name, 78, *is_sender, None, None, if *is_sender { None } else { Some(0) }, None, false),
                        (4, Some((_, ph, is_sender))) => Peer::attach_body("another-name", *ph, *is_sender, None, None, if *is_sender { None } else { Some(0) }, None, false),
                        _ => Peer::detach_body(77, true, None),
                    };
                    peer.send_frame(my_ch, &body, &[0x00, 0x53, 0x77, 0x40][..if kind % 5 == 1 { 4 } else { 0 }]).await?;
                }
                let fs = peer.new_frames().await;
                if fs.iter().any(|f| f.name() == "end" && f.channel == ep_ch) {
                    // the endpoint ended the session for the violation: the peer answers; the handle reports an
                    // error; the connection and the other session are judged at the end of the script
                    peer.send_frame(my_ch, &Peer::end_body(None), &[]).await?;
                    let mut sh = sess.take().unwrap();
                    match tokio::time::timeout(std::time::Duration::from_secs(30), sh.on_end()).await {
                        Err(_) => return Err(format!("{what}: on_end() did not return after the end exchange")),
                        Ok(Ok(())) => return Err(format!("{what}: the endpoint ended the session with an error but on_end() reports a clean end")),
                        Ok(Err(_)) => {}
                    }
                    for l in links.iter_mut() {
                        l.h = None;
                    }
                    session_over = true;
                }
            }
            Ev::DropSession => {
                let sh = sess.take().unwrap();
                drop(sh);
                // links are still alive: the session must stay up while they exist; dropping them too ends it
                for l in links.iter_mut() {
                    l.h = None;
                }
                let mut guard = 0;
                loop {
                    guard += 1;
                    match peer.next_frame().await {
                        Some(f) if f.name() == "detach" => {
                            if let Some(l) = links.iter().find(|l| Some(l.ep_handle) == as_uint(&f.field(0))) {
                                peer.send_frame(my_ch, &Peer::detach_body(l.peer_handle, as_bool(&f.field(1)).unwrap_or(false), None), &[]).await?;
                            }
                        }
                        Some(f) if f.name() == "end" => {
                            peer.send_frame(my_ch, &Peer::end_body(None), &[]).await?;
                            break;
                        }
                        Some(_) => {}
                        None => return Err(format!("{what}: dropping the session handle and all its links did not end the session")),
                    }
                    if guard > 50 {
                        break;
                    }
                }
                session_over = true;
            }
        }
        info.links = info.links.max(links.iter().filter(|l| l.h.is_some()).count());
        // everything sent so far has been judged: advance the peer's read cursor
        let _ = peer.new_frames().await;
    }
    // the enclosing scope survives: the second session still works and no close was sent
    peer.settle().await;
    let (snd2, _a) = peer::answer_attach(&mut peer, 9, Sender::builder().name("survivor").target("q").attach(&mut s2), |_a| Peer::attach_body("survivor", 1, true, None, None, None, None, false), |_a| vec![Peer::flow_body(Some(0), 100_000, 0, 100_000, Some(1), Some(0), Some(10), false, false)])
        .await
        .map_err(|e| format!("the second session stopped working after lifecycle events on the first: {e}"))?;
    let mut snd2 = snd2;
    let sendable: Sendable<fe2o3_amqp::types::messaging::AmqpValue<Value>> = Sendable::builder().message(Value::Uint(99)).settled(true).build();
    match tokio::time::timeout(std::time::Duration::from_secs(30), snd2.send(sendable)).await {
        Ok(Ok(_)) => {}
        other => return Err(format!("a send on the second session failed after lifecycle events on the first: {:?}", other.map(|r| r.map(|_| ()).map_err(|e| format!("{e:?}"))))),
    }
    peer.settle().await;
    let frames = peer.all_frames();
    if frames.iter().any(|f| f.name() == "close") {
        return Err("the connection was closed by session/link lifecycle events".into());
    }
    if frames.iter().any(|f| f.name() == "end" && f.channel == ep_ch2) {
        return Err("the second session was ended by lifecycle events on the first".into());
    }
    let mut t = Trace::default();
    for f in &frames {
        t.on(f).map_err(|e| format!("trace: {e} (frame at offset {})", f.offset))?;
    }
    let _ = (&conn, &links.iter().map(|l| l.name.clone()).collect::<Vec<_>>());
    Ok(info)
}

pub fn run_case(c: &Case, kf_close_open: bool, excluded: &std::cell::Cell<u32>) -> Result<Info, String> {
    match simnet::run_case(c.tokio_seed, run_async(c, kf_close_open, excluded)).0 {
        CaseEnd::Done(Err(e)) => Err(format!("{e}\n  wire:{}", simnet::describe_last_wire())),
        CaseEnd::Done(r) => r,
        CaseEnd::Hang => Err(format!("HANG (virtual-time watchdog); wire so far:{}", simnet::describe_last_wire())),
    }
}

fn case(ctx: &ShardCtx, c: &Case, obs: &mut Obs) -> Result<(), String> {
    let open = ctx.is_open("KF-link-close-after-remote-detach");
    let excluded = std::cell::Cell::new(0u32);
    let r = guarded(|| run_case(c, open, &excluded));
    if excluded.get() > 0 {
        obs.excluded.push("KF-link-close-after-remote-detach".into());
    }
    match r {
        Ok(Ok(info)) => {
            if info.peer_initiated {
                obs.class("peer-initiated-detach-or-end");
            }
            if info.pending_checked > 0 {
                obs.class("pending-until-answered-checked");
            }
            obs.class(&format!("max-live-links:{}", info.links));
            if info.links >= 2 && info.peer_initiated {
                obs.nontrivial(c);
            }
            Ok(())
        }
        Ok(Err(e)) => {
            obs.signature = Some("lifecycle".into());
            Err(e)
        }
        Err(p) => {
            obs.signature = Some(panic_signature(&p[0]));
            Err(format!("panic: {}", p.join(" | ")))
        }
    }
}

fn run(ctx: &ShardCtx, rep: &mut Report) {
    MAX_SHRINK_ITERS.store(400, std::sync::atomic::Ordering::Relaxed);
    pt_run(ctx, rep, "lifecycle", ctx.budget(80_000, 4_000_000), case_strategy(), |c, o| case(ctx, c, o));
}

fn replay(variant: &str, case_json: &Json) -> Result<(), String> {
    let c: Case = serde_json::from_value(case_json.clone()).map_err(|e| format!("bad case: {e}"))?;
    let open = !variant.ends_with("!raw") && open_ids_for("C13").iter().any(|o| o == "KF-link-close-after-remote-detach");
    run_case(&c, open, &std::cell::Cell::new(0)).map(|_| ())
}
