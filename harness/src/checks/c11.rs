//! C11 — identifiers: increasing delivery-ids, unique handles/channels, correct routing
use crate::driver::*;
use crate::gen;
use crate::peer::{as_bool, as_uint, serial_lt, Peer};
use crate::refcodec::RValue;
use crate::rframe::RFrame;
use crate::simnet::{self, CaseEnd, PipeCfg};
use fe2o3_amqp::link::delivery::Sendable;
use fe2o3_amqp::session::SessionHandle;
use fe2o3_amqp::types::messaging::{Body, Data, Message};
use fe2o3_amqp::types::primitives::{Binary, Value};
use fe2o3_amqp::{Connection, Receiver, Sender, Session};
use proptest::collection::vec;
use proptest::prelude::*;
use serde::{Deserialize, Serialize};
use serde_json::Value as Json;
use std::collections::{BTreeMap, BTreeSet};
use std::sync::{Arc, Mutex};

pub fn meta() -> PropMeta {
    PropMeta {
        id: "C11",
        level: "exploration",
        rule: "generated histories over up to 3 sessions and 6 links on one real client connection: begin/end, attach sender/receiver with names from a small pool (duplicates, reuse after detach), close, drop, sends (single frame, transport-split, link-split through the peer's max-message-size with payloads in (m,2m], (2m,3m], ...), peer transfers carrying marker messages; the scripted peer picks its own sparse/large/reused channels (65535, 0, 300, ...) and handles (2^32-1, 0, 1000, ...). Oracle over the frame trace: the first frame of each delivery carries a delivery-id, ids strictly increase per session in send order (serial arithmetic) and are never reused, all frames of one delivery carry that id or none; output handles of attached links are pairwise distinct per session and channels of begun sessions per connection, reused only after the endpoint sent the detach/end of the previous holder; a second attach of a live name fails locally without an attach frame; every marker message reaches exactly the receiver whose (channel, handle) the peer designated. Non-trivial: >=2 links or sessions live at once with >=1 reuse, or a link-split delivery; distinct by hash of the case.",
        assumptions: &["reuse 'after detach' is read leniently: after the endpoint's own detach/end was sent", "sends are pre-settled so that they complete without dispositions"],
        nontrivial_floor: 0.25,
        run,
        replay,
        crashy: true,
    }
}

#[derive(Clone, Debug, Serialize, Deserialize, Hash)]
pub enum Op {
    Begin,
    End { sess: u8 },
    AttachSender { sess: u8, name: u8, mms: Option<u16> },
    AttachReceiver { sess: u8, name: u8 },
    Close { link: u8 },
    Drop { link: u8 },
    Send { link: u8, len: u16 },
    PeerTransfer { link: u8 },
}

#[derive(Clone, Debug, Serialize, Deserialize, Hash)]
pub struct Case {
    pub n0: u32,
    pub peer_mfs: u32,
    pub ops: Vec<Op>,
    pub tokio_seed: u64,
    pub choices: Vec<u8>,
    pub pipe: PipeCfg,
}

fn op() -> BoxedStrategy<Op> {
    prop_oneof![
        2 => Just(Op::Begin),
        1 => (0u8..3).prop_map(|sess| Op::End { sess }),
        4 => (0u8..3, 0u8..3, proptest::option::weighted(0.5, prop_oneof![Just(40u16), Just(100), 20u16..300])).prop_map(|(sess, name, mms)| Op::AttachSender { sess, name, mms }),
        3 => (0u8..3, 0u8..3).prop_map(|(sess, name)| Op::AttachReceiver { sess, name }),
        2 => (0u8..6).prop_map(|link| Op::Close { link }),
        1 => (0u8..6).prop_map(|link| Op::Drop { link }),
        6 => (0u8..6, prop_oneof![Just(0u16), 1u16..120, 120u16..700, 700u16..2500]).prop_map(|(link, len)| Op::Send { link, len }),
        3 => (0u8..6).prop_map(|link| Op::PeerTransfer { link }),
    ]
    .boxed()
}

pub fn case_strategy() -> BoxedStrategy<Case> {
    (crate::duo::next_id(), prop_oneof![Just(512u32), Just(4096)], vec(op(), 1..40), any::<u64>(), gen::choices_bytes(), simnet::strat::pipe_cfg())
        .prop_map(|(n0, peer_mfs, mut ops, tokio_seed, choices, pipe)| {
            // every history starts with a session and two links so that the later ops have something to act on
            let mut pre = vec![Op::Begin, Op::AttachSender { sess: 0, name: 0, mms: if ops.len() % 2 == 0 { Some(60) } else { None } }, Op::AttachReceiver { sess: 0, name: 1 }];
            pre.append(&mut ops);
            Case { n0, peer_mfs, ops: pre, tokio_seed, choices, pipe: PipeCfg { cap: 1 << 22, ..pipe } }
        })
        .boxed()
}

const PEER_CHANNELS: [u16; 4] = [65535, 0, 300, 7];
const PEER_HANDLES: [u32; 6] = [u32::MAX, 0, 1000, 5, 77, 123456];

enum LinkKind {
    Sender(Sender),
    Receiver,
    Gone,
}

struct LinkSt {
    sess: usize,
    name: String,
    ep_handle: u32,
    peer_handle: u32,
    kind: LinkKind,
    uid: usize,
    mms: Option<u16>,
    /// peer-side delivery counter for transfers to this receiver
    peer_deliveries: u32,
}

struct SessSt {
    handle: SessionHandle<()>,
    ep_ch: u16,
    peer_ch: u16,
    n0: u32,
    /// peer's own next-outgoing-id on this session
    peer_next: u32,
    frames_seen: u64,
}

type Markers = Arc<Mutex<Vec<(usize, u32)>>>;

async fn receiver_app(mut r: Receiver, uid: usize, sink: Markers) {
    loop {
        match r.recv::<Body<Value>>().await {
            Ok(d) => {
                let marker = match d.body() {
                    Body::Value(v) => match &v.0 {
                        Value::Uint(x) => *x,
                        _ => u32::MAX,
                    },
                    _ => u32::MAX,
                };
                sink.lock().unwrap().push((uid, marker));
                let _ = r.accept(&d).await;
            }
            Err(_) => break,
        }
    }
    std::future::pending::<()>().await;
}

/// trace automaton over the endpoint's frames
#[derive(Default)]
struct Trace {
    live_channels: BTreeSet<u16>,
    /// (channel, handle) -> link name
    live_handles: BTreeMap<(u16, u32), String>,
    /// per channel: last delivery-id used
    last_id: BTreeMap<u16, u32>,
    /// per (channel, handle): id of the delivery in progress
    open: BTreeMap<(u16, u32), u32>,
    link_split_seen: bool,
}

impl Trace {
    fn on_frame(&mut self, f: &RFrame) -> Result<(), String> {
        match f.name() {
            "begin" => {
                if !self.live_channels.insert(f.channel) {
                    return Err(format!("begin on channel {} while another session of this connection still uses it", f.channel));
                }
                self.last_id.remove(&f.channel);
            }
            "end" => {
                if !self.live_channels.remove(&f.channel) {
                    return Err(format!("end on channel {} which is not begun", f.channel));
                }
                let ch = f.channel;
                self.live_handles.retain(|(c, _), _| *c != ch);
                self.open.retain(|(c, _), _| *c != ch);
            }
            "attach" => {
                let h = as_uint(&f.field(1)).ok_or("attach without handle")?;
                let name = match f.field(0) {
                    RValue::Str(s) => s,
                    _ => return Err("attach without name".into()),
                };
                if !self.live_channels.contains(&f.channel) {
                    return Err(format!("attach on channel {} which is not begun", f.channel));
                }
                if self.live_handles.contains_key(&(f.channel, h)) {
                    return Err(format!("attach of '{}' uses handle {} on channel {} while another attached link still holds it", name, h, f.channel));
                }
                if self.live_handles.iter().any(|((c, _), n)| *c == f.channel && *n == name) {
                    return Err(format!("link name '{}' attached twice on the session of channel {}", name, f.channel));
                }
                self.live_handles.insert((f.channel, h), name);
            }
            "detach" => {
                let h = as_uint(&f.field(0)).ok_or("detach without handle")?;
                if self.live_handles.remove(&(f.channel, h)).is_none() {
                    return Err(format!("detach for handle {} on channel {} which is not attached", h, f.channel));
                }
                self.open.remove(&(f.channel, h));
            }
            "transfer" => {
                let h = as_uint(&f.field(0)).ok_or("transfer without handle")?;
                if !self.live_handles.contains_key(&(f.channel, h)) {
                    return Err(format!("transfer on handle {} of channel {} which is not attached", h, f.channel));
                }
                let id = as_uint(&f.field(1));
                let more = as_bool(&f.field(5)).unwrap_or(false);
                match self.open.get(&(f.channel, h)).copied() {
                    None => {
                        let id = id.ok_or_else(|| format!("first frame of a delivery on handle {} carries no delivery-id", h))?;
                        if let Some(prev) = self.last_id.get(&f.channel) {
                            if !serial_lt(*prev, id) {
                                return Err(format!("delivery-id {} follows delivery-id {} on the session of channel {} (ids must strictly increase and never be reused)", id, prev, f.channel));
                            }
                        }
                        self.last_id.insert(f.channel, id);
                        if more {
                            self.open.insert((f.channel, h), id);
                        }
                    }
                    Some(cur) => {
                        if let Some(id) = id {
                            if id != cur {
                                return Err(format!("a continuation frame of delivery {} on handle {} carries delivery-id {}: all frames of one delivery must carry the same delivery-id or none", cur, h, id));
                            }
                        }
                        if !more {
                            self.open.remove(&(f.channel, h));
                        }
                    }
                }
            }
            _ => {}
        }
        Ok(())
    }
}

pub struct Info {
    pub concurrent: bool,
    pub reuse: bool,
    pub link_split: bool,
    pub dup_name: bool,
}

pub async fn run_async(c: &Case) -> Result<Info, String> {
    let (a, b, _ctl) = simnet::pipe(c.pipe.clone());
    let mut peer = Peer::new(b, c.choices.clone());
    let open_fut = Connection::builder().container_id("verif-client").max_frame_size(65536u32).open_with_stream(a);
    let (conn, po) = tokio::join!(open_fut, peer.server_open(Some(c.peer_mfs), None, None));
    let mut conn = conn.map_err(|e| format!("client open failed: {e:?}"))?;
    po?;

    let mut sessions: Vec<Option<SessSt>> = Vec::new();
    let mut links: Vec<LinkSt> = Vec::new();
    let markers: Markers = Arc::new(Mutex::new(Vec::new()));
    let mut expected_markers: Vec<(usize, u32)> = Vec::new();
    let mut next_marker = 1u32;
    let mut info = Info { concurrent: false, reuse: false, link_split: false, dup_name: false };
    let mut used_names: BTreeSet<(usize, String)> = BTreeSet::new();
    let mut n_begun = 0usize;

    macro_rules! absorb {
        ($what:expr, $frames:expr) => {{
            let _ = &$frames;
        }};
    }

    for (k, op) in c.ops.iter().enumerate() {
        let what = format!("step {k} {:?}", op);
        let live_sessions: Vec<usize> = sessions.iter().enumerate().filter(|(_, s)| s.is_some()).map(|(i, _)| i).collect();
        match op {
            Op::Begin => {
                if live_sessions.len() >= 3 {
                    continue;
                }
                let peer_ch = *PEER_CHANNELS.iter().find(|ch| !sessions.iter().flatten().any(|s| s.peer_ch == **ch)).unwrap();
                if n_begun >= 1 && live_sessions.len() < n_begun {
                    info.reuse = true;
                }
                n_begun += 1;
                let n0 = c.n0.wrapping_add(1000 * sessions.len() as u32);
                let sb = Session::builder().next_outgoing_id(n0);
                let (s, pb) = tokio::join!(sb.begin(&mut conn), peer.accept_begin(peer_ch, 500, 100_000, 100_000));
                let s = s.map_err(|e| format!("{what}: begin failed: {e:?}"))?;
                let (ep_ch, begin) = pb.map_err(|e| format!("{what}: {e}"))?;
                absorb!(what, [begin]);
                sessions.push(Some(SessSt { handle: s, ep_ch, peer_ch, n0, peer_next: 500, frames_seen: 0 }));
            }
            Op::End { sess } => {
                if live_sessions.is_empty() {
                    continue;
                }
                let si = live_sessions[(*sess as usize) % live_sessions.len()];
                let mut st = sessions[si].take().unwrap();
                // links of that session disappear with it
                for l in links.iter_mut().filter(|l| l.sess == si) {
                    l.kind = LinkKind::Gone;
                }
                let peer_ch = st.peer_ch;
                let pe = async {
                    let e = peer.wait_for("end").await?;
                    peer.send_frame(peer_ch, &Peer::end_body(None), &[]).await?;
                    Ok::<RFrame, String>(e)
                };
                let (r, e) = tokio::join!(st.handle.end(), pe);
                let _ = r;
                e.map_err(|e| format!("{what}: {e}"))?;
                // everything the endpoint sent up to and including the end
                let frames: Vec<RFrame> = peer.all_frames();
                let _ = frames;
            }
            Op::AttachSender { sess, name, mms } => {
                if live_sessions.is_empty() || links.iter().filter(|l| !matches!(l.kind, LinkKind::Gone)).count() >= 6 {
                    continue;
                }
                let si = live_sessions[(*sess as usize) % live_sessions.len()];
                let lname = format!("name-{name}");
                let dup = links.iter().any(|l| l.sess == si && l.name == lname && !matches!(l.kind, LinkKind::Gone));
                let st = sessions[si].as_mut().unwrap();
                if dup {
                    info.dup_name = true;
                    let before = peer.all_frames().len();
                    let r = tokio::time::timeout(std::time::Duration::from_secs(5), Sender::builder().name(lname.clone()).target("q").attach(&mut st.handle)).await;
                    match r {
                        Ok(Err(_)) => {}
                        Ok(Ok(_)) => return Err(format!("{what}: a second attach of the live link name '{lname}' succeeded")),
                        Err(_) => {
                            // it is waiting for the peer: an attach frame must have gone out
                        }
                    }
                    let frames = peer.new_frames().await;
                    absorb!(what, frames);
                    let _ = before;
                    continue;
                }
                let ph = *PEER_HANDLES.iter().find(|h| !links.iter().any(|l| l.sess == si && !matches!(l.kind, LinkKind::Gone) && l.peer_handle == **h)).unwrap();
                if used_names.contains(&(si, lname.clone())) {
                    info.reuse = true;
                }
                used_names.insert((si, lname.clone()));
                let peer_ch = st.peer_ch;
                let n0 = st.n0;
                let ep_ch = st.ep_ch;
                let fs = peer.all_frames().iter().filter(|f| f.name() == "transfer" && f.channel == ep_ch).count() as u64;
                let pnext = st.peer_next;
                let att = Sender::builder().name(lname.clone()).target("q").attach(&mut st.handle);
                let pa = async {
                    let a = peer.wait_for("attach").await?;
                    peer.send_frame(peer_ch, &Peer::attach_body(&lname, ph, true, None, None, None, mms.map(|m| m as u64), false), &[]).await?;
                    peer.send_frame(peer_ch, &Peer::flow_body(Some(n0.wrapping_add(fs as u32)), 100_000, pnext, 100_000, Some(ph), Some(0), Some(100_000), false, false), &[]).await?;
                    Ok::<RFrame, String>(a)
                };
                let (s, a) = tokio::join!(att, pa);
                let a = a.map_err(|e| format!("{what}: {e}"))?;
                let s = s.map_err(|e| format!("{what}: attach failed: {e:?}"))?;
                let eh = as_uint(&a.field(1)).ok_or("attach without handle")?;
                let uid = links.len();
                links.push(LinkSt { sess: si, name: lname, ep_handle: eh, peer_handle: ph, kind: LinkKind::Sender(s), uid, mms: *mms, peer_deliveries: 0 });
            }
            Op::AttachReceiver { sess, name } => {
                if live_sessions.is_empty() || links.iter().filter(|l| !matches!(l.kind, LinkKind::Gone)).count() >= 6 {
                    continue;
                }
                let si = live_sessions[(*sess as usize) % live_sessions.len()];
                let lname = format!("name-{name}");
                if links.iter().any(|l| l.sess == si && l.name == lname && !matches!(l.kind, LinkKind::Gone)) {
                    continue;
                }
                let st = sessions[si].as_mut().unwrap();
                let ph = *PEER_HANDLES.iter().find(|h| !links.iter().any(|l| l.sess == si && !matches!(l.kind, LinkKind::Gone) && l.peer_handle == **h)).unwrap();
                if used_names.contains(&(si, lname.clone())) {
                    info.reuse = true;
                }
                used_names.insert((si, lname.clone()));
                let peer_ch = st.peer_ch;
                let att = Receiver::builder().name(lname.clone()).source("q").attach(&mut st.handle);
                let pa = async {
                    let a = peer.wait_for("attach").await?;
                    peer.send_frame(peer_ch, &Peer::attach_body(&lname, ph, false, None, None, Some(0), None, false), &[]).await?;
                    Ok::<RFrame, String>(a)
                };
                let (r, a) = tokio::join!(att, pa);
                let a = a.map_err(|e| format!("{what}: {e}"))?;
                let r = r.map_err(|e| format!("{what}: attach failed: {e:?}"))?;
                let eh = as_uint(&a.field(1)).ok_or("attach without handle")?;
                let uid = links.len();
                tokio::spawn(receiver_app(r, uid, markers.clone()));
                links.push(LinkSt { sess: si, name: lname, ep_handle: eh, peer_handle: ph, kind: LinkKind::Receiver, uid, mms: None, peer_deliveries: 0 });
            }
            Op::Close { link } | Op::Drop { link } => {
                let live: Vec<usize> = links.iter().enumerate().filter(|(_, l)| matches!(l.kind, LinkKind::Sender(_))).map(|(i, _)| i).collect();
                if live.is_empty() {
                    continue;
                }
                let li = live[(*link as usize) % live.len()];
                let kind = std::mem::replace(&mut links[li].kind, LinkKind::Gone);
                let peer_ch = sessions[links[li].sess].as_ref().map(|s| s.peer_ch).unwrap_or(0);
                let ph = links[li].peer_handle;
                if let LinkKind::Sender(s) = kind {
                    if matches!(op, Op::Close { .. }) {
                        let pd = async {
                            let d = peer.wait_for("detach").await?;
                            peer.send_frame(peer_ch, &Peer::detach_body(ph, true, None), &[]).await?;
                            Ok::<RFrame, String>(d)
                        };
                        let (r, d) = tokio::join!(s.close(), pd);
                        let _ = r;
                        d.map_err(|e| format!("{what}: {e}"))?;
                    } else {
                        drop(s);
                        // a dropped link detaches by itself; answer it
                        peer.settle().await;
                        if let Ok(_d) = peer.wait_for("detach").await {
                            peer.send_frame(peer_ch, &Peer::detach_body(ph, true, None), &[]).await?;
                        }
                    }
                }
            }
            Op::Send { link, len } => {
                let live: Vec<usize> = links.iter().enumerate().filter(|(_, l)| matches!(l.kind, LinkKind::Sender(_))).map(|(i, _)| i).collect();
                if live.is_empty() {
                    continue;
                }
                let li = live[(*link as usize) % live.len()];
                let mms = links[li].mms;
                let mut v = vec![links[li].uid as u8];
                v.extend((0..*len as usize).map(|i| (i % 249) as u8));
                let m: Message<Body<Value>> = Message::builder().data(Binary::from(v)).build().map_body(|d: Data| Body::Data(vec![d].into()));
                if let Some(mm) = mms {
                    if *len as usize + 20 > mm as usize {
                        info.link_split = true;
                    }
                }
                let sendable: Sendable<Body<Value>> = Sendable::builder().message(m).settled(true).build();
                if let LinkKind::Sender(s) = &mut links[li].kind {
                    match tokio::time::timeout(std::time::Duration::from_secs(5), s.send(sendable)).await {
                        Ok(Ok(_)) => {}
                        Ok(Err(e)) => return Err(format!("{what}: send failed: {e:?}")),
                        Err(_) => return Err(format!("{what}: a pre-settled send with ample credit did not complete (credit or frames were routed to the wrong link?)")),
                    }
                }
            }
            Op::PeerTransfer { link } => {
                let live: Vec<usize> = links.iter().enumerate().filter(|(_, l)| matches!(l.kind, LinkKind::Receiver)).map(|(i, _)| i).collect();
                if live.is_empty() {
                    continue;
                }
                let li = live[(*link as usize) % live.len()];
                let si = links[li].sess;
                let st = match sessions[si].as_mut() {
                    Some(s) => s,
                    None => continue,
                };
                let marker = next_marker;
                next_marker += 1;
                let mut payload = vec![0x00, 0x53, 0x77, 0x70];
                payload.extend_from_slice(&marker.to_be_bytes());
                let tag = marker.to_be_bytes();
                let body = Peer::transfer_body(links[li].peer_handle, Some(st.peer_next), Some(&tag), Some(0), Some(true), false, None, false);
                st.peer_next = st.peer_next.wrapping_add(1);
                links[li].peer_deliveries += 1;
                peer.send_frame(st.peer_ch, &body, &payload).await?;
                expected_markers.push((links[li].uid, marker));
            }
        }
        let frames = peer.new_frames().await;
        // frames consumed by wait_for/expect inside the op were not returned by new_frames: replay the
        // whole trace from the peer's log instead (the automaton is re-run incrementally below)
        let _ = frames;
        let live_links = links.iter().filter(|l| !matches!(l.kind, LinkKind::Gone)).count();
        if live_links >= 2 || sessions.iter().flatten().count() >= 2 {
            info.concurrent = true;
        }
        // routing check
        let got = markers.lock().unwrap().clone();
        for g in &got {
            if !expected_markers.contains(g) {
                let owner = expected_markers.iter().find(|e| e.1 == g.1).map(|e| e.0);
                return Err(format!("{what}: marker message {} was delivered to link #{} but the peer addressed it to link #{:?}", g.1, g.0, owner));
            }
        }
        for e in &expected_markers {
            let alive = links.iter().any(|l| l.uid == e.0 && matches!(l.kind, LinkKind::Receiver)) && sessions[links[e.0].sess].is_some();
            if alive && !got.contains(e) {
                return Err(format!("{what}: marker message {} addressed to link #{} (peer handle {}) was not delivered to it", e.1, e.0, links[e.0].peer_handle));
            }
        }
    }
    // run the trace automaton over everything the endpoint sent, in order
    peer.settle().await;
    let mut t2 = Trace::default();
    for f in peer.all_frames() {
        if f.name() == "open" || f.name() == "close" {
            continue;
        }
        t2.on_frame(&f).map_err(|e| format!("trace: {e} (frame at offset {})", f.offset))?;
    }
    Ok(info)
}

pub fn run_case(c: &Case) -> Result<Info, String> {
    match simnet::run_case(c.tokio_seed, run_async(c)).0 {
        CaseEnd::Done(r) => r,
        CaseEnd::Hang => Err(format!("HANG (virtual-time watchdog); wire so far:{}", simnet::describe_last_wire())),
    }
}

fn case(_ctx: &ShardCtx, c: &Case, obs: &mut Obs) -> Result<(), String> {
    match guarded(|| run_case(c)) {
        Ok(Ok(info)) => {
            for (b, n) in [(info.concurrent, "concurrent-links-or-sessions"), (info.reuse, "reuse"), (info.link_split, "link-split-delivery"), (info.dup_name, "duplicate-name-attempt")] {
                if b {
                    obs.class(n);
                }
            }
            if (info.concurrent && info.reuse) || info.link_split {
                obs.nontrivial(c);
            }
            Ok(())
        }
        Ok(Err(e)) => {
            obs.signature = Some(if e.contains("delivery-id") { "delivery-id".into() } else if e.contains("marker") { "routing".into() } else { "identifiers".into() });
            Err(e)
        }
        Err(p) => {
            obs.signature = Some(panic_signature(&p[0]));
            Err(format!("panic: {}", p.join(" | ")))
        }
    }
}

fn resume_case(_ctx: &ShardCtx, c: &super::resume::Case, obs: &mut Obs) -> Result<(), String> {
    match guarded(|| super::resume::run_case(c)) {
        Ok(Ok(info)) => {
            if info.handle_changed {
                obs.class("resumed-under-a-different-peer-handle");
            }
            if info.waited {
                obs.class("send-waited-for-credit-on-the-resumed-link");
            }
            if c.reuse_old {
                obs.class("old-handle-given-to-another-link");
            }
            if info.handle_changed || info.waited {
                obs.nontrivial(c);
            }
            Ok(())
        }
        Ok(Err(e)) => {
            obs.signature = Some(if e.contains("not woken") { "resume-not-woken".into() } else if e.contains("marker") { "resume-routing".into() } else if e.contains("HANG") { "resume-hang".into() } else { "resume".into() });
            Err(e)
        }
        Err(p) => {
            obs.signature = Some(panic_signature(&p[0]));
            Err(format!("panic: {}", p.join(" | ")))
        }
    }
}

fn run(ctx: &ShardCtx, rep: &mut Report) {
    MAX_SHRINK_ITERS.store(400, std::sync::atomic::Ordering::Relaxed);
    pt_run(ctx, rep, "identifiers", ctx.budget(60_000, 3_000_000), case_strategy(), |c, o| case(ctx, c, o));
    pt_run(ctx, rep, "resume", ctx.budget(6_000, 300_000), super::resume::case_strategy(None, Some(true)), |c, o| resume_case(ctx, c, o));
    // listener role: the peer begins sessions on channel numbers of its own choice
    pt_run(ctx, rep, "listener", ctx.budget(30_000, 1_500_000), super::c11l::case_strategy(), |c, o| super::c11l::case(c, o));
}

fn replay(variant: &str, case_json: &Json) -> Result<(), String> {
    if variant == "resume" {
        let c: super::resume::Case = serde_json::from_value(case_json.clone()).map_err(|e| format!("bad case: {e}"))?;
        return super::resume::run_case(&c).map(|_| ());
    }
    if variant == "listener" {
        let c: super::c11l::Case = serde_json::from_value(case_json.clone()).map_err(|e| format!("bad case: {e}"))?;
        return super::c11l::run_case(&c).map(|_| ());
    }
    let c: Case = serde_json::from_value(case_json.clone()).map_err(|e| format!("bad case: {e}"))?;
    run_case(&c).map(|_| ())
}
