//! C15 — a misbehaving peer cannot crash, wedge or spin an endpoint.
//!
//! A real endpoint (client or listener) is brought into a generated state by a well-behaved scripted
//! peer, then the peer turns hostile for one generated attack (raw bytes, a frame with generated header
//! fields and body, a byte-mutated valid frame, or a protocol-violating performative sequence from a
//! catalogue), then turns cooperative again (or goes away). The oracle is in `run_async`.
use crate::driver::{guarded, hash_of, panic_signature, pt_run, Obs, PropMeta, Report, ShardCtx, Tier, Violation, MAX_SHRINK_ITERS};
use crate::duo;
use crate::peer::{as_bool, as_uint, Peer};
use crate::refcodec::{self, Choices, RValue};
use crate::rframe::{self, RFrame};
use crate::simnet::{self, CaseEnd, PipeCfg};
use fe2o3_amqp::acceptor::{ConnectionAcceptor, LinkAcceptor, LinkEndpoint, ListenerConnectionHandle, ListenerSessionHandle, SessionAcceptor};
use fe2o3_amqp::connection::ConnectionHandle;
use fe2o3_amqp::session::SessionHandle;
use fe2o3_amqp::types::messaging::{Body, Message};
use fe2o3_amqp::types::primitives::Value;
use fe2o3_amqp::{Connection, Receiver, Sender, Session};
use proptest::prelude::*;
use serde::{Deserialize, Serialize};
use serde_amqp::primitives::Binary;
use fe2o3_amqp::types::messaging::message::__private::Serializable;
use serde_json::Value as Json;
use std::collections::HashMap;
use std::time::Duration;

pub fn meta() -> PropMeta {
    PropMeta {
        id: "C15",
        level: "exploration",
        nontrivial_floor: 0.5,
        rule: "a real client or listener is brought to one of 9 states (opened; session begun; receiving link attached with credit; both links attached; first frame of a multi-frame delivery received; a send awaiting its outcome; close / end / detach sent and unanswered) by a well-behaved scripted peer, with a pending recv and pending send outstanding. The peer then sends one generated attack: raw bytes; a frame with generated size field (0..12, actual-k..actual+k, max-frame-size+1, 2^31-1, 2^32-1), doff (0..255), type byte, channel (mapped / unmapped / 65535) and body (empty, random, valid performative, truncated performative, unknown descriptor, nesting 1..4000 deep of list32 / described / array / map, declared-length bombs); a valid frame for the state with 1..4 byte mutations (set, bit flip, truncate, insert; size field fixed up or not); or one of 32 catalogue violations with edge-value parameters (transfers beyond credit and beyond the session window, dispositions over huge/unknown ranges in both roles, flow/transfer/detach for unattached handles, duplicate attach by name and by handle, frames on unmapped channels, begin again, begin naming an unknown remote channel, end on an unmapped channel, second open, transfer without/with jumping/with mismatching delivery-id, absurd flow values, aborted and garbage payloads, SASL frames mid-connection, oversized frames, frames after close). Afterwards the peer is cooperative (answers begin/attach/detach/end/close, settles, serves a probe link) when the framing is still intact, and goes away (EOF) when the attack left a frame unfinished. Oracle: no panic anywhere in the process; the case finishes under the virtual-time watchdog and the task-poll budget (a busy loop is reported exactly); peak live allocation and the largest single allocation while the attack is processed stay within 512 KiB + 64 x attack length + 4 x max-frame-size, and thread CPU time within 5 s per attack; every pending and follow-up operation of the application completes; if the endpoint wrote no close, the connection is still usable (new session, new link, one message received); if it wrote close/end/detach with an error, an operation of the application on that connection/session/link reports an error; a pending recv/send does not stay pending once its link, session or connection was shut down; after teardown no task is alive; an unrelated client<->listener connection in the same process still transfers a message. Non-trivial: the attack reached the endpoint in the generated state (setup completed) — distinct by hash of (role, stage, attack).",
        assumptions: &[
            "which level (link, session, connection) the endpoint shuts down for a given violation is not judged, only that the reaction is one of: ignore and stay usable, or shut down with an error visible to the application",
            "CPU time is the only non-deterministic measure; its bound (5 s for one attack that normally costs well under 1 ms) is three orders of magnitude above normal",
            "engine buffers >= 32 and a wide pipe while KF-engine-channel-deadlock / KF-engine-backpressure-deadlock are open",
        ],
        run,
        replay,
        crashy: true,
    }
}

// ---------------------------------------------------------------------------
// case

#[derive(Clone, Copy, Debug, PartialEq, Eq, Serialize, Deserialize, Hash)]
pub enum Stage {
    /// only the protocol headers were exchanged: the attack arrives instead of / before the open
    Header,
    Opened,
    Begun,
    RcvAttached,
    BothAttached,
    MidDelivery,
    SendPending,
    Closing,
    Ending,
    Detaching,
}

#[derive(Clone, Debug, PartialEq, Eq, Serialize, Deserialize, Hash)]
pub enum SizeSel {
    Actual,
    Abs(u32),
    Delta(i16),
}

#[derive(Clone, Debug, PartialEq, Eq, Serialize, Deserialize, Hash)]
pub enum BodySel {
    Empty,
    Random(Vec<u8>),
    Perf(u8),
    PerfTruncated(u8, u8),
    UnknownDescriptor(u64),
    /// kind 0 list32, 1 described-of-described, 2 array of arrays, 3 map values, 4 transfer payload (message body value) nested
    Nested(u8, u16),
    /// declared length/count far beyond the data: kind selects the constructor
    LenBomb(u8),
}

#[derive(Clone, Debug, PartialEq, Eq, Serialize, Deserialize, Hash)]
pub enum Attack {
    Raw(Vec<u8>),
    Frame { size: SizeSel, doff: u8, ftype: u8, chan: u8, body: BodySel },
    Mutated { base: u8, muts: Vec<(u16, u8, u8)>, fix_size: bool },
    Cat { v: u8, a: u32, b: u32 },
}

#[derive(Clone, Debug, PartialEq, Eq, Serialize, Deserialize, Hash)]
pub struct Case {
    /// 0: endpoint is a client, 1: endpoint is a listener
    pub role: u8,
    pub stage: Stage,
    pub attack: Attack,
    /// how often the attack is repeated back to back
    pub repeat: u8,
    pub ep_mfs: u32,
    pub ep_window: u32,
    pub bystander: bool,
    pub tokio_seed: u64,
    pub choices: Vec<u8>,
    /// (handshake stage) the open the peer sends after the attack advertises idle-time-out 0
    #[serde(default)]
    pub follow_open_idle0: bool,
}

const HARMLESS: Attack = Attack::Cat { v: 29, a: 3, b: 1 };
const HARMLESS_OPEN: Attack = Attack::Cat { v: 30, a: 65536, b: 1 };
const PEER_CH: u16 = 3;
const RCV_PH: u32 = 9; // peer's handle of the link on which the endpoint receives
const SND_PH: u32 = 4; // peer's handle of the link on which the endpoint sends
const RCV_CREDIT: u32 = 10;
pub const N_CAT: u8 = 32;

fn edge() -> BoxedStrategy<u32> {
    prop_oneof![
        Just(0u32),
        Just(1),
        Just(2),
        Just(5),
        Just(9),
        Just(10),
        Just(11),
        Just(100),
        Just(255),
        Just(256),
        Just(65535),
        Just(65536),
        Just((1u32 << 31) - 1),
        Just(1u32 << 31),
        Just(u32::MAX - 1),
        Just(u32::MAX),
        any::<u32>(),
    ]
    .boxed()
}

fn body_sel() -> BoxedStrategy<BodySel> {
    prop_oneof![
        1 => Just(BodySel::Empty),
        3 => proptest::collection::vec(any::<u8>(), 0..40).prop_map(BodySel::Random),
        3 => (0u8..9).prop_map(BodySel::Perf),
        3 => (0u8..9, any::<u8>()).prop_map(|(b, c)| BodySel::PerfTruncated(b, c)),
        2 => prop_oneof![Just(0u64), Just(0x0f), Just(0x19), Just(0x1e), Just(0x40), Just(0x70), Just(0x77), Just(u64::MAX), any::<u64>()].prop_map(BodySel::UnknownDescriptor),
        3 => (0u8..5, prop_oneof![1u16..8, 100u16..140, 1000u16..4000]).prop_map(|(k, d)| BodySel::Nested(k, d)),
        2 => (0u8..8).prop_map(BodySel::LenBomb),
    ]
    .boxed()
}

fn attack() -> BoxedStrategy<Attack> {
    prop_oneof![
        1 => proptest::collection::vec(any::<u8>(), 0..48).prop_map(Attack::Raw),
        1 => (0u32..12, proptest::collection::vec(any::<u8>(), 0..12)).prop_map(|(n, mut v)| {
            // a size field below the header size followed by a few bytes
            let mut b = n.to_be_bytes().to_vec();
            b.append(&mut v);
            Attack::Raw(b)
        }),
        4 => (
            prop_oneof![
                4 => Just(SizeSel::Actual),
                2 => (0u32..12).prop_map(SizeSel::Abs),
                1 => prop_oneof![Just(u32::MAX), Just((1u32 << 31) - 1), Just(1u32 << 31), Just(1 << 24)].prop_map(SizeSel::Abs),
                1 => Just(SizeSel::Abs(0xFFFF_FFF0)),
                2 => (-9i16..10).prop_map(SizeSel::Delta),
                // just above the endpoint's max-frame-size (resolved against the case at run time)
                1 => Just(SizeSel::Delta(i16::MAX)),
            ],
            prop_oneof![6 => Just(2u8), 1 => Just(0u8), 1 => Just(1u8), 1 => Just(3u8), 1 => Just(4u8), 1 => Just(255u8), 1 => any::<u8>()],
            prop_oneof![6 => Just(0u8), 2 => Just(1u8), 1 => Just(2u8), 1 => Just(255u8), 1 => any::<u8>()],
            0u8..4,
            body_sel(),
        )
            .prop_map(|(size, doff, ftype, chan, body)| Attack::Frame { size, doff, ftype, chan, body }),
        4 => (0u8..9, proptest::collection::vec((any::<u16>(), 0u8..4, any::<u8>()), 1..5), prop::bool::weighted(0.8)).prop_map(|(base, muts, fix_size)| Attack::Mutated { base, muts, fix_size }),
        8 => (0u8..N_CAT, edge(), edge()).prop_map(|(v, a, b)| Attack::Cat { v, a, b }),
    ]
    .boxed()
}

fn stage() -> BoxedStrategy<Stage> {
    prop_oneof![
        2 => Just(Stage::Header),
        1 => Just(Stage::Opened),
        1 => Just(Stage::Begun),
        2 => Just(Stage::RcvAttached),
        3 => Just(Stage::BothAttached),
        2 => Just(Stage::MidDelivery),
        2 => Just(Stage::SendPending),
        1 => Just(Stage::Closing),
        1 => Just(Stage::Ending),
        1 => Just(Stage::Detaching),
    ]
    .boxed()
}

pub fn case_strategy() -> BoxedStrategy<Case> {
    (0u8..2, stage(), attack(), prop_oneof![6 => Just(1u8), 1 => Just(2u8), 1 => Just(5u8)], prop_oneof![Just(512u32), Just(4096), Just(65536)], prop_oneof![3 => Just(2048u32), 1 => Just(3u32)], prop::bool::weighted(0.15), any::<u64>(), (proptest::collection::vec(any::<u8>(), 0..6), prop::bool::weighted(0.3)))
        .prop_map(|(role, stage, attack, repeat, ep_mfs, ep_window, bystander, tokio_seed, (choices, follow_open_idle0))| Case { role, stage, attack, repeat, ep_mfs, ep_window, bystander, tokio_seed, choices, follow_open_idle0 })
        .boxed()
}

// ---------------------------------------------------------------------------
// endpoint handles (client or listener flavour)

enum ConnH {
    C(ConnectionHandle<()>),
    L(ListenerConnectionHandle),
}
enum SessH {
    C(SessionHandle<()>),
    L(ListenerSessionHandle),
}

impl ConnH {
    async fn close(self) -> Result<(), String> {
        match self {
            ConnH::C(mut c) => c.close().await.map_err(|e| format!("{e:?}")),
            ConnH::L(mut c) => c.close().await.map_err(|e| format!("{e:?}")),
        }
    }
}
impl SessH {
    async fn end(self) -> Result<(), String> {
        match self {
            SessH::C(mut s) => s.end().await.map_err(|e| format!("{e:?}")),
            SessH::L(mut s) => s.end().await.map_err(|e| format!("{e:?}")),
        }
    }
    async fn attach_receiver(&mut self, name: &str) -> Result<Receiver, String> {
        let b = Receiver::builder().name(name).source("q").credit_mode(fe2o3_amqp::link::receiver::CreditMode::Auto(RCV_CREDIT));
        match self {
            SessH::C(s) => b.attach(s).await.map_err(|e| format!("{e:?}")),
            SessH::L(s) => b.attach(s).await.map_err(|e| format!("{e:?}")),
        }
    }
    async fn attach_sender(&mut self, name: &str) -> Result<Sender, String> {
        let b = Sender::builder().name(name).target("q");
        match self {
            SessH::C(s) => b.attach(s).await.map_err(|e| format!("{e:?}")),
            SessH::L(s) => b.attach(s).await.map_err(|e| format!("{e:?}")),
        }
    }
}

fn probe_payload() -> Vec<u8> {
    let m: Message<Body<Value>> = Message::builder().data(Binary::from(b"probe".to_vec())).build().map_body(|d: fe2o3_amqp::types::messaging::Data| Body::Data(vec![d].into()));
    serde_amqp::to_vec(&Serializable(m)).expect("encode probe")
}

// ---------------------------------------------------------------------------
// building the attack bytes

struct Ctx {
    ep_ch: u16,
    ep_mfs: u32,
    /// endpoint's handles (as written in its attach frames)
    ep_rcv_h: u32,
    ep_snd_h: u32,
    next_did: u32,
    has_session: bool,
    has_rcv: bool,
    has_snd: bool,
    /// delivery-id of the endpoint's outstanding unsettled send, if any
    ep_out_did: Option<u32>,
}

/// what the attack means for the follow-up
#[derive(Default, Debug)]
struct AttackInfo {
    bytes: Vec<u8>,
    /// the byte stream still consists of whole frames (or of a frame the endpoint must reject from its header)
    framing_intact: bool,
    peer_sent_close: bool,
    incoherent: bool,
    /// the attack starts with a frame whose size field is below the header size or above the endpoint's
    /// advertised max-frame-size: it has to be rejected, whatever the peer advertised for itself
    must_reject: bool,
    label: &'static str,
}

fn frame_bytes(ftype: u8, channel: u16, body: Option<&RValue>, payload: &[u8]) -> Vec<u8> {
    rframe::build_frame(ftype, channel, body, payload, &mut Choices::new(vec![]))
}

fn nested_bytes(kind: u8, depth: u16) -> Vec<u8> {
    let depth = depth as usize;
    match kind {
        0 => {
            // list32 containing one list32 ... innermost empty list
            let mut inner: Vec<u8> = vec![0x45];
            for _ in 0..depth {
                let mut v = vec![0xd0];
                v.extend_from_slice(&((inner.len() + 4) as u32).to_be_bytes());
                v.extend_from_slice(&1u32.to_be_bytes());
                v.extend_from_slice(&inner);
                inner = v;
            }
            inner
        }
        1 => {
            // described value whose descriptor is a described value ...
            let mut v = Vec::new();
            for _ in 0..depth {
                v.push(0x00);
            }
            v.extend_from_slice(&[0x43, 0x40]);
            for _ in 1..depth {
                v.push(0x40);
            }
            v
        }
        2 => {
            // array32 of one array32 ...
            let mut inner: Vec<u8> = vec![0x40];
            for i in 0..depth {
                let mut v = vec![0xf0];
                // size covers count + constructor + data
                let body_len = if i == 0 { 1 } else { inner.len() };
                v.extend_from_slice(&((4 + body_len) as u32).to_be_bytes());
                v.extend_from_slice(&1u32.to_be_bytes());
                v.extend_from_slice(&inner);
                inner = v;
            }
            inner
        }
        3 => {
            // map32 {null: map32 {...}}
            let mut inner: Vec<u8> = vec![0xc1, 1, 0];
            for _ in 0..depth {
                let mut v = vec![0xd1];
                v.extend_from_slice(&((4 + 1 + inner.len()) as u32).to_be_bytes());
                v.extend_from_slice(&2u32.to_be_bytes());
                v.push(0x40);
                v.extend_from_slice(&inner);
                inner = v;
            }
            inner
        }
        _ => {
            // amqp-value section holding nested lists
            let mut v = vec![0x00, 0x53, 0x77];
            v.extend(nested_bytes(0, depth as u16));
            v
        }
    }
}

fn len_bomb(kind: u8) -> Vec<u8> {
    match kind {
        0 => vec![0xd0, 0xff, 0xff, 0xff, 0xff, 0x00, 0x00, 0x00, 0x01],
        1 => vec![0xb0, 0xff, 0xff, 0xff, 0xf0],
        2 => vec![0xf0, 0xff, 0xff, 0xff, 0xff, 0xff, 0xff, 0xff, 0xff, 0x40],
        3 => vec![0xd1, 0x7f, 0xff, 0xff, 0xff, 0x7f, 0xff, 0xff, 0xfe],
        4 => vec![0x00, 0x53, 0x14, 0xd0, 0xff, 0xff, 0xff, 0xff, 0xff, 0xff, 0xff, 0xff], // transfer with list count 2^32-1
        5 => vec![0x00, 0x53, 0x12, 0xc0, 0x03, 0xff], // attach, list8 count 255, no data
        6 => vec![0xb1, 0x7f, 0xff, 0xff, 0xff, b'a'],
        _ => vec![0x00, 0x53, 0x13, 0xd0, 0x00, 0x00, 0x00, 0x04, 0xff, 0xff, 0xff, 0xff], // flow, size 4, count 2^32-1
    }
}

/// a performative that is valid in the current state (before mutation)
fn base_perf(base: u8, cx: &Ctx) -> (u16, RValue, Vec<u8>) {
    match base % 9 {
        0 => (0, Peer::open_body("again", None, None, None), vec![]),
        1 => (7, Peer::begin_body(None, 0, 100, 100, None), vec![]),
        2 => (PEER_CH, Peer::attach_body("x", 20, false, None, None, Some(0), None, false), vec![]),
        3 => (PEER_CH, Peer::flow_body(Some(0), 100_000, cx.next_did, 100_000, Some(SND_PH), Some(0), Some(10), false, false), vec![]),
        4 => (PEER_CH, Peer::transfer_body(RCV_PH, Some(cx.next_did), Some(b"t"), Some(0), Some(true), false, None, false), probe_payload()),
        5 => (PEER_CH, Peer::disposition_body(true, 0, None, true, Some(Peer::accepted())), vec![]),
        6 => (PEER_CH, Peer::detach_body(RCV_PH, true, None), vec![]),
        7 => (PEER_CH, Peer::end_body(None), vec![]),
        _ => (0, Peer::close_body(None), vec![]),
    }
}

fn build_attack(c: &Case, cx: &Ctx) -> AttackInfo {
    let mut info = AttackInfo::default();
    match &c.attack {
        Attack::Raw(b) => {
            info.bytes = b.clone();
            info.label = "raw-bytes";
            // a size field below 8 or above max-frame-size must be rejected from the header alone
            if b.len() >= 4 {
                let sz = u32::from_be_bytes([b[0], b[1], b[2], b[3]]);
                info.framing_intact = sz as usize == b.len() && sz >= 8 && sz <= cx.ep_mfs;
            }
        }
        Attack::Frame { size, doff, ftype, chan, body } => {
            info.label = "frame-fields";
            let channel = match chan {
                0 => PEER_CH,
                1 => 0,
                2 => 9,
                _ => 65535,
            };
            let mut bb: Vec<u8> = match body {
                BodySel::Empty => vec![],
                BodySel::Random(v) => v.clone(),
                BodySel::Perf(b) => {
                    let (_, v, p) = base_perf(*b, cx);
                    let mut o = refcodec::encode_compact(&v);
                    o.extend(p);
                    o
                }
                BodySel::PerfTruncated(b, cut) => {
                    let (_, v, p) = base_perf(*b, cx);
                    let mut o = refcodec::encode_compact(&v);
                    o.extend(p);
                    let k = (*cut as usize * (o.len() + 1)) >> 8;
                    o.truncate(k);
                    o
                }
                BodySel::UnknownDescriptor(d) => refcodec::encode_compact(&RValue::described(RValue::Ulong(*d), RValue::List(vec![RValue::Uint(1), RValue::Null, RValue::Bool(true)]))),
                BodySel::Nested(k, d) => {
                    if *k == 4 {
                        let mut o = refcodec::encode_compact(&Peer::transfer_body(RCV_PH, Some(cx.next_did), Some(b"n"), Some(0), Some(true), false, None, false));
                        o.extend(nested_bytes(4, *d));
                        o
                    } else {
                        nested_bytes(*k, *d)
                    }
                }
                BodySel::LenBomb(k) => len_bomb(*k),
            };
            // extended header bytes when doff > 2 (kept small: up to 4*doff must fit)
            let ext = if *doff > 2 && *doff <= 6 { vec![0u8; 4 * (*doff as usize - 2)] } else { vec![] };
            let mut f = vec![0, 0, 0, 0, *doff, *ftype];
            f.extend_from_slice(&channel.to_be_bytes());
            f.extend(ext);
            f.append(&mut bb);
            let actual = f.len() as u32;
            let sz = match size {
                SizeSel::Actual => actual,
                SizeSel::Abs(n) => *n,
                SizeSel::Delta(i16::MAX) => cx.ep_mfs + 1,
                SizeSel::Delta(d) => (actual as i64 + *d as i64).max(0) as u32,
            };
            f[0..4].copy_from_slice(&sz.to_be_bytes());
            info.framing_intact = sz == actual && sz >= 8 && sz <= cx.ep_mfs;
            info.bytes = f;
        }
        Attack::Mutated { base, muts, fix_size } => {
            info.label = "mutated-frame";
            let (ch, v, p) = base_perf(*base, cx);
            let mut f = frame_bytes(0, ch, Some(&v), &p);
            for (pos, op, val) in muts {
                if f.is_empty() {
                    break;
                }
                let i = (*pos as usize * f.len()) >> 16;
                match op % 4 {
                    0 => f[i] = *val,
                    1 => f[i] ^= 1 << (val % 8),
                    2 => f.truncate(i.max(1)),
                    _ => f.insert(i, *val),
                }
            }
            if *fix_size && f.len() >= 4 {
                let n = f.len() as u32;
                f[0..4].copy_from_slice(&n.to_be_bytes());
            }
            if f.len() >= 4 {
                let sz = u32::from_be_bytes([f[0], f[1], f[2], f[3]]);
                info.framing_intact = sz as usize == f.len() && sz >= 8 && sz <= cx.ep_mfs;
            }
            info.bytes = f;
        }
        Attack::Cat { v, a, b } => {
            info.framing_intact = true;
            let (label, frames, closes) = catalogue(*v, *a, *b, cx);
            info.label = label;
            info.peer_sent_close = closes;
            for fr in frames {
                info.bytes.extend(fr);
            }
        }
    }
    if info.bytes.len() >= 4 {
        let sz = u32::from_be_bytes([info.bytes[0], info.bytes[1], info.bytes[2], info.bytes[3]]);
        info.must_reject = sz < 8 || sz > cx.ep_mfs;
    }
    // a begin on the channel the peer is already using makes the peer's own later frames ambiguous:
    // no coherent cooperative follow-up exists, the peer goes away instead
    if info.framing_intact {
        if let Ok((items, _)) = rframe::parse_stream(&info.bytes) {
            for it in items {
                if let rframe::Item::Frame(f) = it {
                    if f.size > cx.ep_mfs {
                        // rejected from its header; whatever follows is not decoded any more
                        info.framing_intact = false;
                    }
                    if f.name() == "begin" && f.channel == PEER_CH && cx.has_session {
                        info.framing_intact = false;
                        info.incoherent = true;
                    }
                }
            }
        }
    }
    // the same for a begin whose body the strict reference parser refuses but a lenient decoder may still
    // read (e.g. a list whose size byte is wrong): walk the frames by their size fields
    if info.framing_intact && cx.has_session {
        let b = &info.bytes;
        let mut pos = 0usize;
        while pos + 8 <= b.len() {
            let size = u32::from_be_bytes([b[pos], b[pos + 1], b[pos + 2], b[pos + 3]]) as usize;
            if size < 8 || pos + size > b.len() {
                break;
            }
            let ch = u16::from_be_bytes([b[pos + 6], b[pos + 7]]);
            let body = &b[pos + (b[pos + 4] as usize * 4).min(size)..pos + size];
            let is_begin = (body.len() >= 3 && body[0] == 0 && body[1] == 0x53 && body[2] == 0x11) || (body.len() >= 10 && body[0] == 0 && body[1] == 0x80 && body[2..9] == [0, 0, 0, 0, 0, 0, 0] && body[9] == 0x11);
            if b[pos + 5] == 0 && ch == PEER_CH && is_begin {
                info.framing_intact = false;
                info.incoherent = true;
            }
            pos += size;
        }
    }
    if c.repeat > 1 && info.framing_intact {
        let one = info.bytes.clone();
        for _ in 1..c.repeat {
            info.bytes.extend_from_slice(&one);
        }
    }
    info
}

/// catalogue of protocol violations; returns (label, frames, whether the peer itself closed the connection)
fn catalogue(v: u8, a: u32, b: u32, cx: &Ctx) -> (&'static str, Vec<Vec<u8>>, bool) {
    let f = |ch: u16, body: RValue, payload: &[u8]| frame_bytes(0, ch, Some(&body), payload);
    let msg = probe_payload();
    let state = |k: u32| match k % 6 {
        0 => Some(Peer::accepted()),
        1 => Some(Peer::released()),
        2 => Some(Peer::rejected("no")),
        3 => Some(Peer::modified(true, true)),
        4 => Some(Peer::received(a, b as u64)),
        _ => None,
    };
    match v % N_CAT {
        0 => {
            // more transfers than the credit granted
            let n = RCV_CREDIT + 1 + a % 3;
            ("transfers-beyond-credit", (0..n).map(|i| f(PEER_CH, Peer::transfer_body(RCV_PH, Some(cx.next_did.wrapping_add(i)), Some(&[i as u8]), Some(0), Some(true), false, None, false), &msg)).collect(), false)
        }
        1 => {
            // more transfer frames than the incoming window (effective when the window is 3)
            let n = 5 + a % 4;
            ("transfers-beyond-window", (0..n).map(|i| f(PEER_CH, Peer::transfer_body(RCV_PH, Some(cx.next_did.wrapping_add(i)), Some(&[i as u8]), Some(0), Some(true), false, None, false), &msg)).collect(), false)
        }
        2 => ("disposition-range-as-receiver", vec![f(PEER_CH, Peer::disposition_body(true, a, Some(b), a % 2 == 0, state(b)), &[])], false),
        3 => ("disposition-range-as-sender", vec![f(PEER_CH, Peer::disposition_body(false, a, Some(b), b % 2 == 0, state(a)), &[])], false),
        4 => ("disposition-no-last", vec![f(PEER_CH, Peer::disposition_body(a % 2 == 0, b, None, true, state(a)), &[])], false),
        5 => ("flow-unattached-handle", vec![f(PEER_CH, Peer::flow_body(Some(0), 100, cx.next_did, 100, Some(a.max(30)), Some(0), Some(b), false, false), &[])], false),
        6 => ("transfer-unattached-handle", vec![f(PEER_CH, Peer::transfer_body(a.max(30), Some(cx.next_did), Some(b"u"), Some(0), Some(true), false, None, false), &msg)], false),
        7 => ("detach-unattached-handle", vec![f(PEER_CH, Peer::detach_body(a.max(30), b % 2 == 0, None), &[])], false),
        8 => ("duplicate-attach-name", vec![f(PEER_CH, Peer::attach_body("r", 21, false, None, None, Some(0), None, false), &[])], false),
        9 => ("duplicate-attach-handle", vec![f(PEER_CH, Peer::attach_body("other", RCV_PH, false, None, None, Some(0), None, false), &[])], false),
        10 => ("attach-huge-handle", vec![f(PEER_CH, Peer::attach_body("huge", a, b % 2 == 0, None, None, Some(0), None, false), &[])], false),
        11 => {
            let ch = if a % 2 == 0 { 9 } else { 65535 };
            let body = match b % 6 {
                0 => Peer::flow_body(Some(0), 100, 0, 100, None, None, None, false, false),
                1 => Peer::transfer_body(0, Some(0), Some(b"t"), Some(0), Some(true), false, None, false),
                2 => Peer::attach_body("y", 0, false, None, None, Some(0), None, false),
                3 => Peer::disposition_body(true, 0, None, true, Some(Peer::accepted())),
                4 => Peer::detach_body(0, true, None),
                _ => Peer::end_body(None),
            };
            ("frame-on-unmapped-channel", vec![f(ch, body, &[])], false)
        }
        12 => ("begin-again-same-channel", vec![f(PEER_CH, Peer::begin_body(if a % 2 == 0 { None } else { Some(cx.ep_ch) }, a, b, 100, None), &[])], false),
        13 => ("begin-unknown-remote-channel", vec![f(8, Peer::begin_body(Some((a % 65536) as u16), 0, 100, 100, None), &[])], false),
        14 => ("second-open", vec![f(0, Peer::open_body("again", Some(a), Some((b % 65536) as u16), match b % 4 { 0 => None, 1 => Some(0), 2 => Some(1), _ => Some(a) }), &[])], false),
        15 => ("open-on-session-channel", vec![f(PEER_CH, Peer::open_body("again", None, None, None), &[])], false),
        16 => ("transfer-without-delivery-id", vec![f(PEER_CH, Peer::transfer_body(RCV_PH, None, None, None, None, a % 2 == 0, None, false), &msg)], false),
        17 => ("transfer-delivery-id-jump", vec![f(PEER_CH, Peer::transfer_body(RCV_PH, Some(a), Some(b"j"), Some(0), Some(true), false, None, false), &msg)], false),
        18 => (
            "continuation-mismatch",
            vec![
                f(PEER_CH, Peer::transfer_body(RCV_PH, Some(cx.next_did), Some(b"m"), Some(0), Some(false), true, None, false), &msg[..msg.len() / 2]),
                f(PEER_CH, Peer::transfer_body(RCV_PH, Some(cx.next_did.wrapping_add(1 + a % 3)), Some(b"other"), Some(b), Some(true), false, Some(1), false), &msg[msg.len() / 2..]),
            ],
            false,
        ),
        19 => ("flow-absurd-link-values", vec![f(PEER_CH, Peer::flow_body(Some(a), b, cx.next_did, 100, Some(SND_PH), Some(a), Some(b), b % 2 == 0, a % 2 == 0), &[])], false),
        20 => ("flow-absurd-session-values", vec![f(PEER_CH, Peer::flow_body(if a % 3 == 0 { None } else { Some(a) }, b, a, b, None, None, None, false, a % 2 == 0), &[])], false),
        21 => ("flow-link-fields-without-handle", vec![f(PEER_CH, Peer::flow_body(Some(0), 100, 0, 100, None, Some(a), Some(b), false, false), &[])], false),
        22 => ("aborted-transfer", vec![f(PEER_CH, Peer::transfer_body(RCV_PH, Some(cx.next_did), Some(b"a"), Some(0), None, a % 2 == 0, None, true), &msg[..(b as usize % (msg.len() + 1))])], false),
        23 => {
            let junk: Vec<u8> = (0..(a % 64)).map(|i| (i as u8).wrapping_mul(37).wrapping_add(b as u8)).collect();
            ("garbage-payload", vec![f(PEER_CH, Peer::transfer_body(RCV_PH, Some(cx.next_did), Some(b"g"), Some(0), Some(true), false, None, false), &junk)], false)
        }
        24 => {
            let mech = RValue::described(RValue::Ulong(0x40), RValue::List(vec![RValue::Array(vec![RValue::sym("PLAIN")])]));
            let outcome = RValue::described(RValue::Ulong(0x44), RValue::List(vec![RValue::Ubyte((a % 256) as u8)]));
            ("sasl-frame-mid-connection", vec![frame_bytes(1, 0, Some(if b % 2 == 0 { &mech } else { &outcome }), &[])], false)
        }
        25 => {
            // a frame larger than the endpoint's max-frame-size, all bytes supplied
            let pad = vec![0x40u8; cx.ep_mfs as usize + 1 + (a % 7) as usize];
            ("oversized-frame", vec![f(PEER_CH, Peer::transfer_body(RCV_PH, Some(cx.next_did), Some(b"o"), Some(0), Some(true), false, None, false), &pad)], false)
        }
        26 => {
            let more = match b % 4 {
                0 => f(PEER_CH, Peer::flow_body(Some(0), 100, 0, 100, None, None, None, false, false), &[]),
                1 => f(0, Peer::close_body(None), &[]),
                2 => f(7, Peer::begin_body(None, 0, 100, 100, None), &[]),
                _ => f(PEER_CH, Peer::transfer_body(RCV_PH, Some(cx.next_did), Some(b"c"), Some(0), Some(true), false, None, false), &msg),
            };
            ("frames-after-close", vec![f(0, Peer::close_body(if a % 2 == 0 { None } else { Some(Peer::error_body("amqp:internal-error", None)) }), &[]), more], true)
        }
        27 => ("end-then-more-on-channel", vec![f(PEER_CH, Peer::end_body(None), &[]), f(PEER_CH, Peer::transfer_body(RCV_PH, Some(cx.next_did), Some(b"e"), Some(0), Some(true), false, None, false), &msg), f(PEER_CH, Peer::flow_body(Some(0), 100, 0, 100, Some(SND_PH), Some(0), Some(a), false, false), &[])], false),
        28 => ("detach-then-transfer-on-handle", vec![f(PEER_CH, Peer::detach_body(RCV_PH, a % 2 == 0, None), &[]), f(PEER_CH, Peer::transfer_body(RCV_PH, Some(cx.next_did), Some(b"d"), Some(0), Some(true), false, None, false), &msg)], false),
        31 => {
            // the peer advertises an outgoing-window of 0 or 1 and then sends more transfers than that
            let w = a % 2;
            let mut fr = vec![f(PEER_CH, Peer::flow_body(Some(0), 100_000, cx.next_did, w, None, None, None, false, false), &[])];
            for i in 0..(2 + b % 3) {
                fr.push(f(PEER_CH, Peer::transfer_body(RCV_PH, Some(cx.next_did.wrapping_add(i)), Some(&[i as u8]), Some(0), Some(true), false, None, false), &msg));
            }
            ("transfers-beyond-own-outgoing-window", fr, false)
        }
        30 => {
            // an open with a max-frame-size below the protocol minimum / odd values
            let container = match b % 3 { 0 => "".to_string(), 1 => "verif-peer".to_string(), _ => "x".repeat(300) };
            ("hostile-open", vec![f(0, Peer::open_body(&container, Some(a), Some(64 + (b % 1000) as u16), if b % 5 == 0 { Some(0) } else { None }), &[])], false)
        }
        _ => {
            // many empty frames and empty-bodied frames on various channels: legal noise
            let n = 1 + a % 50;
            ("empty-frames", (0..n).map(|i| vec![0, 0, 0, 8, 2, 0, ((i.wrapping_mul(b)) % 3) as u8, 0]).collect(), false)
        }
    }
}

// ---------------------------------------------------------------------------
// the cooperative peer used after the attack

#[derive(Default)]
struct Coop {
    /// endpoint channel -> my channel
    sessions: HashMap<u16, u16>,
    /// my next transfer id per my channel
    next_out: HashMap<u16, u32>,
    /// (endpoint channel, endpoint handle) -> (my handle, i am sender, name, served)
    links: HashMap<(u16, u32), (u32, bool, String, bool)>,
    names_initiated: Vec<String>,
    closed: bool,
    log: Vec<String>,
}

impl Coop {
    async fn on_frame(&mut self, peer: &mut Peer, f: &RFrame) -> Result<(), String> {
        let c = f.channel;
        match f.name() {
            "begin" => {
                if matches!(f.field(0), RValue::Null) {
                    let my = 20 + c;
                    self.sessions.insert(c, my);
                    self.next_out.insert(my, 0);
                    peer.send_frame(my, &Peer::begin_body(Some(c), 0, 100_000, 100_000, None), &[]).await?;
                } else if let RValue::Ushort(my) = f.field(0) {
                    self.sessions.insert(c, my);
                    self.next_out.entry(my).or_insert(0);
                }
            }
            "attach" => {
                let name = match f.field(0) {
                    RValue::Str(s) => s,
                    _ => String::new(),
                };
                let h = as_uint(&f.field(1)).unwrap_or(0);
                let they_receive = as_bool(&f.field(2)).unwrap_or(false);
                let my = match self.sessions.get(&c) {
                    Some(m) => *m,
                    None => return Ok(()),
                };
                if self.names_initiated.contains(&name) {
                    // the answer to an attach of mine
                    if let Some(e) = self.links.values_mut().find(|e| e.2 == name) {
                        let _ = e;
                    }
                    self.links.insert((c, h), (60, they_receive, name, false));
                    return Ok(());
                }
                let my_h = 70 + h;
                self.links.insert((c, h), (my_h, they_receive, name.clone(), false));
                peer.send_frame(my, &Peer::attach_body(&name, my_h, !they_receive, None, None, if they_receive { Some(0) } else { None }, None, false), &[]).await?;
                if !they_receive {
                    peer.send_frame(my, &Peer::flow_body(Some(0), 100_000, *self.next_out.get(&my).unwrap_or(&0), 100_000, Some(my_h), Some(0), Some(10), false, false), &[]).await?;
                }
            }
            "flow" => {
                if let Some(h) = as_uint(&f.field(4)) {
                    let credit = as_uint(&f.field(6)).unwrap_or(0);
                    let my = self.sessions.get(&c).copied();
                    if let (Some(e), Some(my)) = (self.links.get_mut(&(c, h)), my) {
                        if e.1 && !e.3 && credit > 0 && e.2.starts_with("probe") {
                            e.3 = true;
                            let id = self.next_out.entry(my).or_insert(0);
                            let did = *id;
                            *id = id.wrapping_add(1);
                            let my_h = e.0;
                            peer.send_frame(my, &Peer::transfer_body(my_h, Some(did), Some(b"p"), Some(0), Some(true), false, None, false), &probe_payload()).await?;
                            self.log.push(format!("coop: served probe on link {my_h}"));
                        }
                    }
                }
            }
            "transfer" => {
                let settled = as_bool(&f.field(4)).unwrap_or(false);
                if let (Some(did), false, Some(my)) = (as_uint(&f.field(1)), settled, self.sessions.get(&c).copied()) {
                    peer.send_frame(my, &Peer::disposition_body(true, did, None, true, Some(Peer::accepted())), &[]).await?;
                }
            }
            "detach" => {
                let h = as_uint(&f.field(0)).unwrap_or(0);
                let closed = as_bool(&f.field(1)).unwrap_or(false);
                if let (Some(e), Some(my)) = (self.links.remove(&(c, h)), self.sessions.get(&c).copied()) {
                    peer.send_frame(my, &Peer::detach_body(e.0, closed, None), &[]).await?;
                }
            }
            "end" => {
                if let Some(my) = self.sessions.remove(&c) {
                    self.links.retain(|k, _| k.0 != c);
                    peer.send_frame(my, &Peer::end_body(None), &[]).await?;
                }
            }
            "close" => {
                if !self.closed {
                    self.closed = true;
                    peer.send_frame(0, &Peer::close_body(None), &[]).await?;
                }
            }
            _ => {}
        }
        Ok(())
    }
}

// ---------------------------------------------------------------------------
// the case

#[derive(Default, Debug)]
pub struct Info {
    pub label: String,
    pub reaction: &'static str,
    pub log: Vec<String>,
    pub attack_len: usize,
    pub peak: usize,
    pub maxreq: usize,
    pub polls: u64,
}

fn thread_cpu() -> Duration {
    let mut ts = libc::timespec { tv_sec: 0, tv_nsec: 0 };
    // SAFETY: plain syscall wrapper writing into a local timespec
    unsafe {
        libc::clock_gettime(libc::CLOCK_THREAD_CPUTIME_ID, &mut ts);
    }
    Duration::new(ts.tv_sec as u64, ts.tv_nsec as u32)
}

const OP_TIMEOUT: Duration = Duration::from_secs(60);

macro_rules! timed {
    ($what:expr, $log:expr, $errs:expr, $fut:expr) => {{
        match tokio::time::timeout(OP_TIMEOUT, $fut).await {
            Ok(r) => {
                $log.push(format!("{}={}", $what, match &r { Ok(_) => "Ok".to_string(), Err(e) => format!("Err({e})") }));
                Some(r)
            }
            Err(_) => {
                $errs.push(format!("{} did not complete within {}s of virtual time although the peer answers every frame", $what, OP_TIMEOUT.as_secs()));
                None
            }
        }
    }};
}

/// Stage::Header — the attack arrives right after the protocol headers, while the application is
/// still inside open_with_stream() / accept()
async fn run_handshake(c: &Case) -> Result<Info, String> {
    let mut info = Info::default();
    let mut errs: Vec<String> = Vec::new();
    let mut log: Vec<String> = Vec::new();
    let (a, bq, _ctl) = simnet::pipe(PipeCfg { cap: 1 << 22, ..PipeCfg::default() });
    let mut peer = Peer::new(bq, c.choices.clone());
    let role = c.role;
    let mfs = c.ep_mfs;
    let mut open_task = tokio::spawn(async move {
        if role == 0 {
            Connection::builder().container_id("verif-client").max_frame_size(mfs).buffer_size(64).open_with_stream(a).await.map(ConnH::C).map_err(|e| format!("{e:?}"))
        } else {
            let acc = ConnectionAcceptor::builder().container_id("verif-listener").max_frame_size(mfs).buffer_size(64).build();
            acc.accept(a).await.map(ConnH::L).map_err(|e| format!("{e:?}"))
        }
    });
    if role == 0 {
        peer.expect_header().await.map_err(|e| format!("HARNESS: {e}"))?;
        peer.send_header(rframe::AMQP_HEADER).await.map_err(|e| format!("HARNESS: {e}"))?;
    } else {
        peer.send_header(rframe::AMQP_HEADER).await.map_err(|e| format!("HARNESS: {e}"))?;
        peer.expect_header().await.map_err(|e| format!("HARNESS: {e}"))?;
    }
    let _ = peer.new_frames().await;
    let cx = Ctx { ep_ch: 0, ep_mfs: c.ep_mfs, ep_rcv_h: 0, ep_snd_h: 0, next_did: 0, has_session: false, has_rcv: false, has_snd: false, ep_out_did: None };
    let atk = build_attack(c, &cx);
    info.label = atk.label.to_string();
    info.attack_len = atk.bytes.len();
    let polls0 = simnet::polls_now();
    let cpu0 = thread_cpu();
    let win = crate::alloc::begin();
    let _ = peer.send_bytes(&atk.bytes).await;
    peer.settle().await;
    let (peak, maxreq) = win.end();
    let cpu = thread_cpu().saturating_sub(cpu0);
    info.peak = peak;
    info.maxreq = maxreq;
    info.polls = simnet::polls_now() - polls0;
    work_bounds(&mut errs, atk.bytes.len(), c.ep_mfs, peak, maxreq, cpu, info.polls);
    let resp = peer.new_frames().await;
    let ep_close = resp.iter().find(|f| f.name() == "close").map(|f| !matches!(f.field(0), RValue::Null));
    let ep_gone = peer.eof || peer.io_error.is_some();
    log.push(format!("endpoint wrote after the attack: [{}]{}", resp.iter().map(|f| f.name()).collect::<Vec<_>>().join(","), if ep_gone { " and closed the transport" } else { "" }));
    info.reaction = if ep_close.is_some() || ep_gone { "connection-shut-down" } else { "ignored-or-accepted" };
    let cooperative = (atk.framing_intact || atk.must_reject) && !ep_gone;
    let must_reject = atk.must_reject;
    // was the first attack frame itself a (possibly hostile) open on channel 0?
    let attack_opened = matches!(rframe::parse_stream(&atk.bytes), Ok((ref items, _)) if matches!(items.first(), Some(rframe::Item::Frame(f)) if f.name() == "open" && f.ftype == 0));
    let sacc = SessionAcceptor::builder().incoming_window(c.ep_window).outgoing_window(2048).buffer_size(64).build();
    let mut coop = Coop { closed: atk.peer_sent_close, ..Coop::default() };
    let harmless = c.attack == HARMLESS_OPEN;
    let app = async {
        let mut log: Vec<String> = Vec::new();
        let mut errs: Vec<String> = Vec::new();
        let conn = match tokio::time::timeout(OP_TIMEOUT, &mut open_task).await {
            Ok(Ok(r)) => r,
            Ok(Err(e)) => {
                errs.push(format!("the task inside open/accept panicked: {e}"));
                return (log, errs);
            }
            Err(_) => {
                errs.push(format!("{} did not complete within 60 s of virtual time although the peer {}", if role == 0 { "open_with_stream()" } else { "accept()" }, if cooperative { "completed the handshake" } else { "closed the transport" }));
                open_task.abort();
                return (log, errs);
            }
        };
        match conn {
            Err(e) => {
                log.push(format!("open/accept=Err({e})"));
                if harmless {
                    errs.push(format!("open/accept failed after harmless empty frames: {e}"));
                }
            }
            Ok(mut conn) => {
                log.push("open/accept=Ok".into());
                let mut probe_err = None;
                if cooperative && !must_reject && ep_close.is_none() && !atk.peer_sent_close {
                    let probe = async {
                        let mut ps = match &mut conn {
                            ConnH::C(cn) => SessH::C(Session::begin(cn).await.map_err(|e| format!("begin: {e:?}"))?),
                            ConnH::L(cn) => SessH::L(sacc.accept(cn).await.map_err(|e| format!("session accept: {e:?}"))?),
                        };
                        let mut r = ps.attach_receiver("probe-conn").await.map_err(|e| format!("attach: {e}"))?;
                        let d = r.recv::<Body<Value>>().await.map_err(|e| format!("recv: {e:?}"))?;
                        r.accept(&d).await.map_err(|e| format!("accept: {e:?}"))?;
                        let mut s = ps.attach_sender("probe-snd").await.map_err(|e| format!("attach sender: {e}"))?;
                        s.send("from the endpoint").await.map_err(|e| format!("send: {e:?}"))?;
                        s.close().await.map_err(|e| format!("probe sender close: {e:?}"))?;
                        r.close().await.map_err(|e| format!("probe link close: {e:?}"))?;
                        ps.end().await.map_err(|e| format!("probe session end: {e}"))?;
                        Ok::<(), String>(())
                    };
                    match tokio::time::timeout(OP_TIMEOUT, probe).await {
                        Ok(Ok(())) => log.push("probe(new session, links, a message each way)=Ok".into()),
                        Ok(Err(e)) => probe_err = Some(format!("the connection was opened and the endpoint sent no close, yet it is not usable: {e}")),
                        Err(_) => probe_err = Some("the connection was opened and the endpoint sent no close, yet a new session/link/message on it does not complete".into()),
                    }
                }
                let mut conn_err = false;
                if let Some(x) = timed!("connection.close", log, errs, conn.close()) {
                    conn_err = x.is_err();
                }
                if let Some(e) = probe_err {
                    if conn_err && !harmless {
                        log.push(format!("probe failed ({e}) but close() reported an error"));
                    } else {
                        errs.push(e);
                    }
                }
                if ep_close == Some(true) && !conn_err {
                    errs.push("the endpoint closed the connection with an error, but close() on the connection handle reported success".into());
                }
                if must_reject && !conn_err {
                    errs.push("a frame whose size field is below the frame header size or above the max-frame-size the endpoint advertised was not rejected: the connection was opened and closed cleanly".into());
                }
            }
        }
        (log, errs)
    };
    let (alog, aerrs) = if cooperative {
        if !attack_opened {
            let _ = peer.send_frame(0, &Peer::open_body("verif-peer", Some(65536), None, if c.follow_open_idle0 { Some(0) } else { None }), &[]).await;
        }
        if role == 1 && ep_close.is_none() && !atk.peer_sent_close {
            let _ = peer.send_frame(40, &Peer::begin_body(None, 0, 100_000, 100_000, None), &[]).await;
            coop.next_out.insert(40, 0);
        }
        for f in resp.iter() {
            if f.name() == "close" {
                let _ = coop.on_frame(&mut peer, f).await;
            }
        }
        tokio::pin!(app);
        let mut peer_opt = Some(peer);
        loop {
            let mut leave = false;
            match peer_opt.as_mut() {
                Some(p) => {
                    tokio::select! {
                        biased;
                        r = &mut app => break r,
                        f = p.next_frame() => {
                            match f {
                                Some(f) => { let _ = coop.on_frame(p, &f).await; }
                                None => tokio::time::sleep(Duration::from_millis(5)).await,
                            }
                            // after a frame that had to be rejected the peer answers the close and hangs up,
                            // as a real peer does (the endpoint cannot decode anything any more)
                            leave = must_reject && coop.closed;
                        }
                    }
                }
                None => break app.await,
            }
            if leave {
                peer_opt = None;
            }
        }
    } else {
        drop(peer);
        app.await
    };
    log.extend(alog);
    errs.extend(aerrs);
    log.extend(coop.log.clone());
    simnet::settle().await;
    info.log = log;
    if errs.is_empty() {
        Ok(info)
    } else {
        Err(format!("{}\n  attack: {} ({} bytes: {})\n  log: {}", errs.join("\n  "), info.label, atk.bytes.len(), hex(&atk.bytes, 96), info.log.join(" | ")))
    }
}

fn work_bounds(errs: &mut Vec<String>, len: usize, ep_mfs: u32, peak: usize, maxreq: usize, cpu: Duration, polls: u64) {
    let budget = (512usize << 10) + 64 * len + 4 * ep_mfs as usize;
    if peak > budget {
        errs.push(format!("processing a {len}-byte attack held {peak} bytes live at peak (budget {budget})"));
    }
    if maxreq > budget {
        errs.push(format!("processing a {len}-byte attack made a single allocation of {maxreq} bytes (budget {budget})"));
    }
    if cpu > Duration::from_secs(5) {
        errs.push(format!("processing a {len}-byte attack took {cpu:?} of CPU time"));
    }
    let poll_budget = 20_000 + 200 * len as u64;
    if polls > poll_budget {
        errs.push(format!("processing a {len}-byte attack took {polls} task polls (budget {poll_budget})"));
    }
}

pub async fn run_async(c: &Case) -> Result<Info, String> {
    if c.stage == Stage::Header {
        return run_handshake(c).await;
    }
    let mut info = Info::default();
    let mut errs: Vec<String> = Vec::new();
    let mut log: Vec<String> = Vec::new();
    // ---- bystander connection (real client <-> real listener on its own transport)
    let mut by = None;
    if c.bystander {
        let dcfg = duo::DuoCfg { pipe: PipeCfg { cap: 1 << 22, ..PipeCfg::default() }, ..duo::DuoCfg::default() };
        let mut d = duo::connect(&dcfg).await.map_err(|e| format!("HARNESS: bystander connect: {e}"))?;
        let (mut cs, mut ls) = duo::begin_pair(&dcfg, &mut d).await.map_err(|e| format!("HARNESS: bystander begin: {e}"))?;
        let lc = duo::LinkCfg { dir: 0, initiator: 0, snd_settle: 0, rcv_settle: 0, credit: duo::Credit::Auto(5), auto_accept: true, link_buf: 64, max_message_size: None };
        let (s, r) = duo::attach_pair("by", &lc, &mut cs, &mut ls).await.map_err(|e| format!("HARNESS: bystander attach: {e}"))?;
        by = Some((d, cs, ls, s, r));
    }
    // ---- setup
    let (a, bq, ctl) = simnet::pipe(PipeCfg { cap: 1 << 22, ..PipeCfg::default() });
    let mut peer = Peer::new(bq, c.choices.clone());
    let mut conn = if c.role == 0 {
        let open = Connection::builder().container_id("verif-client").max_frame_size(c.ep_mfs).buffer_size(64).open_with_stream(a);
        let (conn, po) = tokio::join!(open, peer.server_open(Some(65536), None, None));
        po.map_err(|e| format!("HARNESS: {e}"))?;
        ConnH::C(conn.map_err(|e| format!("HARNESS: client open failed: {e:?}"))?)
    } else {
        let acc = ConnectionAcceptor::builder().container_id("verif-listener").max_frame_size(c.ep_mfs).buffer_size(64).build();
        let (conn, po) = tokio::join!(acc.accept(a), peer.client_open(Some(65536), None, None));
        po.map_err(|e| format!("HARNESS: {e}"))?;
        ConnH::L(conn.map_err(|e| format!("HARNESS: listener accept failed: {e:?}"))?)
    };
    let mut cx = Ctx { ep_ch: 0, ep_mfs: c.ep_mfs, ep_rcv_h: 0, ep_snd_h: 0, next_did: 0, has_session: false, has_rcv: false, has_snd: false, ep_out_did: None };
    let mut sess: Option<SessH> = None;
    let mut receiver: Option<Receiver> = None;
    let mut sender: Option<Sender> = None;
    let sacc = SessionAcceptor::builder().incoming_window(c.ep_window).outgoing_window(2048).buffer_size(64).build();
    if c.stage != Stage::Opened {
        match &mut conn {
            ConnH::C(cn) => {
                let sb = Session::builder().incoming_window(c.ep_window).outgoing_window(2048).buffer_size(64);
                let (s, pb) = tokio::join!(sb.begin(cn), peer.accept_begin(PEER_CH, 0, 100_000, 100_000));
                let (ep_ch, _) = pb.map_err(|e| format!("HARNESS: {e}"))?;
                cx.ep_ch = ep_ch;
                sess = Some(SessH::C(s.map_err(|e| format!("HARNESS: begin failed: {e:?}"))?));
            }
            ConnH::L(cn) => {
                let (s, pb) = tokio::join!(sacc.accept(cn), peer.initiate_begin(PEER_CH, 0, 100_000, 100_000));
                let b = pb.map_err(|e| format!("HARNESS: {e}"))?;
                cx.ep_ch = b.channel;
                sess = Some(SessH::L(s.map_err(|e| format!("HARNESS: session accept failed: {e:?}"))?));
            }
        }
        cx.has_session = true;
    }
    let lacc = LinkAcceptor::builder().build();
    if !matches!(c.stage, Stage::Opened | Stage::Begun) {
        // the link on which the endpoint receives
        match sess.as_mut().unwrap() {
            SessH::C(s) => {
                let fut = Receiver::builder().name("r").source("q").credit_mode(fe2o3_amqp::link::receiver::CreditMode::Auto(RCV_CREDIT)).attach(s);
                let (r, at) = crate::peer::answer_attach(&mut peer, PEER_CH, fut, |_a| Peer::attach_body("r", RCV_PH, false, None, None, Some(0), None, false), |_a| vec![]).await.map_err(|e| format!("HARNESS: {e}"))?;
                cx.ep_rcv_h = as_uint(&at.field(1)).unwrap_or(0);
                receiver = Some(r);
            }
            SessH::L(s) => {
                // peer-initiated: the listener accepts it
                peer.send_frame(PEER_CH, &Peer::attach_body("r", RCV_PH, false, None, None, Some(0), None, false), &[]).await.map_err(|e| format!("HARNESS: {e}"))?;
                let (le, at) = tokio::join!(lacc.accept(s), peer.wait_for("attach"));
                let at = at.map_err(|e| format!("HARNESS: {e}"))?;
                cx.ep_rcv_h = as_uint(&at.field(1)).unwrap_or(0);
                match le.map_err(|e| format!("HARNESS: link accept failed: {e:?}"))? {
                    LinkEndpoint::Receiver(r) => receiver = Some(r),
                    LinkEndpoint::Sender(_) => return Err("HARNESS: expected a receiver".into()),
                }
            }
        }
        cx.has_rcv = true;
    }
    if !matches!(c.stage, Stage::Opened | Stage::Begun | Stage::RcvAttached) {
        let s = sess.as_mut().unwrap();
        let reply = |_a: &RFrame| Peer::attach_body("s", SND_PH, true, None, None, None, None, false);
        let then = |_a: &RFrame| vec![Peer::flow_body(Some(0), 100_000, 0, 100_000, Some(SND_PH), Some(0), Some(5), false, false)];
        let (sn, at) = match s {
            SessH::C(s) => crate::peer::answer_attach(&mut peer, PEER_CH, Sender::builder().name("s").target("q").attach(s), reply, then).await,
            SessH::L(s) => crate::peer::answer_attach(&mut peer, PEER_CH, Sender::builder().name("s").target("q").attach(s), reply, then).await,
        }
        .map_err(|e| format!("HARNESS: {e}"))?;
        cx.ep_snd_h = as_uint(&at.field(1)).unwrap_or(0);
        sender = Some(sn);
        cx.has_snd = true;
    }
    let _ = peer.new_frames().await;
    if c.stage == Stage::MidDelivery {
        let p = probe_payload();
        peer.send_frame(PEER_CH, &Peer::transfer_body(RCV_PH, Some(0), Some(b"mid"), Some(0), Some(false), true, None, false), &p[..p.len() / 2]).await.map_err(|e| format!("HARNESS: {e}"))?;
        cx.next_did = 0; // delivery 0 is still open; a continuation uses the same id
    }
    // ---- pending application operations
    let (cancel_tx, cancel_rx) = tokio::sync::watch::channel(false);
    let mut recv_task = None;
    if let (Some(mut r), true) = (receiver.take(), c.stage != Stage::Detaching) {
        let mut cr = cancel_rx.clone();
        recv_task = Some(tokio::spawn(async move {
            let mut results: Vec<String> = Vec::new();
            loop {
                tokio::select! {
                    x = r.recv::<Body<Value>>() => {
                        match x {
                            Ok(d) => {
                                results.push("Ok".into());
                                let _ = r.accept(&d).await;
                                if results.len() > 40 { return (Some(r), results, true); }
                            }
                            Err(e) => { results.push(format!("Err({e:?})")); return (Some(r), results, true); }
                        }
                    }
                    _ = cr.changed() => return (Some(r), results, false),
                }
            }
        }));
    } else if let Some(r) = receiver.take() {
        // Detaching: the application closes the receiving link; the peer does not answer yet
        recv_task = Some(tokio::spawn(async move {
            let x = r.close().await;
            (None, vec![format!("receiver.close={}", match x { Ok(_) => "Ok".to_string(), Err(e) => format!("Err({e:?})") })], true)
        }));
    }
    let mut send_task = None;
    if c.stage == Stage::SendPending {
        let mut s = sender.take().unwrap();
        send_task = Some(tokio::spawn(async move {
            let x = s.send("pending").await;
            (s, match x { Ok(o) => format!("Ok({o:?})"), Err(e) => format!("Err({e:?})") })
        }));
    }
    let mut close_task = None;
    let mut end_task = None;
    let mut conn_opt = Some(conn);
    if c.stage == Stage::Closing {
        let cn = conn_opt.take().unwrap();
        close_task = Some(tokio::spawn(async move { cn.close().await }));
    }
    if c.stage == Stage::Ending {
        let s = sess.take().unwrap();
        end_task = Some(tokio::spawn(async move { s.end().await }));
    }
    let setup_frames = peer.new_frames().await;
    for f in &setup_frames {
        if f.name() == "transfer" {
            cx.ep_out_did = as_uint(&f.field(1));
        }
    }
    // ---- the attack
    let atk = build_attack(c, &cx);
    info.label = atk.label.to_string();
    info.attack_len = atk.bytes.len();
    let polls0 = simnet::polls_now();
    let cpu0 = thread_cpu();
    let win = crate::alloc::begin();
    let wr = peer.send_bytes(&atk.bytes).await;
    peer.settle().await;
    let (peak, maxreq) = win.end();
    let cpu = thread_cpu().saturating_sub(cpu0);
    info.peak = peak;
    info.maxreq = maxreq;
    info.polls = simnet::polls_now() - polls0;
    if wr.is_err() {
        log.push("peer write failed (endpoint already closed the transport)".into());
    }
    work_bounds(&mut errs, atk.bytes.len(), c.ep_mfs, peak, maxreq, cpu, info.polls);
    // ---- what did the endpoint write in response?
    let resp = peer.new_frames().await;
    let mut ep_close: Option<bool> = None; // Some(with_error)
    let mut ep_end: Option<bool> = None;
    let mut ep_detach_rcv: Option<bool> = None;
    let mut ep_detach_snd: Option<bool> = None;
    for f in setup_frames.iter().chain(resp.iter()) {
        match f.name() {
            "close" => ep_close = Some(!matches!(f.field(0), RValue::Null)),
            "end" if cx.has_session && f.channel == cx.ep_ch => ep_end = Some(!matches!(f.field(0), RValue::Null)),
            "detach" if cx.has_session && f.channel == cx.ep_ch => {
                let h = as_uint(&f.field(0)).unwrap_or(u32::MAX);
                let e = !matches!(f.field(2), RValue::Null);
                if cx.has_rcv && h == cx.ep_rcv_h {
                    ep_detach_rcv = Some(e);
                }
                if cx.has_snd && h == cx.ep_snd_h {
                    ep_detach_snd = Some(e);
                }
            }
            _ => {}
        }
    }
    // reaction to the attack only (not the application's own end/detach of the Ending/Detaching stages)
    let r_end = resp.iter().any(|f| f.name() == "end" && cx.has_session && f.channel == cx.ep_ch);
    let r_drcv = resp.iter().any(|f| f.name() == "detach" && cx.has_rcv && f.channel == cx.ep_ch && as_uint(&f.field(0)) == Some(cx.ep_rcv_h));
    let r_dsnd = resp.iter().any(|f| f.name() == "detach" && cx.has_snd && f.channel == cx.ep_ch && as_uint(&f.field(0)) == Some(cx.ep_snd_h));
    let ep_gone = peer.eof || peer.io_error.is_some();
    log.push(format!("endpoint wrote after the attack: [{}]{}", resp.iter().map(|f| f.name()).collect::<Vec<_>>().join(","), if ep_gone { " and closed the transport" } else { "" }));
    info.reaction = if ep_close.is_some() || ep_gone {
        "connection-shut-down"
    } else if ep_end.is_some() {
        "session-shut-down"
    } else if ep_detach_rcv.is_some() || ep_detach_snd.is_some() {
        "link-shut-down"
    } else {
        "ignored-or-accepted"
    };
    // ---- follow-up
    // after a frame that must be rejected the peer stays (silent, answering a close) so that a clean
    // close handshake — the sign that the frame was accepted — can be told from a rejection
    let cooperative = (atk.framing_intact || atk.must_reject) && !ep_gone;
    let must_reject = atk.must_reject;
    let mut coop = Coop::default();
    if cx.has_session {
        coop.sessions.insert(cx.ep_ch, PEER_CH);
        coop.next_out.insert(PEER_CH, 1000);
        if cx.has_rcv && ep_detach_rcv.is_none() {
            coop.links.insert((cx.ep_ch, cx.ep_rcv_h), (RCV_PH, true, "r".into(), true));
        }
        if cx.has_snd && ep_detach_snd.is_none() {
            coop.links.insert((cx.ep_ch, cx.ep_snd_h), (SND_PH, false, "s".into(), true));
        }
    }
    coop.closed = atk.peer_sent_close;
    let stage = c.stage;
    let role = c.role;
    let conn_usable_expected = cooperative && !must_reject && ep_close.is_none() && !atk.peer_sent_close && stage != Stage::Closing;
    let app_closing = std::rc::Rc::new(std::cell::Cell::new(false));
    let app_closing2 = app_closing.clone();
    let app = async {
        let app_closing = app_closing2;
        let mut probe_err: Option<String> = None;
        let mut log: Vec<String> = Vec::new();
        let mut errs: Vec<String> = Vec::new();
        let mut link_err_seen = [false, false]; // rcv, snd
        let mut sess_err_seen = false;
        // pending recv
        if let Some(mut t) = recv_task {
            match tokio::time::timeout(Duration::from_secs(2), &mut t).await {
                Ok(Ok((r, results, _finished))) => {
                    log.push(format!("pending-recv/close results: {results:?}"));
                    if results.iter().any(|x| x.contains("Err(")) {
                        link_err_seen[0] = true;
                    }
                    receiver = r;
                }
                Ok(Err(e)) => errs.push(format!("the receiving task panicked: {e}")),
                Err(_) => {
                    let down = ep_close.is_some() || r_end || r_drcv || ep_gone;
                    if down && stage != Stage::Detaching {
                        errs.push(format!("recv() is still pending although the endpoint shut down the {}", if ep_close.is_some() || ep_gone { "connection" } else if r_end { "session" } else { "link" }));
                    }
                    if stage == Stage::Detaching && !cooperative {
                        errs.push("receiver.close() is still pending although the transport is gone".into());
                    }
                    let _ = cancel_tx.send(true);
                    match tokio::time::timeout(OP_TIMEOUT, &mut t).await {
                        Ok(Ok((r, results, _))) => {
                            log.push(format!("recv results before cancel: {results:?}"));
                            receiver = r;
                        }
                        Ok(Err(e)) => errs.push(format!("the receiving task panicked: {e}")),
                        Err(_) => {
                            if stage == Stage::Detaching {
                                errs.push("receiver.close() did not complete although the peer answers every frame".into());
                            } else {
                                errs.push("HARNESS: recv task did not stop on cancel".into());
                            }
                            t.abort();
                        }
                    }
                }
            }
        }
        // pending send
        if let Some(mut t) = send_task {
            match tokio::time::timeout(Duration::from_secs(5), &mut t).await {
                Ok(Ok((s, r))) => {
                    log.push(format!("pending-send={r}"));
                    if r.starts_with("Err") {
                        link_err_seen[1] = true;
                    }
                    sender = Some(s);
                }
                Ok(Err(e)) => errs.push(format!("the sending task panicked: {e}")),
                Err(_) => {
                    // a peer may withhold an outcome forever; staying pending is only wrong once the
                    // link's session or connection (or the link itself) has been shut down
                    let down = ep_close.is_some() || r_end || r_dsnd || ep_gone;
                    if down {
                        errs.push(format!("a send awaiting its outcome is still pending although the endpoint shut down the {}", if ep_close.is_some() || ep_gone { "connection" } else if r_end { "session" } else { "link" }));
                    } else {
                        log.push("pending-send still pending (no outcome from the peer's point of view)".into());
                    }
                    t.abort();
                }
            }
        }
        // is the connection still usable?
        if conn_usable_expected {
            let probe = async {
                let mut ps = match conn_opt.as_mut().unwrap() {
                    ConnH::C(cn) => SessH::C(Session::begin(cn).await.map_err(|e| format!("begin: {e:?}"))?),
                    ConnH::L(cn) => SessH::L(sacc.accept(cn).await.map_err(|e| format!("session accept: {e:?}"))?),
                };
                let mut r = ps.attach_receiver("probe-conn").await.map_err(|e| format!("attach: {e}"))?;
                let d = r.recv::<Body<Value>>().await.map_err(|e| format!("recv: {e:?}"))?;
                r.accept(&d).await.map_err(|e| format!("accept: {e:?}"))?;
                r.close().await.map_err(|e| format!("probe link close: {e:?}"))?;
                ps.end().await.map_err(|e| format!("probe session end: {e}"))?;
                Ok::<(), String>(())
            };
            match tokio::time::timeout(OP_TIMEOUT, probe).await {
                Ok(Ok(())) => log.push("probe(new session, new link, one message)=Ok".into()),
                Ok(Err(e)) => probe_err = Some(format!("the endpoint sent no close, yet its connection is no longer usable: {e}")),
                Err(_) => probe_err = Some("the endpoint sent no close, yet a new session/link/message on its connection does not complete".into()),
            }
        }
        // teardown of the old handles
        if let Some(r) = receiver.take() {
            if let Some(Some(x)) = Some(timed!("receiver.close", log, errs, async { r.close().await.map_err(|e| format!("{e:?}")) })) {
                if x.is_err() {
                    link_err_seen[0] = true;
                }
            }
        }
        if let Some(s) = sender.take() {
            if let Some(Some(x)) = Some(timed!("sender.close", log, errs, async { s.close().await.map_err(|e| format!("{e:?}")) })) {
                if x.is_err() {
                    link_err_seen[1] = true;
                }
            }
        }
        if let Some(t) = end_task {
            match tokio::time::timeout(OP_TIMEOUT, t).await {
                Ok(Ok(r)) => {
                    log.push(format!("pending session.end={r:?}"));
                    sess_err_seen |= r.is_err();
                }
                Ok(Err(e)) => errs.push(format!("the ending task panicked: {e}")),
                Err(_) => errs.push("session.end() did not complete although the peer answers every frame".into()),
            }
        }
        if let Some(s) = sess.take() {
            if let Some(x) = timed!("session.end", log, errs, s.end()) {
                sess_err_seen |= x.is_err();
            }
        }
        let mut conn_err_seen = false;
        if let Some(t) = close_task {
            match tokio::time::timeout(OP_TIMEOUT, t).await {
                Ok(Ok(r)) => {
                    log.push(format!("pending connection.close={r:?}"));
                    conn_err_seen |= r.is_err();
                }
                Ok(Err(e)) => errs.push(format!("the closing task panicked: {e}")),
                Err(_) => errs.push("connection.close() did not complete although the peer answers every frame".into()),
            }
        }
        app_closing.set(true);
        if let Some(cn) = conn_opt.take() {
            if let Some(x) = timed!("connection.close", log, errs, cn.close()) {
                conn_err_seen |= x.is_err();
            }
        }
        // error visibility
        let any_lower = link_err_seen[0] || link_err_seen[1] || sess_err_seen;
        if ep_close == Some(true) && !conn_err_seen {
            errs.push("the endpoint closed the connection with an error, but close() on the connection handle reported success".into());
        }
        if !cooperative && !conn_err_seen && !ep_gone && stage != Stage::Closing {
            // the transport ended without a close from the peer
            errs.push("the transport ended without a close frame, but close() on the connection handle reported success".into());
        }
        // (when the peer vanished right after, the failure reported by the connection handle counts)
        let gone_and_told = !cooperative && conn_err_seen;
        if ep_end == Some(true) && ep_close.is_none() && cx.has_session && stage != Stage::Ending && !(sess_err_seen || link_err_seen[0] || link_err_seen[1] || gone_and_told) {
            errs.push("the endpoint ended the session with an error, but no operation on the session or its links reported an error".into());
        }
        if ep_detach_rcv == Some(true) && ep_end.is_none() && ep_close.is_none() && stage != Stage::Detaching && !link_err_seen[0] && !gone_and_told {
            errs.push("the endpoint detached the receiving link with an error, but no operation on that link reported an error".into());
        }
        if ep_detach_snd == Some(true) && ep_end.is_none() && ep_close.is_none() && !link_err_seen[1] && !gone_and_told {
            errs.push("the endpoint detached the sending link with an error, but no operation on that link reported an error".into());
        }
        if must_reject && !conn_err_seen && stage != Stage::Closing {
            errs.push("a frame whose size field is below the frame header size or above the max-frame-size the endpoint advertised was not rejected: the connection handle reports a clean close".into());
        }
        let _ = (any_lower, role);
        (log, errs, probe_err, conn_err_seen)
    };
    // run the application follow-up against the cooperative (or absent) peer
    let mut late_close = false;
    let (alog, mut aerrs, probe_err, conn_err_seen) = if cooperative {
        // settle the endpoint's outstanding unsettled send if its link is still up
        if let (Some(did), true) = (cx.ep_out_did, ep_detach_snd.is_none() && ep_end.is_none() && ep_close.is_none() && !atk.peer_sent_close) {
            let _ = peer.send_frame(PEER_CH, &Peer::disposition_body(true, did, None, true, Some(Peer::accepted())), &[]).await;
        }
        if c.role == 1 && conn_usable_expected {
            // the listener's probe session is initiated by the peer
            let _ = peer.send_frame(40, &Peer::begin_body(None, 0, 100_000, 100_000, None), &[]).await;
            coop.next_out.insert(40, 0);
        }
        // answer the terminal frames the endpoint has already written
        for f in setup_frames.iter().chain(resp.iter()) {
            if matches!(f.name(), "detach" | "end" | "close") {
                let _ = coop.on_frame(&mut peer, f).await;
            }
        }
        tokio::pin!(app);
        let mut peer_opt = Some(peer);
        loop {
            let mut leave = false;
            match peer_opt.as_mut() {
                Some(p) => {
                    tokio::select! {
                        biased;
                        r = &mut app => break r,
                        f = p.next_frame() => {
                            match f {
                                Some(f) => {
                                    if f.name() == "close" && !app_closing.get() {
                                        late_close = true;
                                    }
                                    let _ = coop.on_frame(p, &f).await;
                                }
                                None => {
                                    // endpoint closed its side: nothing more to answer
                                    tokio::time::sleep(Duration::from_millis(5)).await;
                                }
                            }
                            leave = must_reject && coop.closed;
                        }
                    }
                }
                None => break app.await,
            }
            if leave {
                peer_opt = None;
            }
        }
    } else {
        // the peer goes away mid-frame
        drop(peer);
        app.await
    };
    if let Some(e) = probe_err {
        // excused when the endpoint went on to shut the connection down by itself (e.g. in reaction to
        // the peer's answer to its end) and the application was told
        if conn_err_seen && c.attack != HARMLESS {
            log.push(format!("probe failed ({e}) but the connection was shut down and close() reported an error (close frame from the endpoint: {late_close})"));
            info.reaction = "connection-shut-down";
        } else {
            aerrs.push(e);
        }
    }
    log.extend(alog);
    errs.extend(aerrs);
    log.extend(coop.log.clone());
    // ---- bystander still works
    if let Some((d, cs, ls, mut s, mut r)) = by {
        let rt = async {
            let (a, b) = tokio::join!(s.send("bystander"), async {
                let d = r.recv::<Body<Value>>().await.map_err(|e| format!("{e:?}"))?;
                r.accept(&d).await.map_err(|e| format!("{e:?}"))
            });
            a.map_err(|e| format!("{e:?}"))?;
            b
        };
        match tokio::time::timeout(OP_TIMEOUT, rt).await {
            Ok(Ok(())) => log.push("bystander round trip=Ok".into()),
            Ok(Err(e)) => errs.push(format!("an unrelated connection in the same process failed after the attack: {e}")),
            Err(_) => errs.push("an unrelated connection in the same process no longer completes a send/recv after the attack".into()),
        }
        drop((s, r, cs, ls, d));
    }
    simnet::settle().await;
    let _ = ctl;
    info.log = log;
    if errs.is_empty() {
        Ok(info)
    } else {
        Err(format!("{}\n  attack: {} ({} bytes: {})\n  log: {}", errs.join("\n  "), info.label, atk.bytes.len(), hex(&atk.bytes, 96), info.log.join(" | ")))
    }
}

fn hex(b: &[u8], max: usize) -> String {
    let mut s: String = b.iter().take(max).map(|x| format!("{x:02x}")).collect();
    if b.len() > max {
        s.push_str("..");
    }
    s
}

pub fn run_case(c: &Case) -> Result<Info, String> {
    let (end, alive) = simnet::run_case(c.tokio_seed, run_async(c));
    match end {
        CaseEnd::Done(Ok(i)) => {
            if alive != 0 {
                return Err(format!("{alive} tasks are still alive after every handle was dropped; log: {}", i.log.join(" | ")));
            }
            Ok(i)
        }
        CaseEnd::Done(Err(e)) => Err(format!("{e}\n  wire:{}", simnet::describe_last_wire())),
        CaseEnd::Hang => Err(format!("HANG; wire so far:{}", simnet::describe_last_wire())),
    }
}

/// decode a coverage-guided input into a case: bytes 0..2 select role, state and frame size, the rest
/// is the attack, sent verbatim
pub fn fuzz_case(data: &[u8]) -> Case {
    const STAGES: [Stage; 10] = [Stage::Header, Stage::Opened, Stage::Begun, Stage::RcvAttached, Stage::BothAttached, Stage::MidDelivery, Stage::SendPending, Stage::Closing, Stage::Ending, Stage::Detaching];
    Case {
        role: data[0] & 1,
        stage: STAGES[(data[1] as usize) % STAGES.len()],
        attack: Attack::Raw(data[3..].to_vec()),
        repeat: 1,
        ep_mfs: [512u32, 4096, 65536][(data[2] as usize) % 3],
        ep_window: if data[2] & 0x80 != 0 { 3 } else { 2048 },
        bystander: false,
        tokio_seed: (data[0] >> 1) as u64,
        choices: vec![],
        follow_open_idle0: data[2] & 0x40 != 0,
    }
}

/// entry point of the coverage-guided target (fuzz/fuzz_targets/c15_hostile.rs)
pub fn fuzz_one(data: &[u8]) -> Result<(), String> {
    static INIT: std::sync::Once = std::sync::Once::new();
    INIT.call_once(crate::driver::install_panic_hook);
    let c = fuzz_case(data);
    match guarded(|| run_case(&c)) {
        Ok(Ok(_)) => Ok(()),
        Ok(Err(e)) if e.starts_with("HARNESS") => Ok(()),
        Ok(Err(e)) => Err(e),
        Err(p) => Err(format!("panic: {}", p.join(" | "))),
    }
}

/// seed inputs for the coverage-guided target: every base performative in every state
pub fn fuzz_seeds() -> Vec<Vec<u8>> {
    let cx = Ctx { ep_ch: 0, ep_mfs: 4096, ep_rcv_h: 0, ep_snd_h: 1, next_did: 0, has_session: true, has_rcv: true, has_snd: true, ep_out_did: None };
    let mut out = Vec::new();
    for stage in 0..10u8 {
        for base in 0..9u8 {
            let (ch, v, p) = base_perf(base, &cx);
            let mut d = vec![stage & 1, stage, 1];
            d.extend(frame_bytes(0, ch, Some(&v), &p));
            out.push(d);
        }
    }
    for v in 0..N_CAT {
        let (_, frames, _) = catalogue(v, 5, 7, &cx);
        let mut d = vec![v & 1, 4, 1];
        for f in frames.into_iter().take(4) {
            if f.len() < 2000 {
                d.extend(f);
            }
        }
        out.push(d);
    }
    out
}

fn signature_of(e: &str) -> String {
    let first = e.lines().next().unwrap_or("");
    let key = if e.starts_with("HANG") {
        if e.contains("SPIN") { "spin" } else { "hang" }
    } else if first.contains("still pending") || first.contains("did not complete") {
        "wedge"
    } else if first.contains("no longer usable") || first.contains("does not complete") {
        "unusable-without-close"
    } else if first.contains("reported success") || first.contains("reported an error") {
        "error-not-visible"
    } else if first.contains("bytes live") || first.contains("single allocation") || first.contains("CPU") || first.contains("task polls") {
        "disproportionate-work"
    } else if first.contains("unrelated connection") {
        "bystander"
    } else if first.contains("alive") {
        "task-leak"
    } else {
        "other"
    };
    key.to_string()
}

fn case(_ctx: &ShardCtx, c: &Case, obs: &mut Obs) -> Result<(), String> {
    match guarded(|| run_case(c)) {
        Ok(Ok(info)) => {
            obs.class(if c.role == 0 { "endpoint=client" } else { "endpoint=listener" });
            obs.class(&format!("stage={:?}", c.stage));
            obs.class(&format!("attack={}", info.label));
            obs.class(&format!("reaction={}", info.reaction));
            obs.nontrivial(&(c.role, c.stage, &c.attack));
            Ok(())
        }
        Ok(Err(e)) => {
            if e.starts_with("HARNESS") {
                obs.signature = Some("harness".into());
                return Err(e);
            }
            let label = e.lines().find_map(|l| l.trim().strip_prefix("attack: ")).map(|l| l.split(' ').next().unwrap_or("").to_string()).unwrap_or_default();
            obs.signature = Some(format!("{}:{}", signature_of(&e), label));
            Err(e)
        }
        Err(p) => {
            obs.signature = Some(panic_signature(&p[0]));
            Err(format!("panic: {}", p.join(" | ")))
        }
    }
}

fn run(ctx: &ShardCtx, rep: &mut Report) {
    MAX_SHRINK_ITERS.store(300, std::sync::atomic::Ordering::Relaxed);
    // positive control: a harmless "attack" (empty frames) in every stage and role leaves a usable connection
    if ctx.shard == 0 {
        for role in 0..2u8 {
            for stage in [Stage::Header, Stage::Opened, Stage::Begun, Stage::RcvAttached, Stage::BothAttached, Stage::MidDelivery, Stage::SendPending, Stage::Closing, Stage::Ending, Stage::Detaching] {
                let attack = if stage == Stage::Header { HARMLESS_OPEN } else { HARMLESS };
                let c = Case { role, stage, attack, repeat: 1, ep_mfs: 4096, ep_window: 2048, bystander: true, tokio_seed: ctx.seed, choices: vec![], follow_open_idle0: false };
                rep.evaluations += 1;
                match guarded(|| run_case(&c)) {
                    Ok(Ok(_)) => {}
                    Ok(Err(e)) => {
                        rep.violations.push(Violation { variant: "hostile".into(), signature: "positive-control".into(), detail: format!("positive control (only empty frames) failed: {e}"), case: serde_json::to_value(&c).unwrap() });
                        return;
                    }
                    Err(p) => {
                        rep.violations.push(Violation { variant: "hostile".into(), signature: panic_signature(&p[0]), detail: format!("positive control panicked: {}", p.join(" | ")), case: serde_json::to_value(&c).unwrap() });
                        return;
                    }
                }
            }
        }
    }
    let _ = Tier::Quick;
    let _ = hash_of(&0u8);
    pt_run(ctx, rep, "hostile", ctx.budget(200_000, 6_000_000), case_strategy(), |c, o| case(ctx, c, o));
}

fn replay(_variant: &str, case_json: &Json) -> Result<(), String> {
    let c: Case = serde_json::from_value(case_json.clone()).map_err(|e| format!("bad case: {e}"))?;
    match guarded(|| run_case(&c)) {
        Ok(r) => r.map(|_| ()),
        Err(p) => Err(format!("panic: {}", p.join(" | "))),
    }
}
