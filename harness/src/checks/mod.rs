use crate::driver::PropMeta;

pub mod codec_common;
pub mod c03;

pub fn registry() -> Vec<PropMeta> {
    vec![c03::meta()]
}
