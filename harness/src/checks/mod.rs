use crate::driver::PropMeta;

pub mod c01;
pub mod c02;
pub mod c02r;
pub mod c03;
pub mod c04;
pub mod c05;
pub mod c06;
pub mod c07;
pub mod c07l;
pub mod c08;
pub mod c09;
pub mod c10;
pub mod c11;
pub mod c11l;
pub mod c12;
pub mod c13;
pub mod c14;
pub mod c15;
pub mod c16;
pub mod c17;
pub mod c18;
pub mod c19;
pub mod c20;
pub mod codec_common;
pub mod resume;
pub mod typed;

pub fn registry() -> Vec<PropMeta> {
    vec![c01::meta(), c02::meta(), c03::meta(), c04::meta(), c05::meta(), c06::meta(), c07::meta(), c08::meta(), c09::meta(), c10::meta(), c11::meta(), c12::meta(), c13::meta(), c14::meta(), c15::meta(), c16::meta(), c17::meta(), c18::meta(), c19::meta(), c20::meta()]
}
