//! Independent reference model of the AMQP 1.0 type system (spec part 1) —
//! value model, encoder with spec-permitted variant choices, strict decoder.
//! Shares no code with serde_amqp.
use serde::{Deserialize, Serialize};

#[derive(Clone, Debug, PartialEq, Eq, Hash, Serialize, Deserialize)]
pub enum RValue {
    Null,
    Bool(bool),
    Ubyte(u8),
    Ushort(u16),
    Uint(u32),
    Ulong(u64),
    Byte(i8),
    Short(i16),
    Int(i32),
    Long(i64),
    /// bit pattern
    Float(u32),
    /// bit pattern
    Double(u64),
    Dec32([u8; 4]),
    Dec64([u8; 8]),
    Dec128([u8; 16]),
    /// unicode scalar value
    Char(u32),
    Timestamp(i64),
    Uuid([u8; 16]),
    Binary(Vec<u8>),
    Str(String),
    Sym(String),
    List(Vec<RValue>),
    Map(Vec<(RValue, RValue)>),
    /// homogeneous: all elements of the same kind (and same descriptor if described)
    Array(Vec<RValue>),
    Described(Box<RValue>, Box<RValue>),
}

impl RValue {
    pub fn described(d: RValue, v: RValue) -> RValue {
        RValue::Described(Box::new(d), Box::new(v))
    }
    pub fn sym(s: &str) -> RValue {
        RValue::Sym(s.to_string())
    }
    pub fn str(s: &str) -> RValue {
        RValue::Str(s.to_string())
    }
    /// kind tag used for array homogeneity
    pub fn kind(&self) -> u8 {
        match self {
            RValue::Null => 0,
            RValue::Bool(_) => 1,
            RValue::Ubyte(_) => 2,
            RValue::Ushort(_) => 3,
            RValue::Uint(_) => 4,
            RValue::Ulong(_) => 5,
            RValue::Byte(_) => 6,
            RValue::Short(_) => 7,
            RValue::Int(_) => 8,
            RValue::Long(_) => 9,
            RValue::Float(_) => 10,
            RValue::Double(_) => 11,
            RValue::Dec32(_) => 12,
            RValue::Dec64(_) => 13,
            RValue::Dec128(_) => 14,
            RValue::Char(_) => 15,
            RValue::Timestamp(_) => 16,
            RValue::Uuid(_) => 17,
            RValue::Binary(_) => 18,
            RValue::Str(_) => 19,
            RValue::Sym(_) => 20,
            RValue::List(_) => 21,
            RValue::Map(_) => 22,
            RValue::Array(_) => 23,
            RValue::Described(..) => 24,
        }
    }
    pub fn is_compound(&self) -> bool {
        matches!(
            self,
            RValue::List(_) | RValue::Map(_) | RValue::Array(_) | RValue::Described(..)
        )
    }
    pub fn depth(&self) -> usize {
        match self {
            RValue::List(v) | RValue::Array(v) => 1 + v.iter().map(|x| x.depth()).max().unwrap_or(0),
            RValue::Map(v) => {
                1 + v
                    .iter()
                    .map(|(k, x)| k.depth().max(x.depth()))
                    .max()
                    .unwrap_or(0)
            }
            RValue::Described(d, v) => 1 + d.depth().max(v.depth()),
            _ => 0,
        }
    }
    pub fn node_count(&self) -> usize {
        match self {
            RValue::List(v) | RValue::Array(v) => 1 + v.iter().map(|x| x.node_count()).sum::<usize>(),
            RValue::Map(v) => {
                1 + v
                    .iter()
                    .map(|(k, x)| k.node_count() + x.node_count())
                    .sum::<usize>()
            }
            RValue::Described(d, v) => 1 + d.node_count() + v.node_count(),
            _ => 1,
        }
    }
}

/// Source of encoding-variant choices. `0` always selects the most compact
/// variant; an exhausted source yields 0.
#[derive(Clone, Debug, Default)]
pub struct Choices {
    pub bytes: Vec<u8>,
    pub pos: usize,
    /// number of decision points where a non-zero alternative was actually taken
    pub nondefault: usize,
    /// do not pick zero-width element constructors (0x40..0x45) for non-empty arrays
    /// (carve-out of an open known finding); `avoided` counts how often this mattered
    pub avoid_zero_width_elems: bool,
    pub avoided: usize,
}

/// process-wide default for `avoid_zero_width_elems` (set while the corresponding known finding is open)
pub static AVOID_ZERO_WIDTH_DEFAULT: std::sync::atomic::AtomicBool = std::sync::atomic::AtomicBool::new(false);

impl Choices {
    pub fn compact() -> Self {
        Self::new(vec![])
    }
    pub fn new(bytes: Vec<u8>) -> Self {
        Choices {
            bytes,
            pos: 0,
            nondefault: 0,
            avoid_zero_width_elems: AVOID_ZERO_WIDTH_DEFAULT.load(std::sync::atomic::Ordering::Relaxed),
            avoided: 0,
        }
    }
    /// pick an index in 0..n
    pub fn pick(&mut self, n: usize) -> usize {
        if n <= 1 {
            return 0;
        }
        let b = if self.bytes.is_empty() {
            0
        } else {
            let b = self.bytes[self.pos % self.bytes.len()];
            self.pos += 1;
            b
        } as usize;
        let i = b % n;
        if i != 0 {
            self.nondefault += 1;
        }
        i
    }
}

/// A value prepared for emission: body bytes are fixed, only the constructor
/// (width variant) is still open.
enum Prep {
    /// candidates listed most-compact first; data depends on code
    Prim(RValue, Vec<u8>),
    Var {
        c8: u8,
        c32: u8,
        bytes: Vec<u8>,
    },
    Compound {
        c0: Option<u8>,
        c8: u8,
        c32: u8,
        count: usize,
        body: Vec<u8>,
    },
    Arr {
        count: usize,
        /// element constructor + concatenated element data
        body: Vec<u8>,
    },
    Desc {
        desc: Vec<u8>,
        inner: Box<Prep>,
    },
}

fn prim_cands(v: &RValue) -> Vec<u8> {
    match v {
        RValue::Null => vec![0x40],
        RValue::Bool(true) => vec![0x41, 0x56],
        RValue::Bool(false) => vec![0x42, 0x56],
        RValue::Ubyte(_) => vec![0x50],
        RValue::Ushort(_) => vec![0x60],
        RValue::Uint(0) => vec![0x43, 0x52, 0x70],
        RValue::Uint(x) if *x <= 255 => vec![0x52, 0x70],
        RValue::Uint(_) => vec![0x70],
        RValue::Ulong(0) => vec![0x44, 0x53, 0x80],
        RValue::Ulong(x) if *x <= 255 => vec![0x53, 0x80],
        RValue::Ulong(_) => vec![0x80],
        RValue::Byte(_) => vec![0x51],
        RValue::Short(_) => vec![0x61],
        RValue::Int(x) if (-128..=127).contains(x) => vec![0x54, 0x71],
        RValue::Int(_) => vec![0x71],
        RValue::Long(x) if (-128..=127).contains(x) => vec![0x55, 0x81],
        RValue::Long(_) => vec![0x81],
        RValue::Float(_) => vec![0x72],
        RValue::Double(_) => vec![0x82],
        RValue::Dec32(_) => vec![0x74],
        RValue::Dec64(_) => vec![0x84],
        RValue::Dec128(_) => vec![0x94],
        RValue::Char(_) => vec![0x73],
        RValue::Timestamp(_) => vec![0x83],
        RValue::Uuid(_) => vec![0x98],
        _ => unreachable!("not a fixed-width primitive"),
    }
}

fn prim_data(v: &RValue, code: u8, out: &mut Vec<u8>) {
    match (v, code) {
        (_, 0x40..=0x45) => {}
        (RValue::Bool(b), 0x56) => out.push(*b as u8),
        (RValue::Ubyte(x), 0x50) => out.push(*x),
        (RValue::Ushort(x), 0x60) => out.extend_from_slice(&x.to_be_bytes()),
        (RValue::Uint(x), 0x52) => out.push(*x as u8),
        (RValue::Uint(x), 0x70) => out.extend_from_slice(&x.to_be_bytes()),
        (RValue::Ulong(x), 0x53) => out.push(*x as u8),
        (RValue::Ulong(x), 0x80) => out.extend_from_slice(&x.to_be_bytes()),
        (RValue::Byte(x), 0x51) => out.push(*x as u8),
        (RValue::Short(x), 0x61) => out.extend_from_slice(&x.to_be_bytes()),
        (RValue::Int(x), 0x54) => out.push(*x as i8 as u8),
        (RValue::Int(x), 0x71) => out.extend_from_slice(&x.to_be_bytes()),
        (RValue::Long(x), 0x55) => out.push(*x as i8 as u8),
        (RValue::Long(x), 0x81) => out.extend_from_slice(&x.to_be_bytes()),
        (RValue::Float(x), 0x72) => out.extend_from_slice(&x.to_be_bytes()),
        (RValue::Double(x), 0x82) => out.extend_from_slice(&x.to_be_bytes()),
        (RValue::Dec32(x), 0x74) => out.extend_from_slice(x),
        (RValue::Dec64(x), 0x84) => out.extend_from_slice(x),
        (RValue::Dec128(x), 0x94) => out.extend_from_slice(x),
        (RValue::Char(x), 0x73) => out.extend_from_slice(&x.to_be_bytes()),
        (RValue::Timestamp(x), 0x83) => out.extend_from_slice(&x.to_be_bytes()),
        (RValue::Uuid(x), 0x98) => out.extend_from_slice(x),
        _ => unreachable!("bad code {:#x} for {:?}", code, v),
    }
}

fn prepare(v: &RValue, ch: &mut Choices) -> Prep {
    match v {
        RValue::Binary(b) => Prep::Var {
            c8: 0xa0,
            c32: 0xb0,
            bytes: b.clone(),
        },
        RValue::Str(s) => Prep::Var {
            c8: 0xa1,
            c32: 0xb1,
            bytes: s.as_bytes().to_vec(),
        },
        RValue::Sym(s) => Prep::Var {
            c8: 0xa3,
            c32: 0xb3,
            bytes: s.as_bytes().to_vec(),
        },
        RValue::List(items) => {
            let mut body = Vec::new();
            for it in items {
                encode_into(it, ch, &mut body);
            }
            Prep::Compound {
                c0: if items.is_empty() { Some(0x45) } else { None },
                c8: 0xc0,
                c32: 0xd0,
                count: items.len(),
                body,
            }
        }
        RValue::Map(pairs) => {
            let mut body = Vec::new();
            for (k, x) in pairs {
                encode_into(k, ch, &mut body);
                encode_into(x, ch, &mut body);
            }
            Prep::Compound {
                c0: None,
                c8: 0xc1,
                c32: 0xd1,
                count: pairs.len() * 2,
                body,
            }
        }
        RValue::Array(elems) => {
            let mut body = Vec::new();
            if elems.is_empty() {
                // an empty array still carries an element constructor; any will do
                let cons = [0x40u8, 0x70, 0xa1, 0xb3, 0x45, 0x56][ch.pick(6)];
                body.push(cons);
            } else {
                let preps: Vec<Prep> = elems.iter().map(|e| prepare(e, ch)).collect();
                // common candidates
                let mut common = cands(&preps[0]);
                for p in &preps[1..] {
                    let c = cands(p);
                    common.retain(|x| c.contains(x));
                }
                assert!(!common.is_empty(), "array elements have no common constructor");
                if ch.avoid_zero_width_elems && common.iter().any(|c| (0x40..=0x45).contains(c)) && common.iter().any(|c| !(0x40..=0x45).contains(c)) {
                    common.retain(|c| !(0x40..=0x45).contains(c));
                    ch.avoided += 1;
                }
                let code = common[ch.pick(common.len())];
                emit_constructor(&preps[0], code, &mut body);
                for p in &preps {
                    emit_data(p, code, &mut body);
                }
            }
            Prep::Arr {
                count: elems.len(),
                body,
            }
        }
        RValue::Described(d, inner) => {
            let mut desc = Vec::new();
            encode_into(d, ch, &mut desc);
            Prep::Desc {
                desc,
                inner: Box::new(prepare(inner, ch)),
            }
        }
        prim => Prep::Prim(prim.clone(), prim_cands(prim)),
    }
}

/// candidate (innermost) format codes, most compact first
fn cands(p: &Prep) -> Vec<u8> {
    match p {
        Prep::Prim(_, c) => c.clone(),
        Prep::Var { c8, c32, bytes } => {
            if bytes.len() <= 255 {
                vec![*c8, *c32]
            } else {
                vec![*c32]
            }
        }
        Prep::Compound {
            c0,
            c8,
            c32,
            count,
            body,
        } => {
            let mut v = Vec::new();
            if let Some(c) = c0 {
                v.push(*c);
            }
            if body.len() + 1 <= 255 && *count <= 255 {
                v.push(*c8);
            }
            v.push(*c32);
            v
        }
        Prep::Arr { count, body } => {
            if body.len() + 1 <= 255 && *count <= 255 {
                vec![0xe0, 0xf0]
            } else {
                vec![0xf0]
            }
        }
        Prep::Desc { inner, .. } => cands(inner),
    }
}

fn emit_constructor(p: &Prep, code: u8, out: &mut Vec<u8>) {
    match p {
        Prep::Desc { desc, inner } => {
            out.push(0x00);
            out.extend_from_slice(desc);
            emit_constructor(inner, code, out);
        }
        _ => out.push(code),
    }
}

fn emit_data(p: &Prep, code: u8, out: &mut Vec<u8>) {
    match p {
        Prep::Prim(v, _) => prim_data(v, code, out),
        Prep::Var { c8, bytes, .. } => {
            if code == *c8 {
                out.push(bytes.len() as u8);
            } else {
                out.extend_from_slice(&(bytes.len() as u32).to_be_bytes());
            }
            out.extend_from_slice(bytes);
        }
        Prep::Compound {
            c0,
            c8,
            count,
            body,
            ..
        } => {
            if Some(code) == *c0 {
                // list0: no data
            } else if code == *c8 {
                out.push((body.len() + 1) as u8);
                out.push(*count as u8);
                out.extend_from_slice(body);
            } else {
                out.extend_from_slice(&((body.len() + 4) as u32).to_be_bytes());
                out.extend_from_slice(&(*count as u32).to_be_bytes());
                out.extend_from_slice(body);
            }
        }
        Prep::Arr { count, body } => {
            if code == 0xe0 {
                out.push((body.len() + 1) as u8);
                out.push(*count as u8);
            } else {
                out.extend_from_slice(&((body.len() + 4) as u32).to_be_bytes());
                out.extend_from_slice(&(*count as u32).to_be_bytes());
            }
            out.extend_from_slice(body);
        }
        Prep::Desc { inner, .. } => emit_data(inner, code, out),
    }
}

pub fn encode_into(v: &RValue, ch: &mut Choices, out: &mut Vec<u8>) {
    let p = prepare(v, ch);
    let c = cands(&p);
    let code = c[ch.pick(c.len())];
    emit_constructor(&p, code, out);
    emit_data(&p, code, out);
}

pub fn encode(v: &RValue, ch: &mut Choices) -> Vec<u8> {
    let mut out = Vec::new();
    encode_into(v, ch, &mut out);
    out
}

pub fn encode_compact(v: &RValue) -> Vec<u8> {
    encode(v, &mut Choices::compact())
}

// ---------------------------------------------------------------------------
// strict decoder

#[derive(Clone, Debug, PartialEq, Eq, Serialize, Deserialize)]
pub enum DecErr {
    Eof(usize),
    UnknownCode(usize, u8),
    BadSize(usize, &'static str),
    BadUtf8(usize),
    BadChar(usize),
    BadBool(usize),
    OddMapCount(usize),
    Trailing(usize),
    TooDeep(usize),
    NonAsciiSymbol(usize),
}

#[derive(Clone, Copy, Debug, PartialEq, Eq, Serialize, Deserialize)]
pub enum MarkKind {
    Cons,
    Size8,
    Size32,
    Count8,
    Count32,
    Len8,
    Len32,
    DescMarker,
}

#[derive(Clone, Copy, Debug, PartialEq, Eq, Serialize, Deserialize)]
pub struct Mark {
    pub pos: usize,
    pub kind: MarkKind,
    /// current numeric value of the field (code for Cons)
    pub val: u32,
}

pub struct Dec<'a> {
    pub buf: &'a [u8],
    pub pos: usize,
    pub marks: Vec<Mark>,
    pub record: bool,
    pub max_depth: usize,
}

/// constructor: chain of descriptors (outermost first) + primitive code
#[derive(Clone, Debug)]
struct Cons {
    descs: Vec<RValue>,
    code: u8,
}

impl<'a> Dec<'a> {
    pub fn new(buf: &'a [u8]) -> Self {
        Dec {
            buf,
            pos: 0,
            marks: Vec::new(),
            record: false,
            max_depth: 256,
        }
    }
    fn mark(&mut self, pos: usize, kind: MarkKind, val: u32) {
        if self.record {
            self.marks.push(Mark { pos, kind, val });
        }
    }
    fn u8(&mut self) -> Result<u8, DecErr> {
        let b = *self.buf.get(self.pos).ok_or(DecErr::Eof(self.pos))?;
        self.pos += 1;
        Ok(b)
    }
    fn take(&mut self, n: usize) -> Result<&'a [u8], DecErr> {
        if self.buf.len() - self.pos < n {
            return Err(DecErr::Eof(self.pos));
        }
        let s = &self.buf[self.pos..self.pos + n];
        self.pos += n;
        Ok(s)
    }
    fn u32(&mut self) -> Result<u32, DecErr> {
        let s = self.take(4)?;
        Ok(u32::from_be_bytes([s[0], s[1], s[2], s[3]]))
    }
    fn arr<const N: usize>(&mut self) -> Result<[u8; N], DecErr> {
        let s = self.take(N)?;
        let mut a = [0u8; N];
        a.copy_from_slice(s);
        Ok(a)
    }

    fn constructor(&mut self, depth: usize) -> Result<Cons, DecErr> {
        let mut descs = Vec::new();
        let mut d = depth;
        loop {
            let p = self.pos;
            let c = self.u8()?;
            if c == 0x00 {
                d += 1;
                if d > self.max_depth {
                    return Err(DecErr::TooDeep(p));
                }
                self.mark(p, MarkKind::DescMarker, 0);
                descs.push(self.value(d)?);
            } else {
                self.mark(p, MarkKind::Cons, c as u32);
                return Ok(Cons { descs, code: c });
            }
        }
    }

    pub fn value(&mut self, depth: usize) -> Result<RValue, DecErr> {
        if depth > self.max_depth {
            return Err(DecErr::TooDeep(self.pos));
        }
        let cons = self.constructor(depth)?;
        let v = self.data(cons.code, depth)?;
        Ok(wrap(cons.descs, v))
    }

    fn data(&mut self, code: u8, depth: usize) -> Result<RValue, DecErr> {
        let p0 = self.pos;
        Ok(match code {
            0x40 => RValue::Null,
            0x41 => RValue::Bool(true),
            0x42 => RValue::Bool(false),
            0x56 => match self.u8()? {
                0 => RValue::Bool(false),
                1 => RValue::Bool(true),
                _ => return Err(DecErr::BadBool(p0)),
            },
            0x50 => RValue::Ubyte(self.u8()?),
            0x60 => RValue::Ushort(u16::from_be_bytes(self.arr()?)),
            0x43 => RValue::Uint(0),
            0x52 => RValue::Uint(self.u8()? as u32),
            0x70 => RValue::Uint(self.u32()?),
            0x44 => RValue::Ulong(0),
            0x53 => RValue::Ulong(self.u8()? as u64),
            0x80 => RValue::Ulong(u64::from_be_bytes(self.arr()?)),
            0x51 => RValue::Byte(self.u8()? as i8),
            0x61 => RValue::Short(i16::from_be_bytes(self.arr()?)),
            0x54 => RValue::Int(self.u8()? as i8 as i32),
            0x71 => RValue::Int(i32::from_be_bytes(self.arr()?)),
            0x55 => RValue::Long(self.u8()? as i8 as i64),
            0x81 => RValue::Long(i64::from_be_bytes(self.arr()?)),
            0x72 => RValue::Float(self.u32()?),
            0x82 => RValue::Double(u64::from_be_bytes(self.arr()?)),
            0x74 => RValue::Dec32(self.arr()?),
            0x84 => RValue::Dec64(self.arr()?),
            0x94 => RValue::Dec128(self.arr()?),
            0x73 => {
                let c = self.u32()?;
                if char::from_u32(c).is_none() {
                    return Err(DecErr::BadChar(p0));
                }
                RValue::Char(c)
            }
            0x83 => RValue::Timestamp(i64::from_be_bytes(self.arr()?)),
            0x98 => RValue::Uuid(self.arr()?),
            0xa0 | 0xa1 | 0xa3 | 0xb0 | 0xb1 | 0xb3 => {
                let len = if code & 0xf0 == 0xa0 {
                    let l = self.u8()? as usize;
                    self.mark(p0, MarkKind::Len8, l as u32);
                    l
                } else {
                    let l = self.u32()? as usize;
                    self.mark(p0, MarkKind::Len32, l as u32);
                    l
                };
                let p1 = self.pos;
                let s = self.take(len)?;
                match code & 0x0f {
                    0 => RValue::Binary(s.to_vec()),
                    1 => RValue::Str(
                        std::str::from_utf8(s)
                            .map_err(|_| DecErr::BadUtf8(p1))?
                            .to_string(),
                    ),
                    _ => {
                        if !s.is_ascii() {
                            return Err(DecErr::NonAsciiSymbol(p1));
                        }
                        RValue::Sym(String::from_utf8(s.to_vec()).unwrap())
                    }
                }
            }
            0x45 => RValue::List(vec![]),
            0xc0 | 0xd0 | 0xc1 | 0xd1 | 0xe0 | 0xf0 => {
                let wide = code & 0xf0 == 0xd0 || code == 0xf0;
                let (size, count) = if !wide {
                    let s = self.u8()? as usize;
                    self.mark(p0, MarkKind::Size8, s as u32);
                    if s < 1 {
                        return Err(DecErr::BadSize(p0, "size smaller than count field"));
                    }
                    if self.buf.len() - self.pos < s {
                        return Err(DecErr::Eof(self.pos));
                    }
                    let c = self.u8()? as usize;
                    self.mark(p0 + 1, MarkKind::Count8, c as u32);
                    (s - 1, c)
                } else {
                    let s = self.u32()? as usize;
                    self.mark(p0, MarkKind::Size32, s as u32);
                    if s < 4 {
                        return Err(DecErr::BadSize(p0, "size smaller than count field"));
                    }
                    if self.buf.len() - self.pos < s {
                        return Err(DecErr::Eof(self.pos));
                    }
                    let c = self.u32()? as usize;
                    self.mark(p0 + 4, MarkKind::Count32, c as u32);
                    (s - 4, c)
                };
                let end = self.pos + size;
                // parse the body strictly inside [pos, end)
                let outer = self.buf;
                self.buf = &outer[..end];
                let r = self.compound_body(code, count, depth);
                self.buf = outer;
                let v = r?;
                if self.pos != end {
                    return Err(DecErr::BadSize(p0, "size does not match content"));
                }
                v
            }
            other => return Err(DecErr::UnknownCode(p0.saturating_sub(1), other)),
        })
    }

    fn compound_body(&mut self, code: u8, count: usize, depth: usize) -> Result<RValue, DecErr> {
        match code {
            0xc0 | 0xd0 => {
                let mut v = Vec::new();
                for _ in 0..count {
                    v.push(self.value(depth + 1)?);
                }
                Ok(RValue::List(v))
            }
            0xc1 | 0xd1 => {
                if count % 2 != 0 {
                    return Err(DecErr::OddMapCount(self.pos));
                }
                let mut v = Vec::new();
                for _ in 0..count / 2 {
                    let k = self.value(depth + 1)?;
                    let x = self.value(depth + 1)?;
                    v.push((k, x));
                }
                Ok(RValue::Map(v))
            }
            _ => {
                let cons = self.constructor(depth + 1)?;
                let mut v = Vec::new();
                // guard against count bombs with zero-width elements
                if count > (1 << 24) {
                    return Err(DecErr::BadSize(self.pos, "array count too large for reference"));
                }
                for _ in 0..count {
                    let d = self.data(cons.code, depth + 1)?;
                    v.push(wrap(cons.descs.clone(), d));
                }
                Ok(RValue::Array(v))
            }
        }
    }
}

fn wrap(descs: Vec<RValue>, v: RValue) -> RValue {
    let mut v = v;
    for d in descs.into_iter().rev() {
        v = RValue::described(d, v);
    }
    v
}

/// decode exactly one value; returns value and bytes used
pub fn decode_one(buf: &[u8]) -> Result<(RValue, usize), DecErr> {
    let mut d = Dec::new(buf);
    let v = d.value(0)?;
    Ok((v, d.pos))
}

/// decode exactly one value that must span the whole buffer
pub fn decode_strict(buf: &[u8]) -> Result<RValue, DecErr> {
    let (v, n) = decode_one(buf)?;
    if n != buf.len() {
        return Err(DecErr::Trailing(n));
    }
    Ok(v)
}

/// positions of all constructor/size/count/length fields of a valid encoding
pub fn marks(buf: &[u8]) -> Result<Vec<Mark>, DecErr> {
    let mut d = Dec::new(buf);
    d.record = true;
    d.value(0)?;
    Ok(d.marks)
}

/// decode a sequence of values covering the buffer (message sections, frame bodies)
pub fn decode_all(buf: &[u8]) -> Result<Vec<RValue>, DecErr> {
    let mut d = Dec::new(buf);
    let mut out = Vec::new();
    while d.pos < buf.len() {
        out.push(d.value(0)?);
    }
    Ok(out)
}

// ---------------------------------------------------------------------------
// helpers on the model

/// descriptor code helper
pub fn dcode(code: u64) -> RValue {
    RValue::Ulong(code)
}

/// composite as described list
pub fn composite(code: u64, fields: Vec<RValue>) -> RValue {
    RValue::described(dcode(code), RValue::List(fields))
}

/// strip trailing nulls of a list (spec 1.4: trailing null fields may be elided)
pub fn strip_trailing_nulls(mut v: Vec<RValue>) -> Vec<RValue> {
    while matches!(v.last(), Some(RValue::Null)) {
        v.pop();
    }
    v
}

pub fn hex(b: &[u8]) -> String {
    let mut s = String::with_capacity(b.len() * 2);
    for x in b {
        s.push_str(&format!("{:02x}", x));
    }
    s
}

pub fn unhex(s: &str) -> Vec<u8> {
    let s: Vec<u8> = s.bytes().filter(|c| !c.is_ascii_whitespace()).collect();
    s.chunks(2)
        .map(|c| u8::from_str_radix(std::str::from_utf8(c).unwrap(), 16).unwrap())
        .collect()
}
