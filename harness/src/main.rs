mod alloc;
mod checks;
mod conv;
mod driver;
mod duo;
mod gen;
mod peer;
mod refcodec;
mod refscram;
mod rframe;
mod simnet;
mod spec;

use driver::*;
use serde_json::{json, Value as Json};
use std::collections::BTreeMap;
use std::path::{Path, PathBuf};
use std::process::{Command, Stdio};
use std::time::Instant;

#[global_allocator]
static GLOBAL: alloc::Counting = alloc::Counting;

const VERIF: &str = "/verif";

fn find_prop(id: &str) -> PropMeta {
    checks::registry()
        .into_iter()
        .find(|p| p.id == id)
        .unwrap_or_else(|| {
            eprintln!("unknown property {}", id);
            std::process::exit(2)
        })
}

fn usage() -> ! {
    eprintln!("usage: vcheck <Cxx> [--tier quick|thorough] | vcheck replay <file> | vcheck list");
    std::process::exit(2)
}

fn main() {
    let args: Vec<String> = std::env::args().collect();
    if args.len() < 2 {
        usage();
    }
    match args[1].as_str() {
        "worker" => {
            // generous stack for deep strategies; checks that probe stack use run their own threads
            let a: Vec<String> = args[2..].to_vec();
            let h = std::thread::Builder::new().stack_size(256 << 20).spawn(move || worker(&a)).unwrap();
            if h.join().is_err() {
                eprintln!("HARNESS-PANIC: {}", take_panics().join(" | "));
                std::process::exit(101);
            }
        }
        "replay" => {
            if args.len() < 3 {
                usage()
            }
            replay_file(&args[2])
        }
        "list" => {
            for p in checks::registry() {
                println!("{}", p.id);
            }
        }
        id => {
            let mut tier = match std::env::var("VERIF_TIER").ok().as_deref() {
                Some("thorough") => Tier::Thorough,
                _ => Tier::Quick,
            };
            let mut i = 2;
            while i < args.len() {
                match args[i].as_str() {
                    "--tier" => {
                        i += 1;
                        tier = match args.get(i).map(|s| s.as_str()) {
                            Some("thorough") => Tier::Thorough,
                            Some("quick") => Tier::Quick,
                            _ => usage(),
                        };
                    }
                    "quick" => tier = Tier::Quick,
                    "thorough" => tier = Tier::Thorough,
                    _ => usage(),
                }
                i += 1;
            }
            parent(id, tier)
        }
    }
}

fn seed_env() -> u64 {
    std::env::var("VERIF_SEED")
        .ok()
        .and_then(|s| s.trim().parse::<i64>().ok().map(|x| x as u64).or_else(|| s.trim().parse::<u64>().ok()))
        .unwrap_or(0)
}

fn worker(a: &[String]) {
    // worker <id> <tier> <seed> <shard> <nshards> <outfile> <journal>
    let meta = find_prop(&a[0]);
    let tier = if a[1] == "thorough" { Tier::Thorough } else { Tier::Quick };
    let open = open_findings_for(meta.id);
    let ctx = ShardCtx {
        prop: meta.id.to_string(),
        tier,
        seed: a[2].parse().unwrap(),
        shard: a[3].parse().unwrap(),
        nshards: a[4].parse().unwrap(),
        journal: a[6].clone(),
        open_findings: open_ids_for(meta.id),
    };
    install_panic_hook();
    vcheck_watchdog();
    refcodec::AVOID_ZERO_WIDTH_DEFAULT.store(ctx.is_open("KF-codec-array-of-null"), std::sync::atomic::Ordering::Relaxed);
    let mut rep = Report::default();
    if ctx.shard == 0 {
        // regression tier: committed replays, then witnesses of open findings
        let dir = Path::new(VERIF).join("replays/regress").join(meta.id);
        if let Ok(rd) = std::fs::read_dir(&dir) {
            let mut files: Vec<PathBuf> = rd.filter_map(|e| e.ok().map(|e| e.path())).collect();
            files.sort();
            for f in files {
                if f.extension().map(|e| e != "json").unwrap_or(true) {
                    continue;
                }
                let j: Json = match std::fs::read(&f).ok().and_then(|b| serde_json::from_slice(&b).ok()) {
                    Some(j) => j,
                    None => continue,
                };
                let variant = j["variant"].as_str().unwrap_or("").to_string();
                ctx.journal(&variant, &j["case"]);
                rep.class("regress-replay");
                let r = guarded(|| (meta.replay)(&variant, &j["case"]));
                let res = match r {
                    Ok(r) => r,
                    Err(p) => Err(format!("panic: {}", p.join(" | "))),
                };
                if let Err(e) = res {
                    rep.violations.push(Violation {
                        variant: variant.clone(),
                        signature: j["signature"].as_str().unwrap_or(&variant).to_string(),
                        detail: format!("regression replay {} fails: {}", f.display(), e),
                        case: j["case"].clone(),
                    });
                }
            }
        }
        for f in &open {
            if f["witness"].is_object() {
                let variant = format!("{}!raw", f["witness"]["variant"].as_str().unwrap_or(""));
                ctx.journal(&variant, &f["witness"]["case"]);
                let r = guarded(|| (meta.replay)(&variant, &f["witness"]["case"]));
                let failing = !matches!(r, Ok(Ok(())));
                if failing {
                    rep.known_still_failing.push((
                        f["id"].as_str().unwrap_or("?").to_string(),
                        f["what"].as_str().unwrap_or("").to_string(),
                    ));
                }
            }
        }
        ctx.journal_clear();
    }
    (meta.run)(&ctx, &mut rep);
    ctx.journal_clear();
    std::fs::write(&a[5], serde_json::to_vec(&rep).unwrap()).unwrap();
}

fn vcheck_watchdog() {
    driver::start_watchdog();
}

fn replay_file(path: &str) {
    let j: Json = serde_json::from_slice(&std::fs::read(path).expect("read replay")).expect("parse replay");
    let id = j["property"].as_str().expect("property");
    let meta = find_prop(id);
    install_panic_hook();
    refcodec::AVOID_ZERO_WIDTH_DEFAULT.store(open_ids_for(id).iter().any(|o| o == "KF-codec-array-of-null"), std::sync::atomic::Ordering::Relaxed);
    let variant = j["variant"].as_str().unwrap_or("").to_string();
    vcheck_watchdog();
    let r = guarded(|| (meta.replay)(&variant, &j["case"]));
    match r {
        Ok(Ok(())) => {
            println!("replay holds: property={} variant={}", id, variant);
            std::process::exit(0)
        }
        Ok(Err(e)) => {
            println!("replay detail: {}", e);
            println!("VIOLATION property={} replay={}", id, path);
            std::process::exit(1)
        }
        Err(p) => {
            println!("replay panic: {}", p.join(" | "));
            println!("VIOLATION property={} replay={}", id, path);
            std::process::exit(1)
        }
    }
}

fn parent(id: &str, tier: Tier) {
    let meta = find_prop(id);
    let seed = seed_env();
    let t0 = Instant::now();
    let nshards: u32 = std::env::var("VERIF_SHARDS")
        .ok()
        .and_then(|s| s.parse().ok())
        .unwrap_or_else(|| std::thread::available_parallelism().map(|n| n.get() as u32).unwrap_or(8));
    let exe = std::env::current_exe().unwrap();
    let tmp = Path::new(VERIF).join("harness/target/run").join(format!("{}-{}", id, std::process::id()));
    let _ = std::fs::create_dir_all(&tmp);
    let mut kids = Vec::new();
    for s in 0..nshards {
        let out = tmp.join(format!("shard-{}.json", s));
        let journal = if meta.crashy {
            tmp.join(format!("shard-{}.journal", s)).to_string_lossy().to_string()
        } else {
            String::new()
        };
        let child = Command::new(&exe)
            .args([
                "worker",
                id,
                tier.name(),
                &seed.to_string(),
                &s.to_string(),
                &nshards.to_string(),
                &out.to_string_lossy(),
                &journal,
            ])
            .stdout(Stdio::null())
            .stderr(Stdio::piped())
            .spawn()
            .expect("spawn worker");
        kids.push((s, out, journal, child));
    }
    let mut rep = Report::default();
    for (s, out, journal, child) in kids {
        let o = child.wait_with_output().expect("wait worker");
        let parsed: Option<Report> = std::fs::read(&out).ok().and_then(|b| serde_json::from_slice(&b).ok());
        match (o.status.success(), parsed) {
            (true, Some(r)) => rep.merge(r),
            (_, _) => {
                let stderr = String::from_utf8_lossy(&o.stderr);
                let tail: String = stderr.lines().rev().take(12).collect::<Vec<_>>().into_iter().rev().collect::<Vec<_>>().join("\n");
                let jcase: Option<Json> = if journal.is_empty() {
                    None
                } else {
                    std::fs::read(&journal).ok().and_then(|b| {
                        let first = b.split(|c| *c == b'\n').next().unwrap_or(&[]).to_vec();
                        serde_json::from_slice(&first).ok()
                    })
                };
                match jcase {
                    _ if tail.contains("STUCK-WATCHDOG") => rep.inconclusive.push(format!("worker {} made no progress in wall-clock time and gave up:\n{}", s, tail)),
                    Some(j) if meta.crashy => {
                        let sig = crash_signature(&tail, &o.status);
                        rep.violations.push(Violation {
                            variant: j["variant"].as_str().unwrap_or("?").to_string(),
                            signature: sig,
                            detail: format!("worker {} died ({:?}) while executing this case; stderr tail:\n{}", s, o.status, tail),
                            case: j["case"].clone(),
                        });
                    }
                    _ => rep.inconclusive.push(format!("worker {} exited abnormally ({:?}) without a journalled case:\n{}", s, o.status, tail)),
                }
            }
        }
    }
    let _ = std::fs::remove_dir_all(&tmp);

    // health checks
    let nt = rep.nontrivial.len() as u64;
    if rep.evaluations > 0 && (nt as f64) < meta.nontrivial_floor * rep.evaluations as f64 && rep.violations.is_empty() {
        rep.inconclusive.push(format!(
            "non-trivial fraction {}/{} below floor {}",
            nt, rep.evaluations, meta.nontrivial_floor
        ));
    }

    // classify violations against open known findings
    let open = open_findings_for(id);
    let mut known_lines: BTreeMap<String, String> = BTreeMap::new();
    for (fid, what) in &rep.known_still_failing {
        known_lines.insert(fid.clone(), what.clone());
    }
    let mut new_violations = Vec::new();
    for v in &rep.violations {
        let hit = open.iter().find(|f| {
            f["signatures"]
                .as_array()
                .map(|a| a.iter().any(|s| s.as_str() == Some(v.signature.as_str())))
                .unwrap_or(false)
        });
        match hit {
            Some(f) => {
                known_lines.insert(
                    f["id"].as_str().unwrap_or("?").to_string(),
                    f["what"].as_str().unwrap_or("").to_string(),
                );
            }
            None => new_violations.push(v.clone()),
        }
    }

    let wall = t0.elapsed().as_secs_f64();
    // evidence
    let mut samples = rep.samples.clone();
    if samples.is_empty() {
        samples.push(json!("no sample recorded"));
    }
    let ev = json!({
        "property_id": id,
        "tier": tier.name(),
        "seed": seed as i64,
        "level": meta.level,
        "coverage": {
            "evaluations": rep.evaluations,
            "distinct_nontrivial": nt,
            "rule": meta.rule,
            "samples": samples,
            "classes": rep.classes,
            "excluded_known": rep.excluded,
            "exhaustive": rep.exhaustive,
            "notes": rep.notes,
            "shards": nshards,
        },
        "assumptions": meta.assumptions,
        "wall_s": (wall * 100.0).round() / 100.0,
        "violations": new_violations.len(),
        "known_findings_reproduced": known_lines.keys().collect::<Vec<_>>(),
        "inconclusive": rep.inconclusive,
    });
    let evdir = Path::new(VERIF).join("evidence");
    let _ = std::fs::create_dir_all(&evdir);
    std::fs::write(evdir.join(format!("{}.json", id)), serde_json::to_vec_pretty(&ev).unwrap()).expect("write evidence");

    for (fid, what) in &known_lines {
        println!("KNOWN-FINDING: property={} {} — {}", id, fid, what);
    }
    println!(
        "{} {}: evaluations={} distinct_nontrivial={} wall={:.1}s seed={}",
        id,
        tier.name(),
        rep.evaluations,
        nt,
        wall,
        seed
    );
    if !new_violations.is_empty() {
        let dir = Path::new(VERIF).join("replays/found");
        let _ = std::fs::create_dir_all(&dir);
        // one line per distinct signature
        let mut seen = std::collections::HashSet::new();
        for v in &new_violations {
            if !seen.insert(v.signature.clone()) {
                continue;
            }
            let body = json!({"property": id, "variant": v.variant, "signature": v.signature, "detail": v.detail, "seed": seed as i64, "case": v.case});
            let bytes = serde_json::to_vec_pretty(&body).unwrap();
            let h = hash_of(&(v.signature.as_str(), serde_json::to_string(&v.case).unwrap_or_default()));
            let path = dir.join(format!("{}-{:016x}.json", id, h));
            let _ = std::fs::write(&path, bytes);
            let mut d = v.detail.clone();
            if d.len() > 1500 {
                let mut c = 1500;
                while !d.is_char_boundary(c) {
                    c -= 1;
                }
                d.truncate(c);
            }
            println!("violation detail [{}] {}: {}", v.variant, v.signature, d);
            println!("VIOLATION property={} replay={}", id, path.display());
        }
        std::process::exit(1);
    }
    if !rep.inconclusive.is_empty() {
        for i in &rep.inconclusive {
            println!("INCONCLUSIVE property={} {}", id, i);
        }
        std::process::exit(2);
    }
    std::process::exit(0);
}

fn crash_signature(stderr_tail: &str, status: &std::process::ExitStatus) -> String {
    use std::os::unix::process::ExitStatusExt;
    if stderr_tail.contains("stack overflow") || status.signal() == Some(11) {
        "crash:stack-overflow".into()
    } else if stderr_tail.contains("memory allocation of") || stderr_tail.contains("ALLOC-BUDGET") {
        "crash:alloc".into()
    } else if stderr_tail.contains("SPIN-WATCHDOG") {
        "cpu-spin".into()
    } else if stderr_tail.contains("WATCHDOG") {
        "crash:watchdog".into()
    } else {
        format!("crash:{:?}", status.signal())
    }
}
