use vcheck::{alloc, checks, driver, refcodec};

use driver::*;
use serde_json::{json, Value as Json};
use std::collections::BTreeMap;
use std::path::{Path, PathBuf};
use std::process::{Command, Stdio};
use std::time::Instant;

#[global_allocator]
static GLOBAL: alloc::Counting = alloc::Counting;

const VERIF: &str = "/verif";
/// where a run writes (evidence, replays/found, scratch): /verif, or VERIF_OUT for trial runs against a patched copy
fn out_root() -> std::path::PathBuf {
    std::env::var_os("VERIF_OUT").map(std::path::PathBuf::from).unwrap_or_else(|| std::path::PathBuf::from(VERIF))
}

fn find_prop(id: &str) -> PropMeta {
    checks::registry()
        .into_iter()
        .find(|p| p.id == id)
        .unwrap_or_else(|| {
            eprintln!("unknown property {}", id);
            std::process::exit(2)
        })
}

fn usage() -> ! {
    eprintln!("usage: vcheck <Cxx> [--tier quick|thorough] | vcheck replay <file> | vcheck list");
    std::process::exit(2)
}

fn main() {
    let args: Vec<String> = std::env::args().collect();
    if args.len() < 2 {
        usage();
    }
    match args[1].as_str() {
        "worker" => {
            // generous stack for deep strategies; checks that probe stack use run their own threads
            let a: Vec<String> = args[2..].to_vec();
            let h = std::thread::Builder::new().stack_size(256 << 20).spawn(move || worker(&a)).unwrap();
            if h.join().is_err() {
                eprintln!("HARNESS-PANIC: {}", take_panics().join(" | "));
                std::process::exit(101);
            }
        }
        "replay" => {
            if args.len() < 3 {
                usage()
            }
            replay_file(&args[2])
        }
        "fuzz-seeds" => {
            // vcheck fuzz-seeds <target> <dir>: write the seed corpus of a coverage-guided target
            if args.len() < 4 {
                usage()
            }
            let dir = Path::new(&args[3]);
            std::fs::create_dir_all(dir).expect("mkdir");
            let seeds: Vec<Vec<u8>> = match args[2].as_str() {
                "c15_hostile" => checks::c15::fuzz_seeds(),
                "c04_decode" => checks::c04::fuzz_seeds(),
                _ => usage(),
            };
            for (i, s) in seeds.iter().enumerate() {
                std::fs::write(dir.join(format!("seed-{i:04}")), s).expect("write seed");
            }
            println!("{} seeds", seeds.len());
        }
        "list" => {
            for p in checks::registry() {
                println!("{}", p.id);
            }
        }
        id => {
            let mut tier = match std::env::var("VERIF_TIER").ok().as_deref() {
                Some("thorough") => Tier::Thorough,
                _ => Tier::Quick,
            };
            let mut i = 2;
            while i < args.len() {
                match args[i].as_str() {
                    "--tier" => {
                        i += 1;
                        tier = match args.get(i).map(|s| s.as_str()) {
                            Some("thorough") => Tier::Thorough,
                            Some("quick") => Tier::Quick,
                            _ => usage(),
                        };
                    }
                    "quick" => tier = Tier::Quick,
                    "thorough" => tier = Tier::Thorough,
                    _ => usage(),
                }
                i += 1;
            }
            parent(id, tier)
        }
    }
}

fn seed_env() -> u64 {
    std::env::var("VERIF_SEED")
        .ok()
        .and_then(|s| s.trim().parse::<i64>().ok().map(|x| x as u64).or_else(|| s.trim().parse::<u64>().ok()))
        .unwrap_or(0)
}

fn worker(a: &[String]) {
    // worker <id> <tier> <seed> <shard> <nshards> <outfile> <journal>
    let meta = find_prop(&a[0]);
    let tier = if a[1] == "thorough" { Tier::Thorough } else { Tier::Quick };
    let open = open_findings_for(meta.id);
    let ctx = ShardCtx {
        prop: meta.id.to_string(),
        tier,
        seed: a[2].parse().unwrap(),
        shard: a[3].parse().unwrap(),
        nshards: a[4].parse().unwrap(),
        journal: a[6].clone(),
        open_findings: open_ids_for(meta.id),
    };
    install_panic_hook();
    vcheck_watchdog();
    refcodec::AVOID_ZERO_WIDTH_DEFAULT.store(ctx.is_open("KF-codec-array-of-null"), std::sync::atomic::Ordering::Relaxed);
    let mut rep = Report::default();
    if ctx.shard == 0 {
        // regression tier: committed replays, then witnesses of open findings
        let dir = Path::new(VERIF).join("replays/regress").join(meta.id);
        if let Ok(rd) = std::fs::read_dir(&dir) {
            let mut files: Vec<PathBuf> = rd.filter_map(|e| e.ok().map(|e| e.path())).collect();
            files.sort();
            for f in files {
                if f.extension().map(|e| e != "json").unwrap_or(true) {
                    continue;
                }
                let j: Json = match std::fs::read(&f).ok().and_then(|b| serde_json::from_slice(&b).ok()) {
                    Some(j) => j,
                    None => continue,
                };
                let variant = j["variant"].as_str().unwrap_or("").to_string();
                ctx.journal(&variant, &j["case"]);
                rep.class("regress-replay");
                let r = guarded(|| (meta.replay)(&variant, &j["case"]));
                let res = match r {
                    Ok(r) => r,
                    Err(p) => Err(format!("panic: {}", p.join(" | "))),
                };
                if let Err(e) = res {
                    rep.violations.push(Violation {
                        variant: variant.clone(),
                        signature: j["signature"].as_str().unwrap_or(&variant).to_string(),
                        detail: format!("regression replay {} fails: {}", f.display(), e),
                        case: j["case"].clone(),
                    });
                }
            }
        }
        for f in &open {
            if f["witness"].is_object() {
                let variant = format!("{}!raw", f["witness"]["variant"].as_str().unwrap_or(""));
                ctx.journal(&variant, &f["witness"]["case"]);
                let r = guarded(|| (meta.replay)(&variant, &f["witness"]["case"]));
                let failing = !matches!(r, Ok(Ok(())));
                if failing {
                    rep.known_still_failing.push((
                        f["id"].as_str().unwrap_or("?").to_string(),
                        f["what"].as_str().unwrap_or("").to_string(),
                    ));
                }
            }
        }
        ctx.journal_clear();
    }
    (meta.run)(&ctx, &mut rep);
    ctx.journal_clear();
    std::fs::write(&a[5], serde_json::to_vec(&rep).unwrap()).unwrap();
}

fn vcheck_watchdog() {
    driver::start_watchdog();
}

fn replay_file(path: &str) {
    let j: Json = serde_json::from_slice(&std::fs::read(path).expect("read replay")).expect("parse replay");
    let id = j["property"].as_str().expect("property");
    let meta = find_prop(id);
    install_panic_hook();
    refcodec::AVOID_ZERO_WIDTH_DEFAULT.store(open_ids_for(id).iter().any(|o| o == "KF-codec-array-of-null"), std::sync::atomic::Ordering::Relaxed);
    let variant = j["variant"].as_str().unwrap_or("").to_string();
    let _ = driver::REPLAY_CTX.set((id.to_string(), path.to_string()));
    vcheck_watchdog();
    let r = guarded(|| (meta.replay)(&variant, &j["case"]));
    match r {
        Ok(Ok(())) => {
            println!("replay holds: property={} variant={}", id, variant);
            std::process::exit(0)
        }
        Ok(Err(e)) => {
            println!("replay detail: {}", e);
            println!("VIOLATION property={} replay={}", id, path);
            std::process::exit(1)
        }
        Err(p) => {
            println!("replay panic: {}", p.join(" | "));
            println!("VIOLATION property={} replay={}", id, path);
            std::process::exit(1)
        }
    }
}

fn parent(id: &str, tier: Tier) {
    let meta = find_prop(id);
    let seed = seed_env();
    let t0 = Instant::now();
    let nshards: u32 = std::env::var("VERIF_SHARDS")
        .ok()
        .and_then(|s| s.parse().ok())
        .unwrap_or_else(|| std::thread::available_parallelism().map(|n| n.get() as u32).unwrap_or(8));
    let exe = std::env::current_exe().unwrap();
    let tmp = out_root().join("harness/target/run").join(format!("{}-{}", id, std::process::id()));
    let _ = std::fs::create_dir_all(&tmp);
    let mut kids = Vec::new();
    for s in 0..nshards {
        let out = tmp.join(format!("shard-{}.json", s));
        let journal = if meta.crashy {
            tmp.join(format!("shard-{}.journal", s)).to_string_lossy().to_string()
        } else {
            String::new()
        };
        let child = Command::new(&exe)
            .args([
                "worker",
                id,
                tier.name(),
                &seed.to_string(),
                &s.to_string(),
                &nshards.to_string(),
                &out.to_string_lossy(),
                &journal,
            ])
            .stdout(Stdio::null())
            .stderr(Stdio::piped())
            .spawn()
            .expect("spawn worker");
        kids.push((s, out, journal, child));
    }
    let mut rep = Report::default();
    for (s, out, journal, child) in kids {
        let o = child.wait_with_output().expect("wait worker");
        let parsed: Option<Report> = std::fs::read(&out).ok().and_then(|b| serde_json::from_slice(&b).ok());
        match (o.status.success(), parsed) {
            (true, Some(r)) => rep.merge(r),
            (_, _) => {
                let stderr = String::from_utf8_lossy(&o.stderr);
                let tail: String = stderr.lines().rev().take(12).collect::<Vec<_>>().into_iter().rev().collect::<Vec<_>>().join("\n");
                let jcase: Option<Json> = if journal.is_empty() {
                    None
                } else {
                    std::fs::read(&journal).ok().and_then(|b| {
                        let first = b.split(|c| *c == b'\n').next().unwrap_or(&[]).to_vec();
                        serde_json::from_slice(&first).ok()
                    })
                };
                match jcase {
                    _ if tail.contains("STUCK-WATCHDOG") => {
                        // a thread blocked in real time (e.g. a lock held across an await): not a verdict, but keep the case
                        let mut where_ = String::new();
                        if let Some(j) = &jcase {
                            let dir = out_root().join("replays/found");
                            let _ = std::fs::create_dir_all(&dir);
                            let path = dir.join(format!("{}-stuck-{:016x}.json", id, hash_of(&serde_json::to_string(j).unwrap_or_default())));
                            let body = json!({"property": id, "variant": j["variant"], "signature": "stuck-in-real-time", "detail": "the worker made no progress in wall-clock time while executing this case (blocked thread)", "case": j["case"]});
                            let _ = std::fs::write(&path, serde_json::to_vec_pretty(&body).unwrap());
                            where_ = format!(" (case saved as {})", path.display());
                        }
                        rep.inconclusive.push(format!("worker {} made no progress in wall-clock time and gave up{}:\n{}", s, where_, tail))
                    }
                    Some(j) if meta.crashy => {
                        let sig = crash_signature(&tail, &o.status);
                        rep.violations.push(Violation {
                            variant: j["variant"].as_str().unwrap_or("?").to_string(),
                            signature: sig,
                            detail: format!("worker {} died ({:?}) while executing this case; stderr tail:\n{}", s, o.status, tail),
                            case: j["case"].clone(),
                        });
                    }
                    _ => rep.inconclusive.push(format!("worker {} exited abnormally ({:?}) without a journalled case:\n{}", s, o.status, tail)),
                }
            }
        }
    }
    let _ = std::fs::remove_dir_all(&tmp);

    // health checks
    let nt = rep.nontrivial.len() as u64;
    // the distinct set is capped per worker; the health check uses the uncapped count of non-trivial evaluations
    let nt_health = nt.max(rep.nontrivial_evals);
    if rep.evaluations > 0 && (nt_health as f64) < meta.nontrivial_floor * rep.evaluations as f64 && rep.violations.is_empty() {
        rep.inconclusive.push(format!(
            "non-trivial fraction {}/{} below floor {}",
            nt_health, rep.evaluations, meta.nontrivial_floor
        ));
    }

    // classify violations against open known findings
    let open = open_findings_for(id);
    let mut known_lines: BTreeMap<String, String> = BTreeMap::new();
    for (fid, what) in &rep.known_still_failing {
        known_lines.insert(fid.clone(), what.clone());
    }
    let mut new_violations = Vec::new();
    for v in &rep.violations {
        let hit = open.iter().find(|f| {
            f["signatures"]
                .as_array()
                .map(|a| a.iter().any(|s| s.as_str() == Some(v.signature.as_str())))
                .unwrap_or(false)
        });
        match hit {
            Some(f) => {
                known_lines.insert(
                    f["id"].as_str().unwrap_or("?").to_string(),
                    f["what"].as_str().unwrap_or("").to_string(),
                );
            }
            None => new_violations.push(v.clone()),
        }
    }

    // coverage-guided stage (thorough tier of the byte-level properties)
    let mut fuzz_info = Json::Null;
    if tier == Tier::Thorough && new_violations.is_empty() {
        if let Some((target, runs_per_job, max_len)) = match id {
            "C04" => Some(("c04_decode", 3_000_000u64, 2048u32)),
            "C15" => Some(("c15_hostile", 150_000u64, 1024u32)),
            _ => None,
        } {
            let runs_per_job = std::env::var("VERIF_FUZZ_RUNS").ok().and_then(|s| s.parse().ok()).unwrap_or(runs_per_job);
            match fuzz_stage(id, target, runs_per_job, max_len, seed) {
                Ok((info, crashes)) => {
                    fuzz_info = info;
                    for (detail, case, variant) in crashes {
                        new_violations.push(Violation { variant, signature: format!("fuzz:{}", detail.lines().next().unwrap_or("").chars().take(120).collect::<String>()), detail, case });
                    }
                }
                Err(e) => rep.inconclusive.push(format!("coverage-guided stage: {e}")),
            }
        }
    }

    let wall = t0.elapsed().as_secs_f64();
    // evidence
    let mut samples = rep.samples.clone();
    if samples.is_empty() {
        samples.push(json!("no sample recorded"));
    }
    let ev = json!({
        "property_id": id,
        "tier": tier.name(),
        "seed": seed as i64,
        "level": meta.level,
        "coverage": {
            "evaluations": rep.evaluations,
            "distinct_nontrivial": nt,
            "rule": meta.rule,
            "samples": samples,
            "classes": rep.classes,
            "nontrivial_evaluations": rep.nontrivial_evals,
            "excluded_known": rep.excluded,
            "exhaustive": rep.exhaustive,
            "notes": rep.notes,
            "shards": nshards,
            "coverage_guided": fuzz_info,
        },
        "assumptions": meta.assumptions,
        "wall_s": (wall * 100.0).round() / 100.0,
        "violations": new_violations.len(),
        "known_findings_reproduced": known_lines.keys().collect::<Vec<_>>(),
        "inconclusive": rep.inconclusive,
    });
    let evdir = out_root().join("evidence");
    let _ = std::fs::create_dir_all(&evdir);
    std::fs::write(evdir.join(format!("{}.json", id)), serde_json::to_vec_pretty(&ev).unwrap()).expect("write evidence");

    for (fid, what) in &known_lines {
        println!("KNOWN-FINDING: property={} {} — {}", id, fid, what);
    }
    println!(
        "{} {}: evaluations={} distinct_nontrivial={} wall={:.1}s seed={}",
        id,
        tier.name(),
        rep.evaluations,
        nt,
        wall,
        seed
    );
    if !new_violations.is_empty() {
        let dir = out_root().join("replays/found");
        let _ = std::fs::create_dir_all(&dir);
        // one line per distinct signature
        let mut seen = std::collections::HashSet::new();
        for v in &new_violations {
            if !seen.insert(v.signature.clone()) {
                continue;
            }
            let body = json!({"property": id, "variant": v.variant, "signature": v.signature, "detail": v.detail, "seed": seed as i64, "case": v.case});
            let bytes = serde_json::to_vec_pretty(&body).unwrap();
            let h = hash_of(&(v.signature.as_str(), serde_json::to_string(&v.case).unwrap_or_default()));
            let path = dir.join(format!("{}-{:016x}.json", id, h));
            let _ = std::fs::write(&path, bytes);
            let mut d = v.detail.clone();
            if d.len() > 1500 {
                let mut c = 1500;
                while !d.is_char_boundary(c) {
                    c -= 1;
                }
                d.truncate(c);
            }
            println!("violation detail [{}] {}: {}", v.variant, v.signature, d);
            println!("VIOLATION property={} replay={}", id, path.display());
        }
        std::process::exit(1);
    }
    if !rep.inconclusive.is_empty() {
        for i in &rep.inconclusive {
            println!("INCONCLUSIVE property={} {}", id, i);
        }
        std::process::exit(2);
    }
    std::process::exit(0);
}

/// Run the libFuzzer target `target` as 16 independent jobs with distinct seeds, `runs` executions each,
/// from a fresh corpus seeded by `vcheck fuzz-seeds`. Returns statistics and the crashes found, each
/// re-checked through the property's own replay function so that the replay file is a plain case.
fn fuzz_stage(id: &str, target: &str, runs: u64, max_len: u32, seed: u64) -> Result<(Json, Vec<(String, Json, String)>), String> {
    let fuzz_dir = Path::new(VERIF).join("fuzz");
    let t0 = Instant::now();
    let out = Command::new("cargo")
        .args(["+nightly", "fuzz", "build", "--fuzz-dir", &fuzz_dir.to_string_lossy(), target])
        .env("RUSTFLAGS", "--cfg fe2o3_amqp_verif --cfg tokio_unstable")
        .env("CARGO_NET_OFFLINE", "true")
        .current_dir(&fuzz_dir)
        .output()
        .map_err(|e| format!("cannot run cargo fuzz: {e}"))?;
    if !out.status.success() {
        let err = String::from_utf8_lossy(&out.stderr);
        return Err(format!("cargo fuzz build failed: {}", err.lines().rev().take(15).collect::<Vec<_>>().into_iter().rev().collect::<Vec<_>>().join(" | ")));
    }
    let build_s = t0.elapsed().as_secs_f64();
    let bin = fuzz_dir.join("target/x86_64-unknown-linux-gnu/release").join(target);
    if !bin.exists() {
        return Err(format!("fuzz binary {} not found after build", bin.display()));
    }
    let work = fuzz_dir.join("work").join(format!("{}-{}", target, std::process::id()));
    let _ = std::fs::remove_dir_all(&work);
    let seeds_dir = work.join("seeds");
    std::fs::create_dir_all(&seeds_dir).map_err(|e| e.to_string())?;
    let seeds: Vec<Vec<u8>> = match target {
        "c04_decode" => checks::c04::fuzz_seeds(),
        _ => checks::c15::fuzz_seeds(),
    };
    for (i, sd) in seeds.iter().enumerate() {
        std::fs::write(seeds_dir.join(format!("seed-{i:04}")), sd).map_err(|e| e.to_string())?;
    }
    let jobs = 16u64;
    let mut kids = Vec::new();
    for j in 0..jobs {
        let corpus = work.join(format!("corpus-{j}"));
        let art = work.join(format!("art-{j}"));
        std::fs::create_dir_all(&corpus).map_err(|e| e.to_string())?;
        std::fs::create_dir_all(&art).map_err(|e| e.to_string())?;
        let log = std::fs::File::create(work.join(format!("job-{j}.log"))).map_err(|e| e.to_string())?;
        let child = Command::new(&bin)
            .arg(&corpus)
            .arg(&seeds_dir)
            .args([
                format!("-runs={runs}"),
                format!("-seed={}", seed.wrapping_mul(jobs).wrapping_add(j).wrapping_add(1) as u32),
                format!("-max_len={max_len}"),
                "-timeout=120".to_string(),
                "-rss_limit_mb=6144".to_string(),
                "-len_control=0".to_string(),
                "-print_final_stats=1".to_string(),
                format!("-artifact_prefix={}/", art.display()),
            ])
            .stdout(Stdio::null())
            .stderr(Stdio::from(log))
            .spawn()
            .map_err(|e| format!("cannot start fuzz job: {e}"))?;
        kids.push((j, child, art));
    }
    let mut execs: u64 = 0;
    let mut cov_max: u64 = 0;
    let mut corpus_max: u64 = 0;
    let mut crashes: Vec<(String, Json, String)> = Vec::new();
    let mut bad_exit: Vec<String> = Vec::new();
    let meta = find_prop(id);
    for (j, mut child, art) in kids {
        let st = child.wait().map_err(|e| e.to_string())?;
        let log = std::fs::read_to_string(work.join(format!("job-{j}.log"))).unwrap_or_default();
        for l in log.lines() {
            if let Some(v) = l.strip_prefix("stat::number_of_executed_units:") {
                execs += v.trim().parse::<u64>().unwrap_or(0);
            }
            if l.contains(" cov: ") {
                let f: Vec<&str> = l.split_whitespace().collect();
                if let Some(p) = f.iter().position(|x| *x == "cov:") {
                    cov_max = cov_max.max(f.get(p + 1).and_then(|x| x.parse().ok()).unwrap_or(0));
                }
                if let Some(p) = f.iter().position(|x| *x == "corp:") {
                    corpus_max = corpus_max.max(f.get(p + 1).and_then(|x| x.split('/').next()).and_then(|x| x.parse().ok()).unwrap_or(0));
                }
            }
        }
        let mut found_artifact = false;
        if let Ok(rd) = std::fs::read_dir(&art) {
            for e in rd.flatten() {
                let name = e.file_name().to_string_lossy().to_string();
                let data = std::fs::read(e.path()).unwrap_or_default();
                found_artifact = true;
                if name.starts_with("crash-") {
                    let (variant, case) = match target {
                        "c04_decode" => ("fuzz".to_string(), json!({"target": data.first().copied().unwrap_or(0) % checks::c04::N_TARGETS, "hex": refcodec::hex(&data[1.min(data.len())..]), "how": "libfuzzer"})),
                        _ => ("hostile".to_string(), serde_json::to_value(checks::c15::fuzz_case(&data)).unwrap_or(Json::Null)),
                    };
                    // re-check through the property's replay path (outside the sanitizer build)
                    let detail = match guarded(|| (meta.replay)(&variant, &case)) {
                        Ok(Ok(())) => format!("libFuzzer job {j} crashed on this input but the plain replay holds (sanitizer-only failure?); log tail: {}", log.lines().rev().take(12).collect::<Vec<_>>().into_iter().rev().collect::<Vec<_>>().join(" | ")),
                        Ok(Err(e)) => e,
                        Err(p) => format!("panic: {}", p.join(" | ")),
                    };
                    crashes.push((detail, case, variant));
                } else {
                    bad_exit.push(format!("job {j} produced {name} (time/memory limit of the fuzzer, not a property verdict)"));
                }
            }
        }
        if !st.success() && !found_artifact {
            bad_exit.push(format!("job {j} exited with {st:?} without an artifact; log tail: {}", log.lines().rev().take(6).collect::<Vec<_>>().into_iter().rev().collect::<Vec<_>>().join(" | ")));
        }
    }
    let _ = std::fs::remove_dir_all(&work);
    if !bad_exit.is_empty() && crashes.is_empty() {
        return Err(bad_exit.join("; "));
    }
    Ok((
        json!({"engine": "libFuzzer (cargo-fuzz, ASan, debug assertions)", "target": target, "jobs": jobs, "runs_per_job": runs, "executions": execs, "edges_covered_max": cov_max, "corpus_size_max": corpus_max, "seed_inputs": seeds.len(), "build_s": build_s.round(), "wall_s": t0.elapsed().as_secs_f64().round(), "crashes": crashes.len()}),
        crashes,
    ))
}

fn crash_signature(stderr_tail: &str, status: &std::process::ExitStatus) -> String {
    use std::os::unix::process::ExitStatusExt;
    if stderr_tail.contains("stack overflow") || status.signal() == Some(11) {
        "crash:stack-overflow".into()
    } else if stderr_tail.contains("memory allocation of") || stderr_tail.contains("ALLOC-BUDGET") {
        "crash:alloc".into()
    } else if stderr_tail.contains("BLOCKED-WATCHDOG") {
        "thread-blocked".into()
    } else if stderr_tail.contains("SPIN-WATCHDOG") {
        "cpu-spin".into()
    } else if stderr_tail.contains("WATCHDOG") {
        "crash:watchdog".into()
    } else {
        format!("crash:{:?}", status.signal())
    }
}
