//! proptest strategies for the reference value model.
use crate::conv;
use crate::refcodec::RValue;
use proptest::collection::vec;
use proptest::prelude::*;
use std::collections::HashSet;

pub fn u8_edge() -> impl Strategy<Value = u8> {
    prop_oneof![Just(0u8), Just(1), Just(127), Just(128), Just(255), any::<u8>()]
}
pub fn u16_edge() -> impl Strategy<Value = u16> {
    prop_oneof![
        Just(0u16),
        Just(1),
        Just(255),
        Just(256),
        Just(u16::MAX),
        any::<u16>()
    ]
}
pub fn u32_edge() -> impl Strategy<Value = u32> {
    prop_oneof![
        Just(0u32),
        Just(1),
        Just(127),
        Just(128),
        Just(255),
        Just(256),
        Just(65535),
        Just(65536),
        Just(i32::MAX as u32),
        Just(1u32 << 31),
        Just(u32::MAX),
        Just(u32::MAX - 1),
        0u32..512,
        any::<u32>()
    ]
}
pub fn u64_edge() -> impl Strategy<Value = u64> {
    prop_oneof![
        Just(0u64),
        Just(1),
        Just(255),
        Just(256),
        Just(u32::MAX as u64),
        Just(u32::MAX as u64 + 1),
        Just(i64::MAX as u64),
        Just(u64::MAX),
        0u64..512,
        any::<u64>()
    ]
}
pub fn i32_edge() -> impl Strategy<Value = i32> {
    prop_oneof![
        Just(0i32),
        Just(-1),
        Just(1),
        Just(127),
        Just(128),
        Just(-128),
        Just(-129),
        Just(i32::MIN),
        Just(i32::MAX),
        -300i32..300,
        any::<i32>()
    ]
}
pub fn i64_edge() -> impl Strategy<Value = i64> {
    prop_oneof![
        Just(0i64),
        Just(-1),
        Just(127),
        Just(128),
        Just(-128),
        Just(-129),
        Just(i64::MIN),
        Just(i64::MAX),
        -300i64..300,
        any::<i64>()
    ]
}

pub fn f32_bits() -> impl Strategy<Value = u32> {
    prop_oneof![
        Just(0u32),
        Just(0x8000_0000),
        Just(0x7f80_0000),
        Just(0xff80_0000),
        Just(0x7fc0_0000),
        Just(0x7fc0_0001),
        Just(0xffff_ffff),
        Just(1u32),
        any::<u32>()
    ]
}
pub fn f64_bits() -> impl Strategy<Value = u64> {
    prop_oneof![
        Just(0u64),
        Just(0x8000_0000_0000_0000),
        Just(0x7ff0_0000_0000_0000),
        Just(0x7ff8_0000_0000_0000),
        Just(0x7ff8_0000_0000_0001),
        Just(u64::MAX),
        any::<u64>()
    ]
}

pub fn any_char() -> impl Strategy<Value = char> {
    prop_oneof![
        3 => proptest::char::range('\u{0}', '\u{7f}'),
        2 => proptest::char::range('\u{80}', '\u{7ff}'),
        2 => proptest::char::range('\u{800}', '\u{ffff}'),
        2 => proptest::char::range('\u{10000}', '\u{10ffff}'),
        1 => prop_oneof![Just('\u{0}'), Just('\u{d7ff}'), Just('\u{e000}'), Just('\u{10ffff}'), Just('\u{7f}'), Just('\u{80}')],
    ]
}

/// strings over the full unicode range, byte lengths on both sides of 255
pub fn string_strategy(big: bool) -> BoxedStrategy<String> {
    let small = vec(any_char(), 0..12).prop_map(|v| v.into_iter().collect::<String>());
    let ascii = "[ -~]{0,40}".prop_map(|s| s);
    // exact byte lengths around the 8/32-bit boundary
    let boundary = (prop_oneof![Just(253usize), Just(254), Just(255), Just(256), Just(257), Just(300)], vec(any_char(), 0..6)).prop_map(
        |(target, pre)| {
            let mut s: String = pre.into_iter().collect();
            while s.len() > target {
                s.pop();
            }
            while s.len() < target {
                s.push('a');
            }
            s
        },
    );
    if big {
        let huge = prop_oneof![Just(65535usize), Just(65536), Just(65537)].prop_map(|n| "z".repeat(n));
        prop_oneof![6 => small, 3 => ascii, 2 => boundary, 1 => huge].boxed()
    } else {
        prop_oneof![6 => small, 3 => ascii, 2 => boundary].boxed()
    }
}

/// C03 quantifies over symbols of the full Unicode range (the other codec checks compare against the
/// strict reference codec, for which a symbol is ASCII as the specification says); set by C03's run.
pub static UNICODE_SYMBOLS: std::sync::atomic::AtomicBool = std::sync::atomic::AtomicBool::new(false);

pub fn symbol_strategy() -> BoxedStrategy<String> {
    let small = "[!-~]{0,24}".prop_map(|s| s);
    let boundary = prop_oneof![Just(254usize), Just(255), Just(256), Just(257)].prop_map(|n| "s".repeat(n));
    if UNICODE_SYMBOLS.load(std::sync::atomic::Ordering::Relaxed) {
        let uni = "\\PC{0,16}".prop_map(|s| s);
        // octet lengths on both sides of the 8/32-bit width boundary while the character count stays below it
        let uni_boundary = (prop_oneof![Just(126usize), Just(127), Just(128), Just(129)], prop_oneof![Just('é'), Just('ж')], any::<bool>()).prop_map(|(n, c, pad)| {
            let mut s: String = std::iter::repeat(c).take(n).collect();
            if pad {
                s.push('x');
            }
            s
        });
        prop_oneof![6 => small, 1 => boundary, 3 => uni, 1 => uni_boundary].boxed()
    } else {
        prop_oneof![8 => small, 1 => boundary].boxed()
    }
}

pub fn binary_strategy(big: bool) -> BoxedStrategy<Vec<u8>> {
    let small = vec(any::<u8>(), 0..24);
    let boundary = (prop_oneof![Just(254usize), Just(255), Just(256), Just(257)], any::<u8>()).prop_map(|(n, b)| vec![b; n]);
    if big {
        let huge = prop_oneof![Just(65535usize), Just(65536)].prop_map(|n| vec![0xabu8; n]);
        prop_oneof![8 => small, 2 => boundary, 1 => huge].boxed()
    } else {
        prop_oneof![8 => small, 2 => boundary].boxed()
    }
}

/// one primitive (non-compound) value of a given kind index 0..=20
pub fn prim_of_kind(kind: u8, big: bool) -> BoxedStrategy<RValue> {
    match kind {
        0 => Just(RValue::Null).boxed(),
        1 => any::<bool>().prop_map(RValue::Bool).boxed(),
        2 => u8_edge().prop_map(RValue::Ubyte).boxed(),
        3 => u16_edge().prop_map(RValue::Ushort).boxed(),
        4 => u32_edge().prop_map(RValue::Uint).boxed(),
        5 => u64_edge().prop_map(RValue::Ulong).boxed(),
        6 => u8_edge().prop_map(|x| RValue::Byte(x as i8)).boxed(),
        7 => u16_edge().prop_map(|x| RValue::Short(x as i16)).boxed(),
        8 => i32_edge().prop_map(RValue::Int).boxed(),
        9 => i64_edge().prop_map(RValue::Long).boxed(),
        10 => f32_bits().prop_map(RValue::Float).boxed(),
        11 => f64_bits().prop_map(RValue::Double).boxed(),
        12 => any::<[u8; 4]>().prop_map(RValue::Dec32).boxed(),
        13 => any::<[u8; 8]>().prop_map(RValue::Dec64).boxed(),
        14 => any::<[u8; 16]>().prop_map(RValue::Dec128).boxed(),
        15 => any_char().prop_map(|c| RValue::Char(c as u32)).boxed(),
        16 => i64_edge().prop_map(RValue::Timestamp).boxed(),
        17 => any::<[u8; 16]>().prop_map(RValue::Uuid).boxed(),
        18 => binary_strategy(big).prop_map(RValue::Binary).boxed(),
        19 => string_strategy(big).prop_map(RValue::Str).boxed(),
        _ => symbol_strategy().prop_map(RValue::Sym).boxed(),
    }
}

pub fn any_prim(big: bool) -> BoxedStrategy<RValue> {
    (0u8..=20).prop_flat_map(move |k| prim_of_kind(k, big)).boxed()
}

pub fn descriptor() -> BoxedStrategy<RValue> {
    prop_oneof![
        u64_edge().prop_map(RValue::Ulong),
        "[a-z:.-]{1,20}".prop_map(RValue::Sym),
    ]
    .boxed()
}

fn same_shape(a: &RValue, b: &RValue) -> bool {
    match (a, b) {
        (RValue::Described(da, va), RValue::Described(db, vb)) => da == db && same_shape(va, vb),
        _ => a.kind() == b.kind(),
    }
}

/// force an element vector to be a legal array: all elements share the shape of the first
pub fn homogenize(v: Vec<RValue>) -> Vec<RValue> {
    let mut out: Vec<RValue> = Vec::new();
    for e in v {
        match out.first() {
            None => out.push(e),
            Some(f) => {
                if same_shape(f, &e) {
                    out.push(e)
                }
            }
        }
    }
    out
}

fn dedup_keys(pairs: Vec<(RValue, RValue)>) -> Vec<(RValue, RValue)> {
    let mut seen: HashSet<serde_amqp::Value> = HashSet::new();
    let mut out = Vec::new();
    for (k, v) in pairs {
        if seen.insert(conv::to_value(&k)) {
            out.push((k, v));
        }
    }
    out
}

#[derive(Clone, Copy, Debug)]
pub struct GenCfg {
    pub depth: u32,
    pub breadth: usize,
    pub big: bool,
    /// total node budget hint for prop_recursive
    pub size: u32,
}

impl Default for GenCfg {
    fn default() -> Self {
        GenCfg {
            depth: 4,
            breadth: 6,
            big: false,
            size: 48,
        }
    }
}

/// recursive AMQP value
pub fn rvalue(cfg: GenCfg) -> BoxedStrategy<RValue> {
    let leaf = any_prim(cfg.big);
    let b = cfg.breadth;
    let big = cfg.big;
    leaf.prop_recursive(cfg.depth, cfg.size, b as u32, move |inner| {
        let prim_array = (0u8..=20, 0usize..=b + 2)
            .prop_flat_map(move |(k, n)| vec(prim_of_kind(k, big), n..=n))
            .prop_map(RValue::Array);
        // same-kind compound arrays: build from inner then homogenize
        let comp_array = vec(
            prop_oneof![
                vec(inner.clone(), 0..=b).prop_map(RValue::List),
                vec((any_prim(false), inner.clone()), 0..=b / 2 + 1).prop_map(|p| RValue::Map(dedup_keys(p))),
                vec(inner.clone(), 0..=b).prop_map(|v| RValue::Array(homogenize(v))),
                (descriptor(), inner.clone()).prop_map(|(d, v)| RValue::described(d, v)),
            ],
            0..=b,
        )
        .prop_map(|v| RValue::Array(homogenize(v)));
        // arrays of described values sharing one descriptor
        let desc_array = (descriptor(), vec(inner.clone(), 1..=b)).prop_map(|(d, v)| {
            let v = homogenize(v);
            RValue::Array(v.into_iter().map(|x| RValue::described(d.clone(), x)).collect())
        });
        prop_oneof![
            4 => vec(inner.clone(), 0..=b).prop_map(RValue::List),
            3 => vec((inner.clone(), inner.clone()), 0..=b / 2 + 1).prop_map(|p| RValue::Map(dedup_keys(p))),
            2 => prim_array,
            2 => comp_array,
            1 => desc_array,
            2 => (descriptor(), inner.clone()).prop_map(|(d, v)| RValue::described(d, v)),
        ]
    })
    .boxed()
}

/// compound-heavy generator that hits the 8/32-bit width boundary of lists, maps and arrays
pub fn wide_compound() -> BoxedStrategy<RValue> {
    let n = prop_oneof![Just(253usize), Just(254), Just(255), Just(256), Just(257)];
    prop_oneof![
        (n.clone(), 0u8..=20).prop_flat_map(|(n, k)| vec(prim_of_kind(k, false), n..=n)).prop_map(RValue::Array),
        (n.clone()).prop_map(|n| RValue::List(vec![RValue::Null; n])),
        (n.clone()).prop_map(|n| RValue::List(vec![RValue::Ubyte(7); n / 2])),
        (n.clone()).prop_map(|n| RValue::Map((0..n as u32 / 2).map(|i| (RValue::Uint(i), RValue::Null)).collect())),
        (n).prop_map(|n| RValue::List(vec![RValue::Binary(vec![1; n - 10]), RValue::Bool(true)])),
    ]
    .boxed()
}

pub fn choices_bytes() -> BoxedStrategy<Vec<u8>> {
    prop_oneof![
        1 => Just(vec![]),
        1 => Just(vec![1]),
        1 => Just(vec![2]),
        4 => vec(0u8..4, 1..24),
    ]
    .boxed()
}
