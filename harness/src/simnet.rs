//! In-memory duplex transport owned by the harness: per-direction chunk schedule, stall
//! schedule, bounded buffer, fault plan and a byte tap with virtual timestamps.
use serde::{Deserialize, Serialize};
use std::collections::VecDeque;
use std::io;
use std::pin::Pin;
use std::sync::{Arc, Mutex};
use std::future::Future;
use std::task::{Context, Poll, Waker};
use tokio::io::{AsyncRead, AsyncWrite, ReadBuf};
use tokio::time::Instant;

#[derive(Clone, Copy, Debug, PartialEq, Eq, Serialize, Deserialize, Hash)]
pub enum FaultKind {
    /// reader sees end-of-stream, writers get BrokenPipe
    Eof,
    /// readers and writers get ConnectionReset
    Reset,
    /// nothing moves for the given virtual milliseconds, then Eof
    StallThenEof(u32),
}

#[derive(Clone, Copy, Debug, PartialEq, Eq, Serialize, Deserialize, Hash)]
pub struct Fault {
    /// direction whose byte count triggers the fault: 0 = A->B, 1 = B->A
    pub dir: u8,
    /// the fault fires once this many bytes were written in that direction
    pub at: usize,
    pub kind: FaultKind,
}

#[derive(Clone, Debug, PartialEq, Eq, Serialize, Deserialize, Hash)]
pub struct PipeCfg {
    /// max bytes moved per poll_write / poll_read, cycled, per direction (0 entries = unlimited)
    pub chunks: [Vec<u16>; 2],
    /// per poll_read: n>0 means return Pending (and self-wake) n times first; cycled
    pub stalls: [Vec<u8>; 2],
    /// buffer capacity per direction (back-pressure on the writer)
    pub cap: usize,
    pub fault: Option<Fault>,
    /// per side (0 = A, 1 = B): shutting the write half down reports NotConnected (what a socket
    /// does once the peer has reset it); the half is closed all the same
    #[serde(default)]
    pub shutdown_err: [bool; 2],
    /// per-direction capacities (override `cap`): [A->B, B->A]
    #[serde(default)]
    pub caps: Option<[usize; 2]>,
}

impl Default for PipeCfg {
    fn default() -> Self {
        PipeCfg { chunks: [vec![], vec![]], stalls: [vec![], vec![]], cap: 1 << 20, fault: None, shutdown_err: [false, false], caps: None }
    }
}

#[derive(Debug, Clone, Copy, PartialEq, Eq)]
enum Broken {
    No,
    Eof,
    Reset,
    /// stalled until the instant, then Eof
    Stalled(Instant),
}

#[derive(Debug)]
struct DirState {
    buf: VecDeque<u8>,
    /// writer half dropped or shut down
    closed: bool,
    /// reader half dropped: writes fail like on a closed socket
    reader_gone: bool,
    reader_waker: Option<Waker>,
    writer_waker: Option<Waker>,
    written: usize,
    wchunk_i: usize,
    rchunk_i: usize,
    stall_i: usize,
    stall_left: u8,
    tap: Vec<(Instant, Vec<u8>)>,
}

#[derive(Debug)]
struct Shared {
    cfg: PipeCfg,
    dirs: [DirState; 2],
    broken: Broken,
    fault_fired_at: Option<Instant>,
    /// endpoint halves not yet dropped
    endpoints_alive: u8,
}

impl Shared {
    fn wake_all(&mut self) {
        for d in self.dirs.iter_mut() {
            if let Some(w) = d.reader_waker.take() {
                w.wake();
            }
            if let Some(w) = d.writer_waker.take() {
                w.wake();
            }
        }
    }
    fn check_stall_over(&mut self) {
        if let Broken::Stalled(t) = self.broken {
            if Instant::now() >= t {
                self.broken = Broken::Eof;
            }
        }
    }
}

/// handle for inspecting the pipe from the harness
#[derive(Clone, Debug)]
pub struct PipeCtl {
    shared: Arc<Mutex<Shared>>,
}

impl PipeCtl {
    /// all bytes written so far in a direction (0 = A->B, 1 = B->A)
    pub fn bytes(&self, dir: usize) -> Vec<u8> {
        let s = self.shared.lock().unwrap();
        s.dirs[dir].tap.iter().flat_map(|(_, b)| b.iter().copied()).collect()
    }
    /// tap with timestamps
    pub fn tap(&self, dir: usize) -> Vec<(Instant, Vec<u8>)> {
        self.shared.lock().unwrap().dirs[dir].tap.clone()
    }
    pub fn written(&self, dir: usize) -> usize {
        self.shared.lock().unwrap().dirs[dir].written
    }
    pub fn fault_fired(&self) -> bool {
        self.shared.lock().unwrap().fault_fired_at.is_some()
    }
    /// cut the transport now
    pub fn cut(&self, kind: FaultKind) {
        let mut s = self.shared.lock().unwrap();
        fire(&mut s, kind);
    }
    /// are both endpoint halves released (dropped)?
    pub fn both_released(&self) -> bool {
        self.shared.lock().unwrap().endpoints_alive == 0
    }
    /// install a fault plan after construction (offsets are absolute per direction)
    pub fn set_fault(&self, f: Option<Fault>) {
        self.shared.lock().unwrap().cfg.fault = f;
    }
}

fn fire(s: &mut Shared, kind: FaultKind) {
    if s.fault_fired_at.is_some() {
        return;
    }
    s.fault_fired_at = Some(Instant::now());
    s.broken = match kind {
        FaultKind::Eof => Broken::Eof,
        FaultKind::Reset => Broken::Reset,
        FaultKind::StallThenEof(ms) => Broken::Stalled(Instant::now() + std::time::Duration::from_millis(ms as u64)),
    };
    if let Broken::Stalled(t) = s.broken {
        // make sure parked tasks are polled again when the stall is over
        let wakers: Vec<Waker> = s.dirs.iter_mut().flat_map(|d| [d.reader_waker.take(), d.writer_waker.take()]).flatten().collect();
        if let Ok(h) = tokio::runtime::Handle::try_current() {
            h.spawn(async move {
                tokio::time::sleep_until(t).await;
                for w in wakers {
                    w.wake();
                }
            });
        }
    } else {
        s.wake_all();
    }
}

pub struct Endpoint {
    shared: Arc<Mutex<Shared>>,
    /// 0 = side A (writes dir 0, reads dir 1); 1 = side B
    side: usize,
    /// timer that wakes this endpoint's task when a stall fault is over
    stall_sleep: Option<Pin<Box<tokio::time::Sleep>>>,
}

impl Endpoint {
    /// while the transport is stalled: Pending (with a timer registered) until the stall is over
    fn poll_stall(&mut self, cx: &mut Context<'_>) -> Poll<()> {
        let until = {
            let mut s = self.shared.lock().unwrap();
            s.check_stall_over();
            match s.broken {
                Broken::Stalled(t) => t,
                _ => return Poll::Ready(()),
            }
        };
        let sl = self.stall_sleep.get_or_insert_with(|| Box::pin(tokio::time::sleep_until(until)));
        match sl.as_mut().poll(cx) {
            Poll::Ready(()) => {
                self.shared.lock().unwrap().check_stall_over();
                Poll::Ready(())
            }
            Poll::Pending => Poll::Pending,
        }
    }
}

impl std::fmt::Debug for Endpoint {
    fn fmt(&self, f: &mut std::fmt::Formatter<'_>) -> std::fmt::Result {
        write!(f, "simnet::Endpoint({})", if self.side == 0 { "A" } else { "B" })
    }
}

thread_local! {
    /// the most recently created pipe on this thread (for diagnostics after a hang)
    pub static LAST_CTL: std::cell::RefCell<Option<PipeCtl>> = const { std::cell::RefCell::new(None) };
}

pub fn pipe(cfg: PipeCfg) -> (Endpoint, Endpoint, PipeCtl) {
    let mk = || DirState {
        buf: VecDeque::new(),
        closed: false,
        reader_gone: false,
        reader_waker: None,
        writer_waker: None,
        written: 0,
        wchunk_i: 0,
        rchunk_i: 0,
        stall_i: 0,
        stall_left: u8::MAX,
        tap: Vec::new(),
    };
    let shared = Arc::new(Mutex::new(Shared { cfg, dirs: [mk(), mk()], broken: Broken::No, fault_fired_at: None, endpoints_alive: 2 }));
    let ctl = PipeCtl { shared: shared.clone() };
    LAST_CTL.with(|l| *l.borrow_mut() = Some(ctl.clone()));
    (Endpoint { shared: shared.clone(), side: 0, stall_sleep: None }, Endpoint { shared: shared.clone(), side: 1, stall_sleep: None }, ctl)
}

/// one line per frame seen so far in both directions (diagnostics)
pub fn describe_last_wire() -> String {
    let ctl = match LAST_CTL.with(|l| l.borrow().clone()) {
        Some(c) => c,
        None => return "no pipe".into(),
    };
    let mut out = LAST_END.with(|l| format!(" [{}]", l.borrow()));
    for dir in 0..2 {
        let bytes = ctl.bytes(dir);
        out.push_str(&format!("\n  dir {} ({} bytes): ", if dir == 0 { "A->B" } else { "B->A" }, bytes.len()));
        match crate::rframe::parse_stream(&bytes) {
            Ok((items, used)) => {
                for it in items {
                    match it {
                        crate::rframe::Item::Header(h) => out.push_str(&format!("HDR{:?} ", h[0])),
                        crate::rframe::Item::Frame(f) => {
                            let fl = f.fields();
                            let brief: Vec<String> = fl.iter().take(8).map(|v| match v {
                                crate::refcodec::RValue::Null => "-".to_string(),
                                crate::refcodec::RValue::Uint(x) => x.to_string(),
                                crate::refcodec::RValue::Bool(b) => if *b { "T".into() } else { "F".into() },
                                crate::refcodec::RValue::Ushort(x) => x.to_string(),
                                _ => "*".to_string(),
                            }).collect();
                            out.push_str(&format!("{}@{}[{}]+{} ", f.name(), f.channel, brief.join(","), f.payload.len()));
                        }
                    }
                }
                if used != bytes.len() {
                    out.push_str(&format!("(+{} bytes partial)", bytes.len() - used));
                }
            }
            Err(e) => {
                out.push_str(&format!("unparsable: {e}; frame walk: "));
                // lenient walk by the size fields: channel and descriptor code of each frame
                let mut pos = 0usize;
                while pos + 8 <= bytes.len() {
                    if &bytes[pos..pos + 4] == b"AMQP" {
                        out.push_str("HDR ");
                        pos += 8;
                        continue;
                    }
                    let size = u32::from_be_bytes([bytes[pos], bytes[pos + 1], bytes[pos + 2], bytes[pos + 3]]) as usize;
                    if size < 8 || pos + size > bytes.len() {
                        out.push_str(&format!("(stops at {pos}, size {size})"));
                        break;
                    }
                    let ch = u16::from_be_bytes([bytes[pos + 6], bytes[pos + 7]]);
                    let body = &bytes[pos + (bytes[pos + 4] as usize * 4).min(size)..pos + size];
                    let code = if body.len() >= 3 && body[0] == 0 { format!("{:02x}", body[2]) } else { "--".into() };
                    out.push_str(&format!("#{code}@{ch}({size}) "));
                    pos += size;
                }
            }
        }
    }
    out
}

fn next_chunk(v: &[u16], i: &mut usize) -> usize {
    if v.is_empty() {
        return usize::MAX;
    }
    let c = v[*i % v.len()] as usize;
    *i += 1;
    if c == 0 {
        usize::MAX
    } else {
        c
    }
}

impl AsyncRead for Endpoint {
    fn poll_read(mut self: Pin<&mut Self>, cx: &mut Context<'_>, out: &mut ReadBuf<'_>) -> Poll<io::Result<()>> {
        let rdir = 1 - self.side;
        if self.as_mut().get_mut().poll_stall(cx).is_pending() {
            return Poll::Pending;
        }
        let mut s = self.shared.lock().unwrap();
        s.check_stall_over();
        match s.broken {
            Broken::Reset => return Poll::Ready(Err(io::Error::new(io::ErrorKind::ConnectionReset, "simnet reset"))),
            Broken::Stalled(_) => {
                s.dirs[rdir].reader_waker = Some(cx.waker().clone());
                return Poll::Pending;
            }
            _ => {}
        }
        // stall schedule: before data is handed out, return Pending (self-waking) n times
        {
            let stalls = s.cfg.stalls[rdir].clone();
            let d = &mut s.dirs[rdir];
            if !stalls.is_empty() && !d.buf.is_empty() {
                if d.stall_left == u8::MAX {
                    // no stall in progress: start one
                    d.stall_left = stalls[d.stall_i % stalls.len()];
                    d.stall_i += 1;
                }
                if d.stall_left > 0 {
                    d.stall_left -= 1;
                    cx.waker().wake_by_ref();
                    return Poll::Pending;
                }
                // stall served: deliver now and re-arm for the next read
                d.stall_left = u8::MAX;
            }
        }
        let chunks = s.cfg.chunks[rdir].clone();
        let broken = s.broken;
        let d = &mut s.dirs[rdir];
        if d.buf.is_empty() {
            if d.closed || broken == Broken::Eof {
                return Poll::Ready(Ok(())); // EOF
            }
            d.reader_waker = Some(cx.waker().clone());
            return Poll::Pending;
        }
        let n = out.remaining().min(d.buf.len()).min(next_chunk(&chunks, &mut d.rchunk_i));
        for _ in 0..n {
            let b = d.buf.pop_front().unwrap();
            out.put_slice(&[b]);
        }
        if let Some(w) = d.writer_waker.take() {
            w.wake();
        }
        Poll::Ready(Ok(()))
    }
}

impl AsyncWrite for Endpoint {
    fn poll_write(mut self: Pin<&mut Self>, cx: &mut Context<'_>, data: &[u8]) -> Poll<io::Result<usize>> {
        let wdir = self.side;
        if self.as_mut().get_mut().poll_stall(cx).is_pending() {
            return Poll::Pending;
        }
        let mut s = self.shared.lock().unwrap();
        s.check_stall_over();
        match s.broken {
            Broken::Reset => return Poll::Ready(Err(io::Error::new(io::ErrorKind::ConnectionReset, "simnet reset"))),
            Broken::Eof => return Poll::Ready(Err(io::Error::new(io::ErrorKind::BrokenPipe, "simnet closed"))),
            Broken::Stalled(_) => {
                s.dirs[wdir].writer_waker = Some(cx.waker().clone());
                return Poll::Pending;
            }
            Broken::No => {}
        }
        if data.is_empty() {
            return Poll::Ready(Ok(0));
        }
        let cap = s.cfg.caps.map(|c| c[wdir]).unwrap_or(s.cfg.cap).max(1);
        let chunks = s.cfg.chunks[wdir].clone();
        let fault = s.cfg.fault;
        let d = &mut s.dirs[wdir];
        if d.reader_gone {
            return Poll::Ready(Err(io::Error::new(io::ErrorKind::BrokenPipe, "simnet peer endpoint dropped")));
        }
        if d.buf.len() >= cap {
            d.writer_waker = Some(cx.waker().clone());
            return Poll::Pending;
        }
        let mut n = data.len().min(cap - d.buf.len()).min(next_chunk(&chunks, &mut d.wchunk_i));
        let mut fire_after = None;
        if let Some(f) = fault {
            if f.dir as usize == wdir {
                if d.written >= f.at {
                    // fault point already reached (at == 0 or exact boundary)
                    fire_after = Some(f.kind);
                    n = 0;
                } else if d.written + n >= f.at {
                    n = f.at - d.written;
                    fire_after = Some(f.kind);
                }
            }
        }
        if n > 0 {
            d.buf.extend(&data[..n]);
            d.written += n;
            d.tap.push((Instant::now(), data[..n].to_vec()));
            if let Some(w) = d.reader_waker.take() {
                w.wake();
            }
        }
        if let Some(kind) = fire_after {
            fire(&mut s, kind);
            if n == 0 {
                // re-enter with the broken state
                drop(s);
                return self.poll_write(cx, data);
            }
        }
        Poll::Ready(Ok(n))
    }

    fn poll_flush(self: Pin<&mut Self>, _cx: &mut Context<'_>) -> Poll<io::Result<()>> {
        Poll::Ready(Ok(()))
    }

    fn poll_shutdown(self: Pin<&mut Self>, _cx: &mut Context<'_>) -> Poll<io::Result<()>> {
        let mut s = self.shared.lock().unwrap();
        let d = &mut s.dirs[self.side];
        d.closed = true;
        if let Some(w) = d.reader_waker.take() {
            w.wake();
        }
        if s.cfg.shutdown_err[self.side] {
            return Poll::Ready(Err(io::Error::new(io::ErrorKind::NotConnected, "simnet: shutdown after the peer went away")));
        }
        Poll::Ready(Ok(()))
    }
}

impl Drop for Endpoint {
    fn drop(&mut self) {
        if let Ok(mut s) = self.shared.lock() {
            s.dirs[self.side].closed = true;
            // the peer's writes now go nowhere: treat as closed read side too
            let other = 1 - self.side;
            s.dirs[other].buf.clear();
            s.dirs[other].reader_gone = true;
            s.endpoints_alive = s.endpoints_alive.saturating_sub(1);
            s.wake_all();
        }
    }
}

// ---------------------------------------------------------------------------
// runtime helpers: deterministic single-threaded runtime on the paused clock

pub const WATCHDOG_SECS: u64 = 3600;

#[derive(Debug)]
pub enum CaseEnd<T> {
    Done(T),
    /// the virtual-time watchdog fired: the system was wedged (nothing could make progress)
    Hang,
}

/// Run a case future to completion on a fresh current-thread runtime with the clock paused
/// and a seeded `select!` RNG. A wedge is reported as `Hang` after `WATCHDOG_SECS` of
/// *virtual* time, i.e. as soon as every task is idle.
thread_local! {
    static POLLS: std::cell::Cell<u64> = const { std::cell::Cell::new(0) };
    static SPUN: std::cell::Cell<bool> = const { std::cell::Cell::new(false) };
    static LAST_POLLS: std::cell::Cell<u64> = const { std::cell::Cell::new(0) };
}

/// Task polls allowed per case. The longest legitimate cases (64 KiB messages over a 1-byte-chunk
/// transport) need a few hundred thousand; a task that is runnable forever (busy loop through the
/// scheduler) never lets the paused clock advance, so the virtual-time watchdog cannot see it — the
/// poll count does, exactly.
pub const POLL_BUDGET: u64 = 20_000_000;

/// task polls used by the last `run_case` on this thread
pub fn last_polls() -> u64 {
    LAST_POLLS.with(|c| c.get())
}
pub fn polls_now() -> u64 {
    POLLS.with(|c| c.get())
}

pub fn run_case<F, T>(seed: u64, fut: F) -> (CaseEnd<T>, usize)
where
    F: std::future::Future<Output = T>,
{
    crate::driver::tick();
    crate::driver::note_worker_thread();
    crate::driver::poll_end();
    POLLS.with(|c| c.set(0));
    SPUN.with(|c| c.set(false));
    let rt = tokio::runtime::Builder::new_current_thread()
        .enable_time()
        .start_paused(true)
        .rng_seed(tokio::runtime::RngSeed::from_bytes(&seed.to_le_bytes()))
        .on_after_task_poll(|_| crate::driver::poll_end())
        .on_before_task_poll(|_| {
            crate::driver::poll_begin();
            let n = POLLS.with(|c| {
                let n = c.get() + 1;
                c.set(n);
                n
            });
            if n == POLL_BUDGET {
                SPUN.with(|c| c.set(true));
                panic!("verif: poll budget exceeded");
            }
        })
        .build()
        .expect("runtime");
    let r = std::panic::catch_unwind(std::panic::AssertUnwindSafe(|| rt.block_on(async { tokio::time::timeout(std::time::Duration::from_secs(WATCHDOG_SECS), fut).await })));
    LAST_POLLS.with(|c| c.set(POLLS.with(|p| p.get())));
    let r = match r {
        Ok(r) => r,
        Err(p) => {
            if SPUN.with(|c| c.get()) {
                // our own budget panic: not a panic of the code under test
                let _ = crate::driver::take_panics();
                LAST_END.with(|l| *l.borrow_mut() = format!("SPIN: a task was polled {POLL_BUDGET} times without the case finishing (busy loop through the scheduler; the virtual clock cannot advance)"));
                let alive = rt.metrics().num_alive_tasks();
                // dropping a runtime whose task spins is fine: tasks are dropped, not polled
                drop(rt);
                return (CaseEnd::Hang, alive);
            }
            std::panic::resume_unwind(p)
        }
    };
    let alive = rt.metrics().num_alive_tasks();
    drop(rt);
    match r {
        Ok(v) => (CaseEnd::Done(v), alive),
        Err(_) => {
            LAST_END.with(|l| *l.borrow_mut() = "virtual-time watchdog".to_string());
            (CaseEnd::Hang, alive)
        }
    }
}

thread_local! {
    static LAST_END: std::cell::RefCell<String> = const { std::cell::RefCell::new(String::new()) };
}

/// wait until every task is idle (exact under the paused clock)
pub async fn settle() {
    tokio::time::sleep(std::time::Duration::from_millis(1)).await;
}

/// proptest strategy for pipe schedules
pub mod strat {
    use super::*;
    use proptest::collection::vec;
    use proptest::prelude::*;

    pub fn chunks() -> BoxedStrategy<Vec<u16>> {
        prop_oneof![
            3 => Just(vec![]),
            1 => Just(vec![1]),
            1 => Just(vec![7]),
            1 => Just(vec![3, 1, 8, 5]),
            2 => vec(prop_oneof![1u16..16, 16u16..600, Just(0u16)], 1..6),
        ]
        .boxed()
    }
    pub fn stalls() -> BoxedStrategy<Vec<u8>> {
        prop_oneof![3 => Just(vec![]), 2 => vec(0u8..3, 1..5)].boxed()
    }
    pub fn pipe_cfg() -> BoxedStrategy<PipeCfg> {
        (chunks(), chunks(), stalls(), stalls(), prop_oneof![Just(1usize << 20), Just(64usize), Just(97), Just(1), Just(4096)])
            .prop_map(|(c0, c1, s0, s1, cap)| PipeCfg { chunks: [c0, c1], stalls: [s0, s1], cap, fault: None, shutdown_err: [false, false], caps: None })
            .boxed()
    }
}
