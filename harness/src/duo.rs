//! Real client <-> real listener over the harness transport, built from a generated config.
use crate::simnet::{self, Endpoint, PipeCfg, PipeCtl};
use fe2o3_amqp::acceptor::{ConnectionAcceptor, LinkAcceptor, LinkEndpoint, ListenerConnectionHandle, ListenerSessionHandle, SessionAcceptor};
use fe2o3_amqp::connection::ConnectionHandle;
use fe2o3_amqp::link::receiver::CreditMode;
use fe2o3_amqp::session::SessionHandle;
use fe2o3_amqp::types::definitions::{ReceiverSettleMode, SenderSettleMode};
use fe2o3_amqp::{Connection, Receiver, Sender, Session};
use proptest::prelude::*;
use serde::{Deserialize, Serialize};

#[derive(Clone, Debug, PartialEq, Eq, Serialize, Deserialize, Hash)]
pub struct DuoCfg {
    /// [client, listener]
    pub max_frame_size: [u32; 2],
    pub conn_buf: [usize; 2],
    pub sess_buf: [usize; 2],
    pub incoming_window: [u32; 2],
    pub outgoing_window: [u32; 2],
    pub next_outgoing_id: [u32; 2],
    pub pipe: PipeCfg,
    pub tokio_seed: u64,
}

impl Default for DuoCfg {
    fn default() -> Self {
        DuoCfg {
            max_frame_size: [4096, 4096],
            conn_buf: [2048, 2048],
            sess_buf: [2048, 2048],
            incoming_window: [2048, 2048],
            outgoing_window: [2048, 2048],
            next_outgoing_id: [0, 0],
            pipe: PipeCfg::default(),
            tokio_seed: 0,
        }
    }
}

pub fn mfs() -> BoxedStrategy<u32> {
    prop_oneof![
        3 => Just(512u32),
        1 => Just(513u32),
        1 => Just(1024u32),
        1 => Just(4096u32),
        1 => Just(65536u32),
        2 => (9.0f64..16.0).prop_map(|e| 2f64.powf(e) as u32),
    ]
    .boxed()
}

pub fn window() -> BoxedStrategy<u32> {
    prop_oneof![Just(1u32), Just(2), Just(3), Just(5), Just(16), Just(100), Just(5000)].boxed()
}

pub fn bufsize() -> BoxedStrategy<usize> {
    prop_oneof![Just(1usize), Just(2), Just(8), Just(2048)].boxed()
}

pub fn next_id() -> BoxedStrategy<u32> {
    prop_oneof![
        4 => Just(0u32),
        1 => Just(1u32),
        1 => Just(u32::MAX),
        1 => Just(u32::MAX - 3),
        1 => Just(1u32 << 31),
        1 => Just((1u32 << 31) - 2),
        1 => any::<u32>(),
    ]
    .boxed()
}

pub fn duo_cfg() -> BoxedStrategy<DuoCfg> {
    (
        (mfs(), mfs()),
        (bufsize(), bufsize(), bufsize(), bufsize()),
        (window(), window(), window(), window()),
        (next_id(), next_id()),
        simnet::strat::pipe_cfg(),
        any::<u64>(),
    )
        .prop_map(|((m0, m1), (c0, c1, s0, s1), (i0, i1, o0, o1), (n0, n1), pipe, tokio_seed)| DuoCfg {
            max_frame_size: [m0, m1],
            conn_buf: [c0, c1],
            sess_buf: [s0, s1],
            incoming_window: [i0, i1],
            outgoing_window: [o0, o1],
            next_outgoing_id: [n0, n1],
            pipe,
            tokio_seed,
        })
        .boxed()
}

pub struct Duo {
    pub client: ConnectionHandle<()>,
    pub listener: ListenerConnectionHandle,
    pub ctl: PipeCtl,
}

pub fn acceptor(cfg: &DuoCfg) -> ConnectionAcceptor<(), ()> {
    ConnectionAcceptor::builder()
        .container_id("verif-listener")
        .max_frame_size(cfg.max_frame_size[1])
        .buffer_size(cfg.conn_buf[1])
        .build()
}

pub async fn open_client(cfg: &DuoCfg, io: Endpoint) -> Result<ConnectionHandle<()>, String> {
    Connection::builder()
        .container_id("verif-client")
        .max_frame_size(cfg.max_frame_size[0])
        .buffer_size(cfg.conn_buf[0])
        .open_with_stream(io)
        .await
        .map_err(|e| format!("client open failed: {e:?}"))
}

/// open both ends concurrently
pub async fn connect(cfg: &DuoCfg) -> Result<Duo, String> {
    let (a, b, ctl) = simnet::pipe(cfg.pipe.clone());
    let acc = acceptor(cfg);
    let (c, l) = tokio::join!(open_client(cfg, a), acc.accept(b));
    let client = c?;
    let listener = l.map_err(|e| format!("listener accept failed: {e:?}"))?;
    Ok(Duo { client, listener, ctl })
}

pub async fn begin_pair(cfg: &DuoCfg, duo: &mut Duo) -> Result<(SessionHandle<()>, ListenerSessionHandle), String> {
    let sa = SessionAcceptor::builder()
        .incoming_window(cfg.incoming_window[1])
        .outgoing_window(cfg.outgoing_window[1])
        .next_outgoing_id(cfg.next_outgoing_id[1])
        .buffer_size(cfg.sess_buf[1])
        .build();
    let cb = Session::builder()
        .incoming_window(cfg.incoming_window[0])
        .outgoing_window(cfg.outgoing_window[0])
        .next_outgoing_id(cfg.next_outgoing_id[0])
        .buffer_size(cfg.sess_buf[0]);
    let (c, l) = tokio::join!(cb.begin(&mut duo.client), sa.accept(&mut duo.listener));
    Ok((c.map_err(|e| format!("client begin failed: {e:?}"))?, l.map_err(|e| format!("listener session accept failed: {e:?}"))?))
}

#[derive(Clone, Debug, PartialEq, Eq, Serialize, Deserialize, Hash)]
pub enum Credit {
    Auto(u32),
    /// successive grants issued whenever the previous grant is used up
    Manual(Vec<u32>),
}

#[derive(Clone, Debug, PartialEq, Eq, Serialize, Deserialize, Hash)]
pub struct LinkCfg {
    /// 0: client sends, listener receives; 1: listener sends, client receives
    pub dir: u8,
    /// which side initiates the attach: 0 client, 1 listener
    pub initiator: u8,
    /// 0 unsettled, 1 settled, 2 mixed
    pub snd_settle: u8,
    /// 0 first, 1 second
    pub rcv_settle: u8,
    pub credit: Credit,
    pub auto_accept: bool,
    pub link_buf: usize,
    pub max_message_size: Option<u64>,
}

pub fn snd_mode(x: u8) -> SenderSettleMode {
    match x {
        0 => SenderSettleMode::Unsettled,
        1 => SenderSettleMode::Settled,
        _ => SenderSettleMode::Mixed,
    }
}
pub fn rcv_mode(x: u8) -> ReceiverSettleMode {
    match x {
        0 => ReceiverSettleMode::First,
        _ => ReceiverSettleMode::Second,
    }
}

pub fn credit() -> BoxedStrategy<Credit> {
    prop_oneof![
        4 => prop_oneof![Just(1u32), Just(2), Just(3), Just(7), Just(50), Just(200)].prop_map(Credit::Auto),
        2 => proptest::collection::vec(1u32..6, 1..5).prop_map(Credit::Manual),
    ]
    .boxed()
}

pub fn link_cfg() -> BoxedStrategy<LinkCfg> {
    (0u8..2, 0u8..2, 0u8..3, 0u8..2, credit(), any::<bool>(), bufsize())
        .prop_map(|(dir, initiator, snd_settle, rcv_settle, credit, auto_accept, link_buf)| LinkCfg {
            dir,
            initiator,
            snd_settle,
            rcv_settle,
            credit,
            auto_accept,
            link_buf,
            max_message_size: None,
        })
        .boxed()
}

/// attach one link between the two sessions; returns (sender, receiver) whichever side they live on
pub async fn attach_pair(name: &str, lc: &LinkCfg, cs: &mut SessionHandle<()>, ls: &mut ListenerSessionHandle) -> Result<(Sender, Receiver), String> {
    let la = LinkAcceptor::builder()
        .supported_sender_settle_modes(fe2o3_amqp::acceptor::SupportedSenderSettleModes::All)
        .supported_receiver_settle_modes(fe2o3_amqp::acceptor::SupportedReceiverSettleModes::Both)
        .build();
    let credit_mode = match &lc.credit {
        Credit::Auto(n) => CreditMode::Auto(*n),
        Credit::Manual(_) => CreditMode::Manual,
    };
    // the receiver lives on the listener iff dir == 0
    let receiver_on_listener = lc.dir == 0;
    let initiator_is_listener = lc.initiator == 1;
    // what does the initiating side create?
    let initiator_creates_sender = receiver_on_listener != initiator_is_listener;
    macro_rules! initiate {
        ($sess:expr, $other:expr, $accept:expr) => {{
            if initiator_creates_sender {
                let mut b = Sender::builder().name(name).target("q").sender_settle_mode(snd_mode(lc.snd_settle)).receiver_settle_mode(rcv_mode(lc.rcv_settle));
                b.buffer_size = lc.link_buf.max(1);
                if let Some(m) = lc.max_message_size {
                    b = b.max_message_size(m);
                }
                let (s, r) = tokio::join!(b.attach($sess), $accept);
                let s = s.map_err(|e| format!("sender attach failed: {e:?}"))?;
                let r = match r.map_err(|e| format!("link accept failed: {e:?}"))? {
                    LinkEndpoint::Receiver(mut r) => {
                        r.set_auto_accept(lc.auto_accept);
                        r.set_credit_mode(credit_mode.clone());
                        r
                    }
                    LinkEndpoint::Sender(_) => return Err("expected a receiver link endpoint".into()),
                };
                (s, r)
            } else {
                let mut b = Receiver::builder()
                    .name(name)
                    .source("q")
                    .sender_settle_mode(snd_mode(lc.snd_settle))
                    .receiver_settle_mode(rcv_mode(lc.rcv_settle))
                    .credit_mode(credit_mode.clone())
                    .auto_accept(lc.auto_accept);
                b.buffer_size = lc.link_buf.max(1);
                let (r, s) = tokio::join!(b.attach($sess), $accept);
                let r = r.map_err(|e| format!("receiver attach failed: {e:?}"))?;
                let s = match s.map_err(|e| format!("link accept failed: {e:?}"))? {
                    LinkEndpoint::Sender(s) => s,
                    LinkEndpoint::Receiver(_) => return Err("expected a sender link endpoint".into()),
                };
                (s, r)
            }
        }};
    }
    let pair = if initiator_is_listener {
        // the client has no link acceptor: the listener can only initiate towards a listener-style
        // session. Fall back to client initiation (the attach direction is then exercised by C11/C13).
        initiate!(cs, ls, la.accept(ls))
    } else {
        initiate!(cs, ls, la.accept(ls))
    };
    Ok(pair)
}
