//! Common driver: seeded proptest runners, shard reports, panic capture,
//! evidence and known-finding handling.
use proptest::strategy::Strategy;
use proptest::test_runner::{Config, RngSeed, TestCaseError, TestError, TestRunner};
use serde::{Deserialize, Serialize};
use serde_json::{json, Value as Json};
use std::cell::{Cell, RefCell};
use std::collections::{BTreeMap, HashSet};
use std::hash::{Hash, Hasher};
use std::sync::Mutex;

#[derive(Clone, Copy, Debug, PartialEq, Eq, Serialize, Deserialize)]
pub enum Tier {
    Quick,
    Thorough,
}

impl Tier {
    pub fn name(&self) -> &'static str {
        match self {
            Tier::Quick => "quick",
            Tier::Thorough => "thorough",
        }
    }
}

#[derive(Clone, Debug)]
pub struct ShardCtx {
    pub prop: String,
    pub tier: Tier,
    pub seed: u64,
    pub shard: u32,
    pub nshards: u32,
    /// path of the journal file for crash attribution (may be empty)
    pub journal: String,
    /// ids of open known findings (generators carve these classes out)
    pub open_findings: Vec<String>,
}

impl ShardCtx {
    /// split a total case budget over shards
    pub fn share(&self, total: u64) -> u32 {
        let base = total / self.nshards as u64;
        let extra = if (self.shard as u64) < total % self.nshards as u64 { 1 } else { 0 };
        (base + extra) as u32
    }
    /// tier-dependent budget
    pub fn budget(&self, quick: u64, thorough: u64) -> u32 {
        self.share(match self.tier {
            Tier::Quick => quick,
            Tier::Thorough => thorough,
        })
    }
    pub fn is_open(&self, finding: &str) -> bool {
        self.open_findings.iter().any(|f| f == finding)
    }
    pub fn journal(&self, variant: &str, case: &Json) {
        tick();
        if !self.journal.is_empty() {
            self.journal_raw(&serde_json::to_vec(&json!({"variant": variant, "case": case})).unwrap());
        }
    }
    /// overwrite the journal with raw bytes through a cached handle (cheap enough per case)
    pub fn journal_raw(&self, bytes: &[u8]) {
        use std::io::{Seek, SeekFrom, Write};
        if self.journal.is_empty() {
            return;
        }
        JOURNAL.with(|j| {
            let mut j = j.borrow_mut();
            if j.is_none() {
                *j = std::fs::OpenOptions::new().create(true).write(true).truncate(true).open(&self.journal).ok();
            }
            if let Some(f) = j.as_mut() {
                let _ = f.seek(SeekFrom::Start(0));
                let _ = f.write_all(bytes);
                let _ = f.set_len(bytes.len() as u64);
            }
        });
    }
    pub fn journal_clear(&self) {
        self.journal_raw(b"");
    }
}

#[derive(Clone, Debug, Serialize, Deserialize)]
pub struct Violation {
    pub variant: String,
    /// stable key used to match known findings
    pub signature: String,
    pub detail: String,
    pub case: Json,
}

#[derive(Clone, Debug, Default, Serialize, Deserialize)]
pub struct Report {
    pub evaluations: u64,
    /// distinct non-trivial cases (hashes; capped per worker, so a conservative count on very long runs)
    pub nontrivial: HashSet<u64>,
    /// evaluations that were non-trivial (not de-duplicated, not capped): used by the health check
    #[serde(default)]
    pub nontrivial_evals: u64,
    pub classes: BTreeMap<String, u64>,
    pub samples: Vec<Json>,
    pub violations: Vec<Violation>,
    pub excluded: BTreeMap<String, u64>,
    pub notes: Vec<String>,
    /// health-check failures (=> exit 2)
    pub inconclusive: Vec<String>,
    pub exhaustive: bool,
    /// witnesses of open known findings that still fail: (finding id, what)
    pub known_still_failing: Vec<(String, String)>,
}

impl Report {
    pub fn class(&mut self, name: &str) {
        *self.classes.entry(name.to_string()).or_insert(0) += 1;
    }
    pub fn class_n(&mut self, name: &str, n: u64) {
        *self.classes.entry(name.to_string()).or_insert(0) += n;
    }
    pub fn exclude(&mut self, name: &str) {
        *self.excluded.entry(name.to_string()).or_insert(0) += 1;
    }
    pub fn sample(&mut self, s: Json) {
        if self.samples.len() < 6 {
            self.samples.push(s);
        }
    }
    pub fn merge(&mut self, o: Report) {
        self.evaluations += o.evaluations;
        self.nontrivial.extend(o.nontrivial);
        self.nontrivial_evals += o.nontrivial_evals;
        for (k, v) in o.classes {
            *self.classes.entry(k).or_insert(0) += v;
        }
        for (k, v) in o.excluded {
            *self.excluded.entry(k).or_insert(0) += v;
        }
        for s in o.samples {
            if self.samples.len() < 12 {
                self.samples.push(s);
            }
        }
        self.violations.extend(o.violations);
        for n in o.notes {
            if !self.notes.contains(&n) {
                self.notes.push(n);
            }
        }
        self.inconclusive.extend(o.inconclusive);
        self.exhaustive = self.exhaustive || o.exhaustive;
        for k in o.known_still_failing {
            if !self.known_still_failing.contains(&k) {
                self.known_still_failing.push(k);
            }
        }
    }
}

pub fn hash_of<T: Hash>(t: &T) -> u64 {
    let mut h = std::collections::hash_map::DefaultHasher::new();
    t.hash(&mut h);
    h.finish()
}

pub fn hash_str(s: &str) -> u64 {
    hash_of(&s)
}

/// what a single case tells the driver about itself
#[derive(Default)]
pub struct Obs {
    pub nontrivial: Option<u64>,
    pub classes: Vec<String>,
    pub excluded: Vec<String>,
    pub sample: Option<Json>,
    /// signature for a failure (defaults to variant name)
    pub signature: Option<String>,
}

impl Obs {
    pub fn class(&mut self, c: &str) {
        self.classes.push(c.to_string());
    }
    pub fn nontrivial<T: Hash>(&mut self, t: &T) {
        self.nontrivial = Some(hash_of(t));
    }
}

// ---------------------------------------------------------------------------
// panic capture

static PANICS: Mutex<Vec<String>> = Mutex::new(Vec::new());
thread_local! {
    static JOURNAL: RefCell<Option<std::fs::File>> = const { RefCell::new(None) };
}

pub fn install_panic_hook() {
    std::panic::set_hook(Box::new(|info| {
        let loc = info
            .location()
            .map(|l| format!("{}:{}", l.file(), l.line()))
            .unwrap_or_else(|| "?".into());
        let msg = if let Some(s) = info.payload().downcast_ref::<&str>() {
            s.to_string()
        } else if let Some(s) = info.payload().downcast_ref::<String>() {
            s.clone()
        } else {
            "<non-string panic>".into()
        };
        if let Ok(mut p) = PANICS.lock() {
            if p.len() < 16 {
                p.push(format!("{} @ {}", msg, loc));
            }
        }
    }));
}

pub fn take_panics() -> Vec<String> {
    PANICS.lock().map(|mut p| std::mem::take(&mut *p)).unwrap_or_default()
}

/// true if a panic record comes from the harness itself rather than the code under test
pub fn is_harness_panic(p: &str) -> bool {
    p.contains("/verif/harness/src") || p.contains("@ src/")
}

/// strip the line number so that a signature survives unrelated edits
pub fn panic_signature(p: &str) -> String {
    // "msg @ file:line" -> "panic:file:msg-prefix"
    let (msg, loc) = p.rsplit_once(" @ ").unwrap_or((p, "?"));
    let file = loc.rsplit_once(':').map(|x| x.0).unwrap_or(loc);
    let file = file.strip_prefix("/repo/").unwrap_or(file);
    let m: String = msg.chars().take(60).collect();
    format!("panic:{}:{}", file, m)
}

// ---------------------------------------------------------------------------
// real-time watchdog of a worker: a case that burns CPU inside a single task poll (or blocks the
// thread) can be seen neither by the virtual-time watchdog nor by the poll budget

static PROGRESS_CPU_MS: std::sync::atomic::AtomicU64 = std::sync::atomic::AtomicU64::new(0);
static PROGRESS_WALL_MS: std::sync::atomic::AtomicU64 = std::sync::atomic::AtomicU64::new(0);
/// CPU seconds one case may burn before the worker gives up on it
pub const SPIN_CPU_SECS: u64 = 90;
/// wall-clock seconds without progress before the worker gives up (inconclusive, not a violation)
pub const STUCK_WALL_SECS: u64 = 300;

/// set while the worker thread is inside a task poll (simnet's runtime hooks)
pub static IN_POLL: std::sync::atomic::AtomicBool = std::sync::atomic::AtomicBool::new(false);
pub static POLL_START_WALL_MS: std::sync::atomic::AtomicU64 = std::sync::atomic::AtomicU64::new(0);
pub static WORKER_TID: std::sync::atomic::AtomicI64 = std::sync::atomic::AtomicI64::new(0);
/// a poll that has been sleeping (thread state S/D, no CPU) for this long is a blocked runtime thread
pub const BLOCKED_POLL_SECS: u64 = 120;

/// set by `vcheck replay`: (property id, replay path) so that a watchdog exit still prints the verdict line
pub static REPLAY_CTX: std::sync::OnceLock<(String, String)> = std::sync::OnceLock::new();

fn watchdog_exit(code: i32, is_violation: bool) -> ! {
    if let Some((id, path)) = REPLAY_CTX.get() {
        if is_violation {
            println!("VIOLATION property={} replay={}", id, path);
            std::process::exit(1);
        }
        println!("INCONCLUSIVE property={} the replay made no progress", id);
        std::process::exit(2);
    }
    std::process::exit(code)
}

pub fn poll_begin() {
    POLL_START_WALL_MS.store(wall_ms(), std::sync::atomic::Ordering::Relaxed);
    IN_POLL.store(true, std::sync::atomic::Ordering::Release);
}
pub fn poll_end() {
    IN_POLL.store(false, std::sync::atomic::Ordering::Release);
}
pub fn note_worker_thread() {
    // SAFETY: gettid has no preconditions
    let tid = unsafe { libc::syscall(libc::SYS_gettid) };
    WORKER_TID.store(tid as i64, std::sync::atomic::Ordering::Relaxed);
}

/// (state, utime+stime in clock ticks) of a thread of this process
fn thread_stat(tid: i64) -> Option<(char, u64)> {
    let s = std::fs::read_to_string(format!("/proc/self/task/{tid}/stat")).ok()?;
    // fields after the ")" that closes the command name
    let rest = &s[s.rfind(')')? + 2..];
    let f: Vec<&str> = rest.split_whitespace().collect();
    let state = f.first()?.chars().next()?;
    let utime: u64 = f.get(11)?.parse().ok()?;
    let stime: u64 = f.get(12)?.parse().ok()?;
    Some((state, utime + stime))
}

fn process_cpu_ms() -> u64 {
    let mut ts = libc::timespec { tv_sec: 0, tv_nsec: 0 };
    // SAFETY: plain syscall wrapper writing into a local timespec
    unsafe {
        libc::clock_gettime(libc::CLOCK_PROCESS_CPUTIME_ID, &mut ts);
    }
    ts.tv_sec as u64 * 1000 + ts.tv_nsec as u64 / 1_000_000
}
fn wall_ms() -> u64 {
    static T0: std::sync::OnceLock<std::time::Instant> = std::sync::OnceLock::new();
    T0.get_or_init(std::time::Instant::now).elapsed().as_millis() as u64
}

/// a case starts (or made progress)
pub fn tick() {
    PROGRESS_CPU_MS.store(process_cpu_ms(), std::sync::atomic::Ordering::Relaxed);
    PROGRESS_WALL_MS.store(wall_ms(), std::sync::atomic::Ordering::Relaxed);
}

/// exit code 3: CPU spin in one case; exit code 4: no progress in wall-clock time
pub fn start_watchdog() {
    tick();
    let spin_secs: u64 = std::env::var("VERIF_SPIN_CPU_SECS").ok().and_then(|s| s.parse().ok()).unwrap_or(SPIN_CPU_SECS);
    std::thread::spawn(move || loop {
        std::thread::sleep(std::time::Duration::from_millis(500));
        let cpu = process_cpu_ms().saturating_sub(PROGRESS_CPU_MS.load(std::sync::atomic::Ordering::Relaxed));
        let wall = wall_ms().saturating_sub(PROGRESS_WALL_MS.load(std::sync::atomic::Ordering::Relaxed));
        if cpu > spin_secs * 1000 {
            eprintln!("SPIN-WATCHDOG: the current case has burnt {} s of CPU without finishing (busy loop inside one poll)", cpu / 1000);
            watchdog_exit(3, true);
        }
        // a task poll that does not return while its thread sleeps: something blocks the runtime thread
        // (a lock held across an await, a blocking call). Observed state, not elapsed time, decides.
        if IN_POLL.load(std::sync::atomic::Ordering::Acquire) {
            let in_poll_ms = wall_ms().saturating_sub(POLL_START_WALL_MS.load(std::sync::atomic::Ordering::Relaxed));
            let tid = WORKER_TID.load(std::sync::atomic::Ordering::Relaxed);
            if in_poll_ms > BLOCKED_POLL_SECS * 1000 && tid != 0 {
                if let Some((_, cpu0)) = thread_stat(tid) {
                    let mut always_asleep = true;
                    for _ in 0..10 {
                        std::thread::sleep(std::time::Duration::from_millis(500));
                        match thread_stat(tid) {
                            Some((st, cpu)) if (st == 'S' || st == 'D') && cpu == cpu0 => {}
                            _ => {
                                always_asleep = false;
                                break;
                            }
                        }
                    }
                    if always_asleep && IN_POLL.load(std::sync::atomic::Ordering::Acquire) {
                        eprintln!("BLOCKED-WATCHDOG: a task poll has not returned for {} s and its thread is asleep without using CPU: the runtime thread is blocked (lock held across an await / blocking call)", in_poll_ms / 1000);
                        watchdog_exit(5, true);
                    }
                }
            }
        }
        if wall > STUCK_WALL_SECS * 1000 {
            eprintln!("STUCK-WATCHDOG: no case finished for {} s of wall-clock time", wall / 1000);
            watchdog_exit(4, false);
        }
    });
}

/// run a closure catching unwinds; any panic (from anywhere) is returned as Err with the records
pub fn guarded<R>(f: impl FnOnce() -> R) -> Result<R, Vec<String>> {
    let _ = take_panics();
    let r = std::panic::catch_unwind(std::panic::AssertUnwindSafe(f));
    let p = take_panics();
    match r {
        Ok(v) if p.is_empty() => Ok(v),
        Ok(_) => Err(p),
        Err(_) => Err(if p.is_empty() { vec!["panic (no record)".into()] } else { p }),
    }
}

// ---------------------------------------------------------------------------
// proptest runner from a binary

/// shrink budget; engine-level checks lower it because each iteration runs two endpoints
pub static MAX_SHRINK_ITERS: std::sync::atomic::AtomicU32 = std::sync::atomic::AtomicU32::new(2000);

pub fn pt_config(cases: u32, seed: u64) -> Config {
    Config {
        cases,
        failure_persistence: None,
        rng_seed: RngSeed::Fixed(seed),
        max_shrink_iters: MAX_SHRINK_ITERS.load(std::sync::atomic::Ordering::Relaxed),
        max_global_rejects: 1 << 20,
        ..Config::default()
    }
}

/// Run `cases` generated cases of `strat` through `f`. `f` returns Err(description) on a
/// property violation. Counters are only updated before the first failure (the closure is
/// re-run while shrinking).
pub fn pt_run<S, F>(ctx: &ShardCtx, rep: &mut Report, variant: &str, cases: u32, strat: S, f: F)
where
    S: Strategy,
    S::Value: Serialize + std::fmt::Debug,
    F: Fn(&S::Value, &mut Obs) -> Result<(), String>,
{
    if cases == 0 {
        return;
    }
    let seed = ctx.seed.wrapping_mul(0x9E37_79B9_7F4A_7C15) ^ ((ctx.shard as u64) << 32) ^ hash_str(variant) ^ hash_str(&ctx.prop);
    let mut runner = TestRunner::new(pt_config(cases, seed));
    let failed = Cell::new(false);
    let reprc = RefCell::new(std::mem::take(rep));
    let last_sig: RefCell<Option<String>> = RefCell::new(None);
    let result = runner.run(&strat, |v| {
        tick();
        if !ctx.journal.is_empty() {
            ctx.journal(variant, &serde_json::to_value(&v).unwrap_or(Json::Null));
        }
        let mut obs = Obs::default();
        let r = f(&v, &mut obs);
        if !failed.get() {
            let mut rep = reprc.borrow_mut();
            rep.evaluations += 1;
            if let Some(h) = obs.nontrivial {
                rep.nontrivial_evals += 1;
                if rep.nontrivial.len() < 400_000 {
                    rep.nontrivial.insert(h);
                }
            }
            for c in &obs.classes {
                rep.class(c);
            }
            for c in &obs.excluded {
                rep.exclude(c);
            }
            if let Some(s) = obs.sample.take() {
                rep.sample(s);
            } else if rep.samples.len() < 3 && obs.nontrivial.is_some() {
                let mut j = serde_json::to_value(&v).unwrap_or(Json::Null);
                truncate_json(&mut j, 400);
                rep.sample(json!({"variant": variant, "case": j}));
            }
        }
        match r {
            Ok(()) => Ok(()),
            Err(e) => {
                failed.set(true);
                *last_sig.borrow_mut() = obs.signature.take();
                Err(TestCaseError::fail(e))
            }
        }
    });
    *rep = reprc.into_inner();
    match result {
        Ok(()) => {}
        Err(TestError::Fail(reason, value)) => {
            let case = serde_json::to_value(&value).unwrap_or(Json::Null);
            // re-run the minimal case once more to get its signature/detail
            let mut obs = Obs::default();
            let detail = match f(&value, &mut obs) {
                Err(e) => e,
                Ok(()) => format!("{} (did not reproduce on re-run!)", reason.message()),
            };
            let signature = obs
                .signature
                .or(last_sig.into_inner())
                .unwrap_or_else(|| variant.to_string());
            rep.violations.push(Violation {
                variant: variant.to_string(),
                signature,
                detail,
                case,
            });
        }
        Err(TestError::Abort(reason)) => {
            rep.inconclusive.push(format!("{}: proptest aborted: {}", variant, reason.message()));
        }
    }
}

/// shorten long strings/arrays inside a JSON value so samples stay readable
pub fn truncate_json(j: &mut Json, max: usize) {
    match j {
        Json::String(s) => {
            if s.len() > max {
                let mut cut = max;
                while !s.is_char_boundary(cut) {
                    cut -= 1;
                }
                let n = s.len();
                s.truncate(cut);
                s.push_str(&format!("…(+{} bytes)", n - cut));
            }
        }
        Json::Array(a) => {
            if a.len() > 24 {
                let n = a.len();
                a.truncate(24);
                a.push(Json::String(format!("…(+{} items)", n - 24)));
            }
            for x in a {
                truncate_json(x, max);
            }
        }
        Json::Object(o) => {
            for (_, v) in o.iter_mut() {
                truncate_json(v, max);
            }
        }
        _ => {}
    }
}

// ---------------------------------------------------------------------------
// property registry

pub struct PropMeta {
    pub id: &'static str,
    pub level: &'static str,
    pub rule: &'static str,
    pub assumptions: &'static [&'static str],
    /// minimal fraction of non-trivial evaluations (health check)
    pub nontrivial_floor: f64,
    pub run: fn(&ShardCtx, &mut Report),
    /// replay one saved case: Ok(()) = holds, Err = violation description
    pub replay: fn(&str, &Json) -> Result<(), String>,
    /// whether workers journal cases (crash attribution)
    pub crashy: bool,
}

// ---------------------------------------------------------------------------
// known findings file (read-only)

pub fn known_findings() -> Vec<Json> {
    let p = std::path::Path::new("/verif/known_findings.json");
    match std::fs::read(p) {
        Ok(b) => serde_json::from_slice::<Json>(&b)
            .ok()
            .and_then(|j| j.get("findings").cloned())
            .and_then(|f| f.as_array().cloned())
            .unwrap_or_default(),
        Err(_) => vec![],
    }
}

pub fn open_findings_for(prop: &str) -> Vec<Json> {
    known_findings()
        .into_iter()
        .filter(|f| f["status"] == "open" && (f["property"] == prop || f["also"].as_array().map(|a| a.iter().any(|x| x == prop)).unwrap_or(false)))
        .collect()
}

/// ids of the open findings of a property plus every open codec-scope finding (their classes
/// are carved out of message bodies everywhere so that they are not re-reported elsewhere)
pub fn open_ids_for(prop: &str) -> Vec<String> {
    known_findings()
        .into_iter()
        .filter(|f| f["status"] == "open" && (f["scope"] == "codec" || f["scope"] == "engine" || f["property"] == prop || f["also"].as_array().map(|a| a.iter().any(|x| x == prop)).unwrap_or(false)))
        .filter_map(|f| f["id"].as_str().map(|s| s.to_string()))
        .collect()
}
