//! Independent frame layer (AMQP 1.0 part 2.3): parser and builder over the reference codec.
use crate::refcodec::{self, Choices, RValue};
use crate::spec;
use serde::{Deserialize, Serialize};

#[derive(Clone, Debug, PartialEq, Eq, Serialize, Deserialize)]
pub struct RFrame {
    pub size: u32,
    pub doff: u8,
    pub ftype: u8,
    pub channel: u16,
    /// performative (None for an empty frame)
    pub body: Option<RValue>,
    pub payload: Vec<u8>,
    /// offset of the frame in the stream
    pub offset: usize,
}

#[derive(Clone, Debug, PartialEq, Eq, Serialize, Deserialize)]
pub enum Item {
    /// protocol header: id (0 amqp, 2 tls, 3 sasl), major, minor, revision
    Header([u8; 4]),
    Frame(RFrame),
}

impl RFrame {
    pub fn code(&self) -> Option<u64> {
        match &self.body {
            Some(RValue::Described(d, _)) => match &**d {
                RValue::Ulong(c) => Some(*c),
                RValue::Sym(s) => spec::spec_by_name(s).map(|s| s.code),
                _ => None,
            },
            _ => None,
        }
    }
    /// canonical full-length field list of the performative
    pub fn fields(&self) -> Vec<RValue> {
        let body = match &self.body {
            Some(b) => b,
            None => return vec![],
        };
        match spec::canon_any(body) {
            RValue::Described(_, inner) => match *inner {
                RValue::List(f) => f,
                _ => vec![],
            },
            _ => vec![],
        }
    }
    pub fn field(&self, i: usize) -> RValue {
        self.fields().get(i).cloned().unwrap_or(RValue::Null)
    }
    pub fn name(&self) -> &'static str {
        match self.code() {
            Some(0x10) => "open",
            Some(0x11) => "begin",
            Some(0x12) => "attach",
            Some(0x13) => "flow",
            Some(0x14) => "transfer",
            Some(0x15) => "disposition",
            Some(0x16) => "detach",
            Some(0x17) => "end",
            Some(0x18) => "close",
            Some(0x40) => "sasl-mechanisms",
            Some(0x41) => "sasl-init",
            Some(0x42) => "sasl-challenge",
            Some(0x43) => "sasl-response",
            Some(0x44) => "sasl-outcome",
            None if self.body.is_none() => "empty",
            _ => "unknown",
        }
    }
}

pub fn uint(v: &RValue) -> Option<u32> {
    match v {
        RValue::Uint(x) => Some(*x),
        _ => None,
    }
}
pub fn boolean(v: &RValue) -> Option<bool> {
    match v {
        RValue::Bool(x) => Some(*x),
        _ => None,
    }
}

/// Parse a byte stream into protocol headers and complete frames (strict). Returns the
/// items and the number of bytes consumed; trailing bytes that do not form a complete
/// frame are left over (reported by the caller if it matters).
pub fn parse_stream(bytes: &[u8]) -> Result<(Vec<Item>, usize), String> {
    let mut items = Vec::new();
    let mut pos = 0;
    while pos < bytes.len() {
        let rest = &bytes[pos..];
        if rest.len() >= 4 && &rest[..4] == b"AMQP" {
            if rest.len() < 8 {
                break;
            }
            items.push(Item::Header([rest[4], rest[5], rest[6], rest[7]]));
            pos += 8;
            continue;
        }
        if rest.len() < 4 {
            break;
        }
        let size = u32::from_be_bytes([rest[0], rest[1], rest[2], rest[3]]) as usize;
        if size < 8 {
            return Err(format!("frame at {} has size {} < 8", pos, size));
        }
        if rest.len() < size {
            break;
        }
        let doff = rest[4];
        let ftype = rest[5];
        let channel = u16::from_be_bytes([rest[6], rest[7]]);
        if doff < 2 {
            return Err(format!("frame at {} has doff {} < 2", pos, doff));
        }
        let body_start = doff as usize * 4;
        if body_start > size {
            return Err(format!("frame at {} has doff {} beyond size {}", pos, doff, size));
        }
        let body_bytes = &rest[body_start..size];
        let (body, payload) = if body_bytes.is_empty() {
            (None, vec![])
        } else {
            let (v, used) = refcodec::decode_one(body_bytes).map_err(|e| format!("frame at {} body does not parse: {:?} ({})", pos, e, refcodec::hex(body_bytes)))?;
            (Some(v), body_bytes[used..].to_vec())
        };
        items.push(Item::Frame(RFrame { size: size as u32, doff, ftype, channel, body, payload, offset: pos }));
        pos += size;
    }
    Ok((items, pos))
}

pub fn frames_of(items: &[Item]) -> Vec<RFrame> {
    items
        .iter()
        .filter_map(|i| match i {
            Item::Frame(f) => Some(f.clone()),
            _ => None,
        })
        .collect()
}

pub const AMQP_HEADER: [u8; 8] = [b'A', b'M', b'Q', b'P', 0, 1, 0, 0];
pub const SASL_HEADER: [u8; 8] = [b'A', b'M', b'Q', b'P', 3, 1, 0, 0];
pub const TLS_HEADER: [u8; 8] = [b'A', b'M', b'Q', b'P', 2, 1, 0, 0];

/// build one frame
pub fn build_frame(ftype: u8, channel: u16, body: Option<&RValue>, payload: &[u8], ch: &mut Choices) -> Vec<u8> {
    let mut b = Vec::new();
    if let Some(v) = body {
        refcodec::encode_into(v, ch, &mut b);
    }
    b.extend_from_slice(payload);
    let size = (8 + b.len()) as u32;
    let mut f = Vec::with_capacity(size as usize);
    f.extend_from_slice(&size.to_be_bytes());
    f.push(2);
    f.push(ftype);
    f.extend_from_slice(&channel.to_be_bytes());
    f.extend_from_slice(&b);
    f
}

/// composite from a (possibly short) field list
pub fn perf(spec: &'static spec::CompSpec, mut fields: Vec<RValue>) -> RValue {
    while matches!(fields.last(), Some(RValue::Null)) {
        fields.pop();
    }
    RValue::described(RValue::Ulong(spec.code), RValue::List(fields))
}
