//! Scripted AMQP peer at frame/byte level on the harness transport, speaking through the
//! independent reference codec (so the endpoint under test is also exercised with
//! foreign-but-valid encodings).
use crate::refcodec::{Choices, RValue};
use crate::rframe::{self, Item, RFrame};
use crate::simnet::Endpoint;
use crate::spec;
use std::time::Duration;
use tokio::io::{AsyncReadExt, AsyncWriteExt};
use tokio::time::Instant;

pub struct Peer {
    pub io: Endpoint,
    rbuf: Vec<u8>,
    /// everything received so far: headers and frames with arrival time (virtual)
    pub items: Vec<(Instant, Item)>,
    /// index into `items` of the first item not yet returned by `poll_new`
    cursor: usize,
    pub eof: bool,
    pub io_error: Option<String>,
    /// encoding-variant choices used for outgoing frames (cycled)
    pub choice_bytes: Vec<u8>,
    choice_pos: usize,
    /// raw bytes received (for byte-level checks)
    pub raw_in: Vec<u8>,
    pub protocol_error: Option<String>,
}

fn null() -> RValue {
    RValue::Null
}
pub fn uint(x: u32) -> RValue {
    RValue::Uint(x)
}
pub fn b(x: bool) -> RValue {
    RValue::Bool(x)
}

impl Peer {
    pub fn new(io: Endpoint, choice_bytes: Vec<u8>) -> Peer {
        Peer { io, rbuf: Vec::new(), items: Vec::new(), cursor: 0, eof: false, io_error: None, choice_bytes, choice_pos: 0, raw_in: Vec::new(), protocol_error: None }
    }

    fn choices(&mut self) -> Choices {
        // rotate the choice bytes so that successive frames use different variants
        let mut v = self.choice_bytes.clone();
        if !v.is_empty() {
            let k = self.choice_pos % v.len();
            v.rotate_left(k);
            self.choice_pos += 1;
        }
        Choices::new(v)
    }

    pub async fn send_bytes(&mut self, bytes: &[u8]) -> Result<(), String> {
        self.io.write_all(bytes).await.map_err(|e| format!("peer write failed: {e}"))
    }

    pub async fn send_header(&mut self, h: [u8; 8]) -> Result<(), String> {
        self.send_bytes(&h).await
    }

    pub async fn send_frame(&mut self, channel: u16, body: &RValue, payload: &[u8]) -> Result<(), String> {
        let mut ch = self.choices();
        let f = rframe::build_frame(0, channel, Some(body), payload, &mut ch);
        self.send_bytes(&f).await
    }

    pub async fn send_sasl_frame(&mut self, body: &RValue) -> Result<(), String> {
        let mut ch = self.choices();
        let f = rframe::build_frame(1, 0, Some(body), &[], &mut ch);
        self.send_bytes(&f).await
    }

    pub async fn send_empty_frame(&mut self) -> Result<(), String> {
        self.send_bytes(&[0, 0, 0, 8, 2, 0, 0, 0]).await
    }

    fn parse_buffer(&mut self, now: Instant) {
        match rframe::parse_stream(&self.rbuf) {
            Ok((items, used)) => {
                for it in items {
                    self.items.push((now, it));
                }
                self.rbuf.drain(..used);
            }
            Err(e) => {
                if self.protocol_error.is_none() {
                    self.protocol_error = Some(e);
                }
                self.rbuf.clear();
            }
        }
    }

    /// Read until the system is quiescent (nothing more arrives without the peer acting).
    /// Exact under the paused clock: the 1 ms timer only fires when every task is idle.
    pub async fn settle(&mut self) {
        let mut buf = [0u8; 8192];
        loop {
            if self.eof || self.io_error.is_some() {
                tokio::time::sleep(Duration::from_millis(1)).await;
                return;
            }
            match tokio::time::timeout(Duration::from_millis(1), self.io.read(&mut buf)).await {
                Ok(Ok(0)) => {
                    self.eof = true;
                }
                Ok(Ok(n)) => {
                    self.rbuf.extend_from_slice(&buf[..n]);
                    self.raw_in.extend_from_slice(&buf[..n]);
                    self.parse_buffer(Instant::now());
                }
                Ok(Err(e)) => {
                    self.io_error = Some(e.to_string());
                }
                Err(_) => return,
            }
        }
    }

    /// keep reading (and parsing) until the virtual instant `deadline`
    pub async fn read_until(&mut self, deadline: Instant) {
        let mut buf = [0u8; 8192];
        loop {
            if self.eof || self.io_error.is_some() {
                tokio::time::sleep_until(deadline).await;
                return;
            }
            match tokio::time::timeout_at(deadline, self.io.read(&mut buf)).await {
                Ok(Ok(0)) => self.eof = true,
                Ok(Ok(n)) => {
                    self.rbuf.extend_from_slice(&buf[..n]);
                    self.raw_in.extend_from_slice(&buf[..n]);
                    self.parse_buffer(Instant::now());
                }
                Ok(Err(e)) => self.io_error = Some(e.to_string()),
                Err(_) => return,
            }
        }
    }

    /// frames that arrived since the last call (after settling)
    pub async fn new_frames(&mut self) -> Vec<RFrame> {
        self.settle().await;
        let out: Vec<RFrame> = self.items[self.cursor..]
            .iter()
            .filter_map(|(_, i)| match i {
                Item::Frame(f) => Some(f.clone()),
                _ => None,
            })
            .collect();
        self.cursor = self.items.len();
        out
    }

    pub fn all_frames(&self) -> Vec<RFrame> {
        self.items
            .iter()
            .filter_map(|(_, i)| match i {
                Item::Frame(f) => Some(f.clone()),
                _ => None,
            })
            .collect()
    }

    pub fn all_frames_timed(&self) -> Vec<(Instant, RFrame)> {
        self.items
            .iter()
            .filter_map(|(t, i)| match i {
                Item::Frame(f) => Some((*t, f.clone())),
                _ => None,
            })
            .collect()
    }

    /// wait (until quiescence) for the next not-yet-consumed item; None if nothing arrives
    pub async fn next_item(&mut self) -> Option<Item> {
        if self.cursor >= self.items.len() {
            self.settle().await;
        }
        if self.cursor < self.items.len() {
            let it = self.items[self.cursor].1.clone();
            self.cursor += 1;
            Some(it)
        } else {
            None
        }
    }

    /// next frame, skipping empty (heartbeat) frames
    pub async fn next_frame(&mut self) -> Option<RFrame> {
        loop {
            match self.next_item().await {
                Some(Item::Frame(f)) => {
                    if f.body.is_none() {
                        continue;
                    }
                    return Some(f);
                }
                Some(Item::Header(_)) => continue,
                None => return None,
            }
        }
    }

    pub async fn expect_frame(&mut self, name: &str) -> Result<RFrame, String> {
        match self.next_frame().await {
            Some(f) if f.name() == name => Ok(f),
            Some(f) => Err(format!("peer expected a {} frame but the endpoint sent {} ({:?})", name, f.name(), f.body)),
            None => Err(format!("peer expected a {} frame but nothing arrived (eof={}, err={:?}, proto={:?})", name, self.eof, self.io_error, self.protocol_error)),
        }
    }

    /// skip frames until one with the given name arrives (flows etc. in between are kept in `items`)
    pub async fn wait_for(&mut self, name: &str) -> Result<RFrame, String> {
        loop {
            match self.next_frame().await {
                Some(f) if f.name() == name => return Ok(f),
                Some(_) => continue,
                None => return Err(format!("peer waited for a {} frame but nothing (more) arrived (eof={}, err={:?})", name, self.eof, self.io_error)),
            }
        }
    }

    pub async fn expect_header(&mut self) -> Result<[u8; 4], String> {
        match self.next_item().await {
            Some(Item::Header(h)) => Ok(h),
            other => Err(format!("peer expected a protocol header, got {:?}", other)),
        }
    }

    // ---- composite builders -------------------------------------------------------------

    pub fn open_body(container: &str, max_frame_size: Option<u32>, channel_max: Option<u16>, idle: Option<u32>) -> RValue {
        rframe::perf(
            &spec::OPEN,
            vec![RValue::str(container), null(), max_frame_size.map(RValue::Uint).unwrap_or(null()), channel_max.map(RValue::Ushort).unwrap_or(null()), idle.map(RValue::Uint).unwrap_or(null())],
        )
    }

    pub fn begin_body(remote_channel: Option<u16>, next_outgoing_id: u32, incoming_window: u32, outgoing_window: u32, handle_max: Option<u32>) -> RValue {
        rframe::perf(
            &spec::BEGIN,
            vec![remote_channel.map(RValue::Ushort).unwrap_or(null()), uint(next_outgoing_id), uint(incoming_window), uint(outgoing_window), handle_max.map(uint).unwrap_or(null())],
        )
    }

    /// attach; `role_receiver` is the peer's role
    #[allow(clippy::too_many_arguments)]
    pub fn attach_body(name: &str, handle: u32, role_receiver: bool, snd_settle: Option<u8>, rcv_settle: Option<u8>, initial_delivery_count: Option<u32>, max_message_size: Option<u64>, coordinator: bool) -> RValue {
        let source = rframe::perf(&spec::SOURCE, vec![RValue::str("q")]);
        let target = if coordinator { rframe::perf(&spec::COORDINATOR, vec![]) } else { rframe::perf(&spec::TARGET, vec![RValue::str("q")]) };
        rframe::perf(
            &spec::ATTACH,
            vec![
                RValue::str(name),
                uint(handle),
                b(role_receiver),
                snd_settle.map(RValue::Ubyte).unwrap_or(null()),
                rcv_settle.map(RValue::Ubyte).unwrap_or(null()),
                source,
                target,
                null(),
                null(),
                initial_delivery_count.map(uint).unwrap_or(null()),
                max_message_size.map(RValue::Ulong).unwrap_or(null()),
            ],
        )
    }

    #[allow(clippy::too_many_arguments)]
    pub fn flow_body(next_incoming_id: Option<u32>, incoming_window: u32, next_outgoing_id: u32, outgoing_window: u32, handle: Option<u32>, delivery_count: Option<u32>, link_credit: Option<u32>, drain: bool, echo: bool) -> RValue {
        rframe::perf(
            &spec::FLOW,
            vec![
                next_incoming_id.map(uint).unwrap_or(null()),
                uint(incoming_window),
                uint(next_outgoing_id),
                uint(outgoing_window),
                handle.map(uint).unwrap_or(null()),
                delivery_count.map(uint).unwrap_or(null()),
                link_credit.map(uint).unwrap_or(null()),
                null(),
                if drain { b(true) } else { null() },
                if echo { b(true) } else { null() },
            ],
        )
    }

    #[allow(clippy::too_many_arguments)]
    pub fn transfer_body(handle: u32, delivery_id: Option<u32>, tag: Option<&[u8]>, format: Option<u32>, settled: Option<bool>, more: bool, rcv_settle: Option<u8>, aborted: bool) -> RValue {
        rframe::perf(
            &spec::TRANSFER,
            vec![
                uint(handle),
                delivery_id.map(uint).unwrap_or(null()),
                tag.map(|t| RValue::Binary(t.to_vec())).unwrap_or(null()),
                format.map(uint).unwrap_or(null()),
                settled.map(b).unwrap_or(null()),
                if more { b(true) } else { null() },
                rcv_settle.map(RValue::Ubyte).unwrap_or(null()),
                null(),
                null(),
                if aborted { b(true) } else { null() },
            ],
        )
    }

    pub fn disposition_body(role_receiver: bool, first: u32, last: Option<u32>, settled: bool, state: Option<RValue>) -> RValue {
        rframe::perf(&spec::DISPOSITION, vec![b(role_receiver), uint(first), last.map(uint).unwrap_or(null()), if settled { b(true) } else { null() }, state.unwrap_or(null())])
    }

    pub fn error_body(condition: &str, description: Option<&str>) -> RValue {
        rframe::perf(&spec::ERROR, vec![RValue::sym(condition), description.map(RValue::str).unwrap_or(null())])
    }

    pub fn detach_body(handle: u32, closed: bool, error: Option<RValue>) -> RValue {
        rframe::perf(&spec::DETACH, vec![uint(handle), if closed { b(true) } else { null() }, error.unwrap_or(null())])
    }
    pub fn end_body(error: Option<RValue>) -> RValue {
        rframe::perf(&spec::END, vec![error.unwrap_or(null())])
    }
    pub fn close_body(error: Option<RValue>) -> RValue {
        rframe::perf(&spec::CLOSE, vec![error.unwrap_or(null())])
    }

    pub fn accepted() -> RValue {
        rframe::perf(&spec::ACCEPTED, vec![])
    }
    pub fn released() -> RValue {
        rframe::perf(&spec::RELEASED, vec![])
    }
    pub fn rejected(desc: &str) -> RValue {
        rframe::perf(&spec::REJECTED, vec![Peer::error_body("amqp:internal-error", Some(desc))])
    }
    pub fn modified(failed: bool, undeliverable: bool) -> RValue {
        rframe::perf(&spec::MODIFIED, vec![b(failed), b(undeliverable)])
    }
    pub fn received(section: u32, offset: u64) -> RValue {
        rframe::perf(&spec::RECEIVED, vec![uint(section), RValue::Ulong(offset)])
    }

    // ---- preludes -------------------------------------------------------------------------

    /// server role: the endpoint under test is a client that opens towards us
    pub async fn server_open(&mut self, max_frame_size: Option<u32>, channel_max: Option<u16>, idle: Option<u32>) -> Result<RFrame, String> {
        let h = self.expect_header().await?;
        if h != [0, 1, 0, 0] {
            return Err(format!("client sent protocol header {:?}", h));
        }
        self.send_header(rframe::AMQP_HEADER).await?;
        let open = self.expect_frame("open").await?;
        let body = Peer::open_body("verif-peer", max_frame_size, channel_max, idle);
        self.send_frame(0, &body, &[]).await?;
        Ok(open)
    }

    /// client role: the endpoint under test is a listener
    pub async fn client_open(&mut self, max_frame_size: Option<u32>, channel_max: Option<u16>, idle: Option<u32>) -> Result<RFrame, String> {
        self.send_header(rframe::AMQP_HEADER).await?;
        let body = Peer::open_body("verif-peer", max_frame_size, channel_max, idle);
        self.send_frame(0, &body, &[]).await?;
        let h = self.expect_header().await?;
        if h != [0, 1, 0, 0] {
            return Err(format!("listener sent protocol header {:?}", h));
        }
        self.expect_frame("open").await
    }

    /// answer the endpoint's begin; returns (endpoint's channel, begin frame)
    pub async fn accept_begin(&mut self, my_channel: u16, next_outgoing_id: u32, incoming_window: u32, outgoing_window: u32) -> Result<(u16, RFrame), String> {
        let begin = self.expect_frame("begin").await?;
        let body = Peer::begin_body(Some(begin.channel), next_outgoing_id, incoming_window, outgoing_window, None);
        self.send_frame(my_channel, &body, &[]).await?;
        Ok((begin.channel, begin))
    }

    /// initiate a session towards the endpoint (listener); returns the endpoint's begin
    pub async fn initiate_begin(&mut self, my_channel: u16, next_outgoing_id: u32, incoming_window: u32, outgoing_window: u32) -> Result<RFrame, String> {
        let body = Peer::begin_body(None, next_outgoing_id, incoming_window, outgoing_window, None);
        self.send_frame(my_channel, &body, &[]).await?;
        self.expect_frame("begin").await
    }
}

/// serial number comparison (RFC 1982): a < b
pub fn serial_lt(a: u32, b: u32) -> bool {
    let d = b.wrapping_sub(a);
    d != 0 && d < (1u32 << 31)
}
pub fn serial_le(a: u32, b: u32) -> bool {
    a == b || serial_lt(a, b)
}

// ---------------------------------------------------------------------------
// rigs: a real client endpoint wired to a scripted server peer

use crate::simnet::{self, PipeCfg, PipeCtl};
use fe2o3_amqp::connection::ConnectionHandle;
use fe2o3_amqp::session::SessionHandle;
use fe2o3_amqp::{Connection, Session};

#[derive(Clone, Debug)]
pub struct RigCfg {
    pub pipe: PipeCfg,
    pub choices: Vec<u8>,
    /// max-frame-size the peer advertises in its open
    pub peer_mfs: u32,
    pub ep_mfs: u32,
    pub ep_next_outgoing_id: u32,
    pub ep_incoming_window: u32,
    pub ep_outgoing_window: u32,
    pub peer_next_outgoing_id: u32,
    pub peer_incoming_window: u32,
    pub peer_outgoing_window: u32,
    pub peer_channel: u16,
    pub conn_buf: usize,
    pub sess_buf: usize,
}

impl Default for RigCfg {
    fn default() -> Self {
        RigCfg {
            pipe: PipeCfg { cap: 1 << 22, ..PipeCfg::default() },
            choices: vec![],
            peer_mfs: 4096,
            ep_mfs: 65536,
            ep_next_outgoing_id: 0,
            ep_incoming_window: 2048,
            ep_outgoing_window: 2048,
            peer_next_outgoing_id: 0,
            peer_incoming_window: 100_000,
            peer_outgoing_window: 100_000,
            peer_channel: 3,
            conn_buf: 2048,
            sess_buf: 2048,
        }
    }
}

pub struct ClientRig {
    pub conn: ConnectionHandle<()>,
    pub sess: SessionHandle<()>,
    pub peer: Peer,
    /// channel the endpoint uses for its session
    pub ep_ch: u16,
    pub my_ch: u16,
    pub ctl: PipeCtl,
    pub cfg: RigCfg,
}

/// open + begin between a real client and the scripted peer
pub async fn client_rig(cfg: RigCfg) -> Result<ClientRig, String> {
    let (a, b, ctl) = simnet::pipe(cfg.pipe.clone());
    let mut peer = Peer::new(b, cfg.choices.clone());
    let open_fut = Connection::builder().container_id("verif-client").max_frame_size(cfg.ep_mfs).buffer_size(cfg.conn_buf.max(1)).open_with_stream(a);
    let (conn, po) = tokio::join!(open_fut, peer.server_open(Some(cfg.peer_mfs), None, None));
    let mut conn = conn.map_err(|e| format!("client open failed: {e:?}"))?;
    po?;
    let sb = Session::builder()
        .next_outgoing_id(cfg.ep_next_outgoing_id)
        .incoming_window(cfg.ep_incoming_window)
        .outgoing_window(cfg.ep_outgoing_window)
        .buffer_size(cfg.sess_buf.max(1));
    let my_ch = cfg.peer_channel;
    let (sess, pb) = tokio::join!(sb.begin(&mut conn), peer.accept_begin(my_ch, cfg.peer_next_outgoing_id, cfg.peer_incoming_window, cfg.peer_outgoing_window));
    let sess = sess.map_err(|e| format!("client begin failed: {e:?}"))?;
    let (ep_ch, _begin) = pb?;
    Ok(ClientRig { conn, sess, peer, ep_ch, my_ch, ctl, cfg })
}

/// Drive an endpoint-initiated attach: `fut` is the endpoint's attach future; when the endpoint's
/// attach frame arrives the peer answers with `reply(&attach)` followed by the frames in `then`.
pub async fn answer_attach<T, E: std::fmt::Debug>(
    peer: &mut Peer,
    my_ch: u16,
    fut: impl std::future::Future<Output = Result<T, E>>,
    reply: impl FnOnce(&RFrame) -> RValue,
    then: impl FnOnce(&RFrame) -> Vec<RValue>,
) -> Result<(T, RFrame), String> {
    let pa = async {
        let a = peer.wait_for("attach").await?;
        let body = reply(&a);
        peer.send_frame(my_ch, &body, &[]).await?;
        for f in then(&a) {
            peer.send_frame(my_ch, &f, &[]).await?;
        }
        Ok::<RFrame, String>(a)
    };
    let (t, a) = tokio::join!(fut, pa);
    let a = a?;
    let t = t.map_err(|e| format!("endpoint attach failed: {e:?}"))?;
    Ok((t, a))
}

pub fn as_uint(v: &RValue) -> Option<u32> {
    match v {
        RValue::Uint(x) => Some(*x),
        _ => None,
    }
}
pub fn as_bool(v: &RValue) -> Option<bool> {
    match v {
        RValue::Bool(x) => Some(*x),
        _ => None,
    }
}
