//! Composite type tables transcribed from the AMQP 1.0 specification (parts 2, 3, 4, 5):
//! descriptor code and name, ordered field list with type, mandatory flag and default.
//! Used to generate models of typed protocol items, to canonicalise what the specification
//! cannot distinguish (trailing nulls, null-for-default, single value vs array for
//! `multiple` fields), and by the scripted peer to build and inspect frames.
use crate::gen;
use crate::refcodec::RValue;
use proptest::collection::vec;
use proptest::prelude::*;

#[derive(Clone, Copy, Debug)]
pub enum FT {
    Str,
    Sym,
    Ubyte,
    Ushort,
    Uint,
    Ulong,
    Bool,
    Binary,
    Timestamp,
    /// map symbol -> any value (fields, node-properties, filter-set)
    SymMap,
    /// symbol, multiple=true
    MultiSym,
    /// a specific composite
    Comp(&'static CompSpec),
    /// one of several composites
    OneOf(&'static [&'static CompSpec]),
    /// message-id: ulong | uuid | binary | string
    MessageId,
    /// map delivery-tag(binary) -> delivery-state | null
    Unsettled,
    /// role: boolean
    Role,
    /// sender-settle-mode ubyte 0..=2
    SndSettle,
    /// receiver-settle-mode ubyte 0..=1
    RcvSettle,
    /// terminus-durability uint 0..=2
    Durability,
    /// terminus-expiry-policy symbol
    ExpiryPolicy,
    /// distribution mode symbol
    DistMode,
    /// sasl-code ubyte 0..=4
    SaslCode,
    /// error condition symbol (standard or custom)
    ErrCond,
    /// txn-capability symbol, multiple=true
    MultiTxnCap,
}

#[derive(Debug)]
pub struct FieldSpec {
    pub name: &'static str,
    pub ft: FT,
    pub mandatory: bool,
    pub default: Option<fn() -> RValue>,
}

#[derive(Debug)]
pub struct CompSpec {
    pub name: &'static str,
    pub code: u64,
    pub fields: &'static [FieldSpec],
}

const fn f(name: &'static str, ft: FT) -> FieldSpec {
    FieldSpec {
        name,
        ft,
        mandatory: false,
        default: None,
    }
}
const fn m(name: &'static str, ft: FT) -> FieldSpec {
    FieldSpec {
        name,
        ft,
        mandatory: true,
        default: None,
    }
}
const fn d(name: &'static str, ft: FT, default: fn() -> RValue) -> FieldSpec {
    FieldSpec {
        name,
        ft,
        mandatory: false,
        default: Some(default),
    }
}

fn d_false() -> RValue {
    RValue::Bool(false)
}
fn d_u32max() -> RValue {
    RValue::Uint(u32::MAX)
}
fn d_u16max() -> RValue {
    RValue::Ushort(u16::MAX)
}
fn d_mixed() -> RValue {
    RValue::Ubyte(2)
}
fn d_first() -> RValue {
    RValue::Ubyte(0)
}
fn d_uint0() -> RValue {
    RValue::Uint(0)
}
fn d_session_end() -> RValue {
    RValue::sym("session-end")
}
fn d_prio() -> RValue {
    RValue::Ubyte(4)
}

pub static ERROR: CompSpec = CompSpec {
    name: "amqp:error:list",
    code: 0x1d,
    fields: &[m("condition", FT::ErrCond), f("description", FT::Str), f("info", FT::SymMap)],
};

pub static OPEN: CompSpec = CompSpec {
    name: "amqp:open:list",
    code: 0x10,
    fields: &[
        m("container-id", FT::Str),
        f("hostname", FT::Str),
        d("max-frame-size", FT::Uint, d_u32max),
        d("channel-max", FT::Ushort, d_u16max),
        f("idle-time-out", FT::Uint),
        f("outgoing-locales", FT::MultiSym),
        f("incoming-locales", FT::MultiSym),
        f("offered-capabilities", FT::MultiSym),
        f("desired-capabilities", FT::MultiSym),
        f("properties", FT::SymMap),
    ],
};

pub static BEGIN: CompSpec = CompSpec {
    name: "amqp:begin:list",
    code: 0x11,
    fields: &[
        f("remote-channel", FT::Ushort),
        m("next-outgoing-id", FT::Uint),
        m("incoming-window", FT::Uint),
        m("outgoing-window", FT::Uint),
        d("handle-max", FT::Uint, d_u32max),
        f("offered-capabilities", FT::MultiSym),
        f("desired-capabilities", FT::MultiSym),
        f("properties", FT::SymMap),
    ],
};

pub static RECEIVED: CompSpec = CompSpec {
    name: "amqp:received:list",
    code: 0x23,
    fields: &[m("section-number", FT::Uint), m("section-offset", FT::Ulong)],
};
pub static ACCEPTED: CompSpec = CompSpec {
    name: "amqp:accepted:list",
    code: 0x24,
    fields: &[],
};
pub static REJECTED: CompSpec = CompSpec {
    name: "amqp:rejected:list",
    code: 0x25,
    fields: &[f("error", FT::Comp(&ERROR))],
};
pub static RELEASED: CompSpec = CompSpec {
    name: "amqp:released:list",
    code: 0x26,
    fields: &[],
};
pub static MODIFIED: CompSpec = CompSpec {
    name: "amqp:modified:list",
    code: 0x27,
    fields: &[
        f("delivery-failed", FT::Bool),
        f("undeliverable-here", FT::Bool),
        f("message-annotations", FT::SymMap),
    ],
};
pub static DECLARED: CompSpec = CompSpec {
    name: "amqp:declared:list",
    code: 0x33,
    fields: &[m("txn-id", FT::Binary)],
};
pub static OUTCOMES: [&CompSpec; 5] = [&ACCEPTED, &REJECTED, &RELEASED, &MODIFIED, &DECLARED];
pub static TXN_STATE: CompSpec = CompSpec {
    name: "amqp:transactional-state:list",
    code: 0x34,
    fields: &[m("txn-id", FT::Binary), f("outcome", FT::OneOf(&OUTCOMES))],
};
pub static DELIVERY_STATES: [&CompSpec; 7] = [&RECEIVED, &ACCEPTED, &REJECTED, &RELEASED, &MODIFIED, &DECLARED, &TXN_STATE];

pub static SOURCE: CompSpec = CompSpec {
    name: "amqp:source:list",
    code: 0x28,
    fields: &[
        f("address", FT::Str),
        d("durable", FT::Durability, d_uint0),
        d("expiry-policy", FT::ExpiryPolicy, d_session_end),
        d("timeout", FT::Uint, d_uint0),
        d("dynamic", FT::Bool, d_false),
        f("dynamic-node-properties", FT::SymMap),
        f("distribution-mode", FT::DistMode),
        f("filter", FT::SymMap),
        f("default-outcome", FT::OneOf(&OUTCOMES)),
        f("outcomes", FT::MultiSym),
        f("capabilities", FT::MultiSym),
    ],
};
pub static TARGET: CompSpec = CompSpec {
    name: "amqp:target:list",
    code: 0x29,
    fields: &[
        f("address", FT::Str),
        d("durable", FT::Durability, d_uint0),
        d("expiry-policy", FT::ExpiryPolicy, d_session_end),
        d("timeout", FT::Uint, d_uint0),
        d("dynamic", FT::Bool, d_false),
        f("dynamic-node-properties", FT::SymMap),
        f("capabilities", FT::MultiSym),
    ],
};
pub static COORDINATOR: CompSpec = CompSpec {
    name: "amqp:coordinator:list",
    code: 0x30,
    fields: &[f("capabilities", FT::MultiTxnCap)],
};
pub static TARGETS: [&CompSpec; 2] = [&TARGET, &COORDINATOR];

pub static ATTACH: CompSpec = CompSpec {
    name: "amqp:attach:list",
    code: 0x12,
    fields: &[
        m("name", FT::Str),
        m("handle", FT::Uint),
        m("role", FT::Role),
        d("snd-settle-mode", FT::SndSettle, d_mixed),
        d("rcv-settle-mode", FT::RcvSettle, d_first),
        f("source", FT::Comp(&SOURCE)),
        f("target", FT::OneOf(&TARGETS)),
        f("unsettled", FT::Unsettled),
        d("incomplete-unsettled", FT::Bool, d_false),
        f("initial-delivery-count", FT::Uint),
        f("max-message-size", FT::Ulong),
        f("offered-capabilities", FT::MultiSym),
        f("desired-capabilities", FT::MultiSym),
        f("properties", FT::SymMap),
    ],
};

pub static FLOW: CompSpec = CompSpec {
    name: "amqp:flow:list",
    code: 0x13,
    fields: &[
        f("next-incoming-id", FT::Uint),
        m("incoming-window", FT::Uint),
        m("next-outgoing-id", FT::Uint),
        m("outgoing-window", FT::Uint),
        f("handle", FT::Uint),
        f("delivery-count", FT::Uint),
        f("link-credit", FT::Uint),
        f("available", FT::Uint),
        d("drain", FT::Bool, d_false),
        d("echo", FT::Bool, d_false),
        f("properties", FT::SymMap),
    ],
};

pub static TRANSFER: CompSpec = CompSpec {
    name: "amqp:transfer:list",
    code: 0x14,
    fields: &[
        m("handle", FT::Uint),
        f("delivery-id", FT::Uint),
        f("delivery-tag", FT::Binary),
        f("message-format", FT::Uint),
        f("settled", FT::Bool),
        d("more", FT::Bool, d_false),
        f("rcv-settle-mode", FT::RcvSettle),
        f("state", FT::OneOf(&DELIVERY_STATES)),
        d("resume", FT::Bool, d_false),
        d("aborted", FT::Bool, d_false),
        d("batchable", FT::Bool, d_false),
    ],
};

pub static DISPOSITION: CompSpec = CompSpec {
    name: "amqp:disposition:list",
    code: 0x15,
    fields: &[
        m("role", FT::Role),
        m("first", FT::Uint),
        f("last", FT::Uint),
        d("settled", FT::Bool, d_false),
        f("state", FT::OneOf(&DELIVERY_STATES)),
        d("batchable", FT::Bool, d_false),
    ],
};

pub static DETACH: CompSpec = CompSpec {
    name: "amqp:detach:list",
    code: 0x16,
    fields: &[m("handle", FT::Uint), d("closed", FT::Bool, d_false), f("error", FT::Comp(&ERROR))],
};
pub static END: CompSpec = CompSpec {
    name: "amqp:end:list",
    code: 0x17,
    fields: &[f("error", FT::Comp(&ERROR))],
};
pub static CLOSE: CompSpec = CompSpec {
    name: "amqp:close:list",
    code: 0x18,
    fields: &[f("error", FT::Comp(&ERROR))],
};

pub static PERFORMATIVES: [&CompSpec; 9] = [&OPEN, &BEGIN, &ATTACH, &FLOW, &TRANSFER, &DISPOSITION, &DETACH, &END, &CLOSE];

pub static SASL_MECHANISMS: CompSpec = CompSpec {
    name: "amqp:sasl-mechanisms:list",
    code: 0x40,
    fields: &[m("sasl-server-mechanisms", FT::MultiSym)],
};
pub static SASL_INIT: CompSpec = CompSpec {
    name: "amqp:sasl-init:list",
    code: 0x41,
    fields: &[m("mechanism", FT::Sym), f("initial-response", FT::Binary), f("hostname", FT::Str)],
};
pub static SASL_CHALLENGE: CompSpec = CompSpec {
    name: "amqp:sasl-challenge:list",
    code: 0x42,
    fields: &[m("challenge", FT::Binary)],
};
pub static SASL_RESPONSE: CompSpec = CompSpec {
    name: "amqp:sasl-response:list",
    code: 0x43,
    fields: &[m("response", FT::Binary)],
};
pub static SASL_OUTCOME: CompSpec = CompSpec {
    name: "amqp:sasl-outcome:list",
    code: 0x44,
    fields: &[m("code", FT::SaslCode), f("additional-data", FT::Binary)],
};
pub static SASL_BODIES: [&CompSpec; 5] = [&SASL_MECHANISMS, &SASL_INIT, &SASL_CHALLENGE, &SASL_RESPONSE, &SASL_OUTCOME];

pub static DECLARE: CompSpec = CompSpec {
    name: "amqp:declare:list",
    code: 0x31,
    fields: &[f("global-id", FT::Binary)],
};
pub static DISCHARGE: CompSpec = CompSpec {
    name: "amqp:discharge:list",
    code: 0x32,
    fields: &[m("txn-id", FT::Binary), f("fail", FT::Bool)],
};

pub static HEADER: CompSpec = CompSpec {
    name: "amqp:header:list",
    code: 0x70,
    fields: &[
        d("durable", FT::Bool, d_false),
        d("priority", FT::Ubyte, d_prio),
        f("ttl", FT::Uint),
        d("first-acquirer", FT::Bool, d_false),
        d("delivery-count", FT::Uint, d_uint0),
    ],
};
pub static PROPERTIES: CompSpec = CompSpec {
    name: "amqp:properties:list",
    code: 0x73,
    fields: &[
        f("message-id", FT::MessageId),
        f("user-id", FT::Binary),
        f("to", FT::Str),
        f("subject", FT::Str),
        f("reply-to", FT::Str),
        f("correlation-id", FT::MessageId),
        f("content-type", FT::Sym),
        f("content-encoding", FT::Sym),
        f("absolute-expiry-time", FT::Timestamp),
        f("creation-time", FT::Timestamp),
        f("group-id", FT::Str),
        f("group-sequence", FT::Uint),
        f("reply-to-group-id", FT::Str),
    ],
};

pub static ALL_COMPOSITES: &[&CompSpec] = &[
    &OPEN,
    &BEGIN,
    &ATTACH,
    &FLOW,
    &TRANSFER,
    &DISPOSITION,
    &DETACH,
    &END,
    &CLOSE,
    &ERROR,
    &RECEIVED,
    &ACCEPTED,
    &REJECTED,
    &RELEASED,
    &MODIFIED,
    &DECLARED,
    &TXN_STATE,
    &SOURCE,
    &TARGET,
    &COORDINATOR,
    &SASL_MECHANISMS,
    &SASL_INIT,
    &SASL_CHALLENGE,
    &SASL_RESPONSE,
    &SASL_OUTCOME,
    &DECLARE,
    &DISCHARGE,
    &HEADER,
    &PROPERTIES,
];

pub fn spec_by_code(code: u64) -> Option<&'static CompSpec> {
    ALL_COMPOSITES.iter().copied().find(|c| c.code == code)
}
pub fn spec_by_name(name: &str) -> Option<&'static CompSpec> {
    ALL_COMPOSITES.iter().copied().find(|c| c.name == name)
}

pub const ERR_CONDS: &[&str] = &[
    "amqp:internal-error",
    "amqp:not-found",
    "amqp:unauthorized-access",
    "amqp:decode-error",
    "amqp:resource-limit-exceeded",
    "amqp:not-allowed",
    "amqp:invalid-field",
    "amqp:not-implemented",
    "amqp:resource-locked",
    "amqp:precondition-failed",
    "amqp:resource-deleted",
    "amqp:illegal-state",
    "amqp:frame-size-too-small",
    "amqp:connection:forced",
    "amqp:connection:framing-error",
    "amqp:connection:redirect",
    "amqp:session:window-violation",
    "amqp:session:errant-link",
    "amqp:session:handle-in-use",
    "amqp:session:unattached-handle",
    "amqp:link:detach-forced",
    "amqp:link:transfer-limit-exceeded",
    "amqp:link:message-size-exceeded",
    "amqp:link:redirect",
    "amqp:link:stolen",
    "amqp:transaction:unknown-id",
    "amqp:transaction:rollback",
    "amqp:transaction:timeout",
];

pub const TXN_CAPS: &[&str] = &[
    "amqp:local-transactions",
    "amqp:distributed-transactions",
    "amqp:promotable-transactions",
    "amqp:multi-txns-per-ssn",
    "amqp:multi-ssns-per-txn",
];

// ---------------------------------------------------------------------------
// generation

fn small_sym() -> BoxedStrategy<String> {
    "[a-z][a-z0-9:-]{0,12}".prop_map(|s| s).boxed()
}

fn sym_map() -> BoxedStrategy<RValue> {
    vec((small_sym(), gen::rvalue(gen::GenCfg { depth: 2, breadth: 3, big: false, size: 8 })), 0..4)
        .prop_map(|pairs| {
            let mut seen = std::collections::HashSet::new();
            RValue::Map(
                pairs
                    .into_iter()
                    .filter(|(k, _)| seen.insert(k.clone()))
                    .map(|(k, v)| (RValue::Sym(k), v))
                    .collect(),
            )
        })
        .boxed()
}

/// a `multiple` field: single value or array (both are spec-legal encodings); empty array too
fn multi(elems: BoxedStrategy<String>) -> BoxedStrategy<RValue> {
    multi_min(elems, 0)
}

/// spec 1.4 (multiple): a mandatory multiple field must contain at least one value
fn multi_min(elems: BoxedStrategy<String>, min: usize) -> BoxedStrategy<RValue> {
    prop_oneof![
        1 => elems.clone().prop_map(RValue::Sym),
        3 => vec(elems, min..4).prop_map(|v| RValue::Array(v.into_iter().map(RValue::Sym).collect())),
    ]
    .boxed()
}

fn one_of(specs: &'static [&'static CompSpec], depth: u32) -> BoxedStrategy<RValue> {
    (0..specs.len()).prop_flat_map(move |i| composite_value(specs[i], depth)).boxed()
}

pub fn field_value(ft: FT, depth: u32) -> BoxedStrategy<RValue> {
    match ft {
        FT::Str => gen::string_strategy(false).prop_map(RValue::Str).boxed(),
        FT::Sym => small_sym().prop_map(RValue::Sym).boxed(),
        FT::Ubyte => gen::u8_edge().prop_map(RValue::Ubyte).boxed(),
        FT::Ushort => gen::u16_edge().prop_map(RValue::Ushort).boxed(),
        FT::Uint => gen::u32_edge().prop_map(RValue::Uint).boxed(),
        FT::Ulong => gen::u64_edge().prop_map(RValue::Ulong).boxed(),
        FT::Bool | FT::Role => any::<bool>().prop_map(RValue::Bool).boxed(),
        FT::Binary => gen::binary_strategy(false).prop_map(RValue::Binary).boxed(),
        FT::Timestamp => gen::i64_edge().prop_map(RValue::Timestamp).boxed(),
        FT::SymMap => sym_map(),
        FT::MultiSym => multi(small_sym()),
        FT::MultiTxnCap => multi((0..TXN_CAPS.len()).prop_map(|i| TXN_CAPS[i].to_string()).boxed()),
        FT::Comp(s) => composite_value(s, depth + 1),
        FT::OneOf(s) => one_of(s, depth + 1),
        FT::MessageId => prop_oneof![
            gen::u64_edge().prop_map(RValue::Ulong),
            any::<[u8; 16]>().prop_map(RValue::Uuid),
            gen::binary_strategy(false).prop_map(RValue::Binary),
            gen::string_strategy(false).prop_map(RValue::Str),
        ]
        .boxed(),
        FT::Unsettled => vec((vec(any::<u8>(), 0..6), prop_oneof![1 => Just(RValue::Null), 3 => one_of(&DELIVERY_STATES, depth + 1)]), 0..3)
            .prop_map(|pairs| {
                let mut seen = std::collections::HashSet::new();
                RValue::Map(
                    pairs
                        .into_iter()
                        .filter(|(k, _)| seen.insert(k.clone()))
                        .map(|(k, v)| (RValue::Binary(k), v))
                        .collect(),
                )
            })
            .boxed(),
        FT::SndSettle => (0u8..=2).prop_map(RValue::Ubyte).boxed(),
        FT::RcvSettle => (0u8..=1).prop_map(RValue::Ubyte).boxed(),
        FT::Durability => (0u32..=2).prop_map(RValue::Uint).boxed(),
        FT::ExpiryPolicy => prop_oneof![Just("link-detach"), Just("session-end"), Just("connection-close"), Just("never")]
            .prop_map(RValue::sym)
            .boxed(),
        FT::DistMode => prop_oneof![Just("move"), Just("copy")].prop_map(RValue::sym).boxed(),
        FT::SaslCode => (0u8..=4).prop_map(RValue::Ubyte).boxed(),
        FT::ErrCond => prop_oneof![
            4 => (0..ERR_CONDS.len()).prop_map(|i| RValue::sym(ERR_CONDS[i])),
            1 => "[a-z]{1,8}:[a-z-]{1,12}".prop_map(RValue::Sym),
        ]
        .boxed(),
    }
}

/// full-length field list (absent optional fields are Null)
pub fn composite_fields(spec: &'static CompSpec, depth: u32) -> BoxedStrategy<Vec<RValue>> {
    let mut strat: BoxedStrategy<Vec<RValue>> = Just(Vec::new()).boxed();
    for fs in spec.fields.iter() {
        let fv: BoxedStrategy<RValue> = if fs.mandatory && matches!(fs.ft, FT::MultiSym) {
            multi_min(small_sym(), 1)
        } else if fs.mandatory {
            field_value(fs.ft, depth)
        } else if depth >= 3 {
            // keep nested composites shallow
            prop_oneof![3 => Just(RValue::Null), 1 => field_value(fs.ft, depth)].boxed()
        } else {
            prop_oneof![1 => Just(RValue::Null), 1 => field_value(fs.ft, depth)].boxed()
        };
        strat = (strat, fv)
            .prop_map(|(mut v, x)| {
                v.push(x);
                v
            })
            .boxed();
    }
    strat
}

/// described list with the numeric descriptor and the full field list
pub fn composite_value(spec: &'static CompSpec, depth: u32) -> BoxedStrategy<RValue> {
    composite_fields(spec, depth)
        .prop_map(move |fields| RValue::described(RValue::Ulong(spec.code), RValue::List(fields)))
        .boxed()
}

// ---------------------------------------------------------------------------
// canonical form: what the specification cannot distinguish is mapped to one representative

fn canon_multi(v: &RValue) -> RValue {
    match v {
        RValue::Null => RValue::Null,
        RValue::Array(a) if a.is_empty() => RValue::Null,
        RValue::Array(a) => RValue::Array(a.clone()),
        single => RValue::Array(vec![single.clone()]),
    }
}

pub fn canon_field(ft: FT, v: &RValue) -> RValue {
    match (ft, v) {
        (_, RValue::Null) => RValue::Null,
        (FT::MultiSym, v) | (FT::MultiTxnCap, v) => canon_multi(v),
        (FT::Comp(s), v) => canon_composite_as(s, v),
        (FT::OneOf(specs), v) => canon_one_of(specs, v),
        (FT::Unsettled, RValue::Map(p)) => RValue::Map(p.iter().map(|(k, x)| (k.clone(), canon_one_of(&DELIVERY_STATES, x))).collect()),
        (_, v) => v.clone(),
    }
}

fn canon_one_of(specs: &[&'static CompSpec], v: &RValue) -> RValue {
    if let RValue::Described(d, _) = v {
        let spec = match &**d {
            RValue::Ulong(c) => specs.iter().find(|s| s.code == *c),
            RValue::Sym(n) => specs.iter().find(|s| s.name == n),
            _ => None,
        };
        if let Some(s) = spec {
            return canon_composite_as(s, v);
        }
    }
    v.clone()
}

/// canonical form of a composite: numeric descriptor, full-length field list, defaults made
/// explicit (spec 1.4: a null field is equivalent to its default), nested composites likewise
pub fn canon_composite_as(spec: &'static CompSpec, v: &RValue) -> RValue {
    let fields = match v {
        RValue::Described(_, inner) => match &**inner {
            RValue::List(f) => f.clone(),
            _ => return v.clone(),
        },
        _ => return v.clone(),
    };
    let mut out = Vec::with_capacity(spec.fields.len());
    for (i, fs) in spec.fields.iter().enumerate() {
        let raw = fields.get(i).cloned().unwrap_or(RValue::Null);
        let c = canon_field(fs.ft, &raw);
        let c = match (&c, fs.default) {
            (RValue::Null, Some(dflt)) => dflt(),
            _ => c,
        };
        out.push(c);
    }
    // surplus fields (beyond the spec) are kept so that they are visible in a comparison
    for extra in fields.iter().skip(spec.fields.len()) {
        out.push(extra.clone());
    }
    RValue::described(RValue::Ulong(spec.code), RValue::List(out))
}

/// canonicalise any described value whose descriptor is a known composite
pub fn canon_any(v: &RValue) -> RValue {
    if let RValue::Described(d, _) = v {
        let spec = match &**d {
            RValue::Ulong(c) => spec_by_code(*c),
            RValue::Sym(n) => spec_by_name(n),
            _ => None,
        };
        if let Some(s) = spec {
            return canon_composite_as(s, v);
        }
    }
    v.clone()
}

/// Produce a spec-permitted alternative form of a composite model: descriptor by name,
/// trailing nulls elided, default-valued fields sent as null.
pub fn vary_composite(spec: &'static CompSpec, v: &RValue, knobs: &[u8]) -> RValue {
    let mut k = knobs.iter().copied().cycle();
    let mut next = move || k.next().unwrap_or(0);
    vary_inner(spec, v, &mut next)
}

/// The described-map form of a composite that the derive macros document as accepted
/// ("the deserialization will take either the list or the map encoded values"): descriptor, then a
/// map from field names to the fields that are set. Only the outermost composite is put into map form.
pub fn map_form(spec: &'static CompSpec, v: &RValue, knobs: &[u8]) -> Option<RValue> {
    let fields = match v {
        RValue::Described(_, inner) => match &**inner {
            RValue::List(f) => f.clone(),
            _ => return None,
        },
        _ => return None,
    };
    if spec.fields.is_empty() {
        return None;
    }
    let k = |i: usize| knobs.get(i % knobs.len().max(1)).copied().unwrap_or(0);
    let mut entries = Vec::new();
    for (i, fs) in spec.fields.iter().enumerate() {
        let x = fields.get(i).cloned().unwrap_or(RValue::Null);
        if x == RValue::Null {
            continue;
        }
        let key = if k(2) % 2 == 0 { RValue::sym(fs.name) } else { RValue::str(fs.name) };
        entries.push((key, x));
    }
    if k(3) % 2 == 1 {
        entries.reverse();
    }
    let desc = if k(4) % 3 == 1 { RValue::sym(spec.name) } else { RValue::Ulong(spec.code) };
    Some(RValue::described(desc, RValue::Map(entries)))
}

fn vary_inner(spec: &'static CompSpec, v: &RValue, next: &mut dyn FnMut() -> u8) -> RValue {
    let fields = match v {
        RValue::Described(_, inner) => match &**inner {
            RValue::List(f) => f.clone(),
            _ => return v.clone(),
        },
        _ => return v.clone(),
    };
    let mut out = Vec::new();
    for (i, fs) in spec.fields.iter().enumerate() {
        let mut x = fields.get(i).cloned().unwrap_or(RValue::Null);
        // nested composites
        x = match (fs.ft, &x) {
            (_, RValue::Null) => x,
            (FT::Comp(s), _) => vary_inner(s, &x, next),
            (FT::OneOf(specs), RValue::Described(d, _)) => match &**d {
                RValue::Ulong(c) => match specs.iter().find(|s| s.code == *c) {
                    Some(s) => vary_inner(s, &x, next),
                    None => x,
                },
                _ => x,
            },
            _ => x,
        };
        // null-for-default
        if let Some(dflt) = fs.default {
            if x == dflt() && next() % 2 == 1 {
                x = RValue::Null;
            }
        }
        out.push(x);
    }
    if next() % 2 == 0 {
        while matches!(out.last(), Some(RValue::Null)) {
            out.pop();
        }
    }
    let desc = if next() % 3 == 1 { RValue::sym(spec.name) } else { RValue::Ulong(spec.code) };
    RValue::described(desc, RValue::List(out))
}
