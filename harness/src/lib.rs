//! vcheck — property-based checks for fe2o3-amqp (library part, shared with the fuzz targets)
pub mod alloc;
pub mod checks;
pub mod conv;
pub mod driver;
pub mod duo;
pub mod gen;
pub mod peer;
pub mod refcodec;
pub mod refscram;
pub mod rframe;
pub mod simnet;
pub mod spec;
