#!/usr/bin/env python3
"""Regenerates /verif/MANIFEST.json from the table below (kept valid at all times)."""
import json, subprocess

CHECKS = {
 # id: (level, technique, level text, level note)
 "C03": ("exploration", "property-based testing (proptest): round-trip oracle over generated AMQP values and typed protocol items",
         "seeded proptest search with shrinking; decode(encode(x))==x on slice and io readers plus byte-equality of the re-encoding; every value class of the AMQP type system is generated with boundary bias",
         "trusts the harness value model / conversion; known open findings are carved out of the generator by construction and counted"),
}

CHECKS["C05"] = ("exploration", "property-based testing (proptest): differential against an independent spec-derived reference codec, both directions, over generated values and encoding-variant choices",
  "seeded proptest search with shrinking; implementation output must be accepted by the strict reference decoder and equal the model, and every reference encoding (all spec-permitted width/elision/descriptor variants) must decode to the same value via slice and io readers",
  "trusts harness/src/refcodec.rs and spec.rs (transcribed from the AMQP 1.0 specification, self-tested on every case); open known findings are carved out by construction and counted")
CHECKS["C20"] = ("exploration", "property-based testing (proptest): agreement relations between codec entry points over generated values, trailers and read-chunk sizes",
  "seeded proptest search with shrinking; serialized_size vs to_vec, slice vs chunked io reader incl. exact stream consumption, LazyValue, to_value/from_value vs bytes",
  "trusts the harness's chunked reader and cursor accounting; the from_value direction for described composites is an open known finding and excluded (counted)")

NOT_APPLICABLE = {}

ALL = ["C%02d" % i for i in range(1, 21)]

def main():
    checks = []
    for pid, (level, tech, text, note) in sorted(CHECKS.items()):
        checks.append({
            "property_id": pid,
            "quick_cmd": f"bin/check {pid} quick",
            "thorough_cmd": f"bin/check {pid} thorough",
            "evidence_file": f"/verif/evidence/{pid}.json",
            "replay_cmd_template": "bin/check replay {path}",
            "engine": "vcheck",
            "level_claimed": {"category": level, "text": text, "design_ref": f"DESIGN.md section 4 ({pid})"},
            "level_note": note,
            "technique": tech,
        })
    na = []
    for pid in ALL:
        if pid not in CHECKS:
            na.append({"property_id": pid, "reason": NOT_APPLICABLE.get(pid, "check not built yet in this round; planned with the same technique (see DESIGN.md section 4)")})
    m = {
        "version": 1,
        "setup_cmd": "bin/check build",
        "hooks": {
            "guard": "--cfg fe2o3_amqp_verif",
            "enable": "RUSTFLAGS in /verif/harness/.cargo/config.toml: --cfg fe2o3_amqp_verif --cfg tokio_unstable",
            "baseline_off_cmd": "cd /repo && cargo test --workspace --no-fail-fast --offline",
            "source_commits": HOOK_COMMITS,
            "add_only": True,
        },
        "engines": [{"name": "vcheck", "path": "/verif/harness", "serves_properties": sorted(CHECKS), "kind_free_text": "Rust binary: proptest TestRunner (seeded, shrinking) sharded over worker subprocesses; independent reference codec; in-memory transport; scripted AMQP peer; tokio paused clock"}],
        "checks": checks,
        "not_applicable": na,
        "notes": "All checks honour VERIF_SEED and VERIF_TIER. Exit 0 held / 1 VIOLATION / 2 inconclusive. Known findings: /verif/known_findings.json.",
    }
    json.dump(m, open("/verif/MANIFEST.json", "w"), indent=1)

HOOK_COMMITS = []
if __name__ == "__main__":
    main()
