#!/bin/bash
# usage: try_seed.sh <seed dir> <prop> [<prop>...]  — applies the patch to /repo, runs quick checks, reverts
SD=$1; shift
cd /repo || exit 2
if ! git diff --quiet; then echo "/repo dirty, refusing"; exit 2; fi
if ! git apply $SD/patch.diff; then echo "NOAPPLY $SD"; exit 3; fi
for p in "$@"; do
  start=$(date +%s)
  out=$(cd /verif && bin/check $p quick 2>&1)
  rc=$?
  echo "[$SD] $p rc=$rc t=$(( $(date +%s) - start ))s :: $(echo "$out" | grep -E "^VIOLATION|^INCONCLUSIVE" | head -3 | cut -c1-200)"
  echo "$out" | grep "violation detail" | head -2 | cut -c1-400
done
git checkout -q -- .
