#!/usr/bin/env python3
"""keep_seed.py <seed dir> <name> <property> <detected: 'C03,C05' or 'none'> <needs...>"""
import sys, os, json, shutil, subprocess
sd, name, prop, detected = sys.argv[1:5]
needs = " ".join(sys.argv[5:])
dst = f"/verif/seeded/{name}"
os.makedirs(dst, exist_ok=True)
for f in ("patch.diff", "demo.rs", "notes.md", "confirm.txt"):
    if os.path.exists(os.path.join(sd, f)):
        shutil.copy(os.path.join(sd, f), os.path.join(dst, f))
head = subprocess.check_output(["git", "-C", "/repo", "rev-parse", "--short", "HEAD"]).decode().strip()
meta = {
    "property": prop,
    "breaks": prop,
    "needs_to_manifest": needs,
    "source": "independent sub-agent given only the property text and a scratch worktree",
    "confirmed_by_me": {
        "how": "tools/confirm_seed.sh in a scratch worktree of /repo HEAD: demo passes without the patch, fails with it; cargo test --workspace has the same failing set as the unpatched tree",
        "repo_head": head,
        "result": open(os.path.join(sd, "confirm.txt")).read().strip().splitlines()[-1] if os.path.exists(os.path.join(sd, "confirm.txt")) else "?",
    },
    "checks_run": f"tools/try_seed.sh (git apply to /repo, bin/check <id> quick, git checkout)",
    "detected_by_quick": [] if detected == "none" else detected.split(","),
}
json.dump(meta, open(os.path.join(dst, "meta.json"), "w"), indent=1)
print("kept", dst)
