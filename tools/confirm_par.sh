#!/bin/bash
# usage: confirm_par.sh <prop> <n> <name> — confirm a round-5 seed inside the (finished) agent's own worktree /tmp/s5/<prop>
P=$1; N=$2; NAME=$3
WT=/tmp/s5/$P
SD=/tmp/s5stage/$NAME
export CARGO_TARGET_DIR=$WT/target CARGO_NET_OFFLINE=true
mkdir -p $SD; cp $WT/out/$N/{patch.diff,demo.rs,notes.md} $SD/ 2>/dev/null
OUT=$SD/confirm.txt; : > $OUT
cd $WT || exit 2
git checkout -q -- . ; git clean -fdq -e target -e out
crate=$(head -3 $SD/demo.rs | grep -o '[a-z0-9_-]*/tests/seed_demo.rs' | head -1 | cut -d/ -f1)
feat=""
[ "$crate" = "fe2o3-amqp" ] && feat="--features acceptor,transaction,scram"
[ "$crate" = "serde_amqp" ] && feat="--features derive,extensions"
if grep -q "^// *features:" $SD/demo.rs; then feat="--features $(grep '^// *features:' $SD/demo.rs | head -1 | sed 's/.*features: *//')"; fi
echo "crate=$crate head=$(git rev-parse --short HEAD) feat=$feat" >> $OUT
mkdir -p $WT/$crate/tests; cp $SD/demo.rs $WT/$crate/tests/seed_demo.rs
timeout 900 cargo test -j 8 -p $crate $feat --test seed_demo --offline > $SD/demo_without.log 2>&1; rc0=$?
echo "demo without patch: rc=$rc0 (expect 0)" >> $OUT
if ! git apply $SD/patch.diff 2>>$OUT; then echo "RESULT=noapply" >> $OUT; git checkout -q -- .; git clean -fdq -e target -e out; tail -1 $OUT; exit 1; fi
timeout 900 cargo test -j 8 -p $crate $feat --test seed_demo --offline > $SD/demo_with.log 2>&1; rc1=$?
echo "demo with patch: rc=$rc1 (expect non-zero)" >> $OUT
rm -f $WT/$crate/tests/seed_demo.rs
baseline=/tmp/wt-confirm-baseline-$(git -C /repo rev-parse --short HEAD).txt
cargo test -j 8 --workspace --no-fail-fast --offline 2>&1 | grep -E "^test .* (FAILED|failed)|^test result" | sed "s/; finished in.*//" | sort | uniq -c > $SD/suite_with.txt
if diff -q $baseline $SD/suite_with.txt >/dev/null; then echo "suite: same as baseline" >> $OUT; s=ok; else echo "suite: DIFFERS from baseline" >> $OUT; diff $baseline $SD/suite_with.txt >> $OUT; s=bad; fi
git checkout -q -- . ; git clean -fdq -e target -e out
if [ $rc0 -eq 0 ] && [ $rc1 -ne 0 ] && [ $s = ok ]; then echo "RESULT=confirmed" >> $OUT; else echo "RESULT=rejected" >> $OUT; fi
echo "$NAME $(tail -1 $OUT)"
