#!/bin/bash
# usage: recheck_seeds.sh [name-prefix]  — re-applies every kept seeded change to /repo and runs the quick
# tier of the check(s) recorded in its meta.json; prints one line per seed. /repo must be clean.
cd /repo || exit 2
if ! git diff --quiet; then echo "/repo dirty, refusing"; exit 2; fi
for d in /verif/seeded/${1:-}*/; do
  n=$(basename $d)
  det=$(python3 -c "import json;print(' '.join(json.load(open('$d/meta.json'))['detected_by_quick']))")
  prop=$(python3 -c "import json;print(json.load(open('$d/meta.json'))['property'])")
  if ! git apply --check $d/patch.diff 2>/dev/null; then echo "$n NOAPPLY (expected: ${det:-none})"; continue; fi
  git apply $d/patch.diff
  res=""
  for p in ${det:-$prop}; do
    out=$(cd /verif && timeout 1500 bin/check $p quick 2>&1); rc=$?
    res="$res $p:rc=$rc"
  done
  git checkout -q -- .
  echo "$n expected=[${det:-none}] got:$res"
done
