#!/bin/bash
# usage: confirm_seed.sh <seed dir with patch.diff + demo.rs>
# Confirms in a scratch worktree of /repo HEAD: demo passes without the patch, fails with it,
# and the workspace test suite has the same failing set as on the unpatched tree.
set -u
SD=$1
WT=/tmp/wt-confirm
export CARGO_TARGET_DIR=/tmp/wt-confirm-target
export CARGO_NET_OFFLINE=true
OUT=$SD/confirm.txt
: > $OUT
if [ ! -d $WT ]; then git -C /repo worktree add -q --detach $WT HEAD || exit 2; fi
git -C $WT checkout -q --detach $(git -C /repo rev-parse HEAD) 2>>$OUT
git -C $WT checkout -q -- . ; git -C $WT clean -fdq
crate=$(head -3 $SD/demo.rs | grep -o '[a-z0-9_-]*/tests/seed_demo.rs' | head -1 | cut -d/ -f1)
[ -z "$crate" ] && crate=$(grep -o 'cargo test[^\n]*-p [a-z0-9_-]*' $SD/demo.rs | head -1 | sed 's/.*-p //')
echo "crate=$crate head=$(git -C $WT rev-parse --short HEAD)" >> $OUT
feat=""
[ "$crate" = "fe2o3-amqp" ] && feat="--features acceptor,transaction,scram"
[ "$crate" = "serde_amqp" ] && feat="--features derive,extensions"
if grep -q "^// *features:" $SD/demo.rs; then feat="--features $(grep '^// *features:' $SD/demo.rs | head -1 | sed 's/.*features: *//')"; fi
baseline=/tmp/wt-confirm-baseline-$(git -C $WT rev-parse --short HEAD).txt
suite() { (cd $WT && cargo test --workspace --no-fail-fast --offline 2>&1 | grep -E "^test .* (FAILED|failed)|^test result" | sed "s/; finished in.*//" | sort | uniq -c) ; }
if [ ! -s $baseline ]; then suite > $baseline; fi
mkdir -p $WT/$crate/tests
cp $SD/demo.rs $WT/$crate/tests/seed_demo.rs
(cd $WT && timeout 900 cargo test -p $crate $feat --test seed_demo --offline > $SD/demo_without.log 2>&1); rc0=$?
echo "demo without patch: rc=$rc0 (expect 0)" >> $OUT
if ! git -C $WT apply $SD/patch.diff 2>>$OUT; then echo "PATCH DOES NOT APPLY" >> $OUT; echo "RESULT=noapply" >> $OUT; git -C $WT checkout -q -- .; git -C $WT clean -fdq; exit 1; fi
(cd $WT && timeout 900 cargo test -p $crate $feat --test seed_demo --offline > $SD/demo_with.log 2>&1); rc1=$?
echo "demo with patch: rc=$rc1 (expect non-zero)" >> $OUT
rm -f $WT/$crate/tests/seed_demo.rs
suite > $SD/suite_with.txt
if diff -q $baseline $SD/suite_with.txt >/dev/null; then echo "suite: same as baseline" >> $OUT; s=ok; else echo "suite: DIFFERS from baseline" >> $OUT; diff $baseline $SD/suite_with.txt >> $OUT; s=bad; fi
git -C $WT checkout -q -- . ; git -C $WT clean -fdq
if [ $rc0 -eq 0 ] && [ $rc1 -ne 0 ] && [ $s = ok ]; then echo "RESULT=confirmed" >> $OUT; else echo "RESULT=rejected" >> $OUT; fi
tail -1 $OUT
