#!/bin/bash
# usage: r5.sh <prop> <n> <name> [<check>...] — stage /tmp/s5/<prop>/out/<n> as /tmp/s5stage/<name>, confirm, try
P=$1; N=$2; NAME=$3; shift 3
SD=/tmp/s5stage/$NAME
mkdir -p $SD; cp /tmp/s5/$P/out/$N/{patch.diff,demo.rs,notes.md} $SD/ 2>/dev/null
/verif/tools/confirm_seed.sh $SD
/verif/tools/try_seed.sh $SD ${@:-$P}
